/-
  PV.Model.PKeyText — the text level of the private-key loader, on top of PV.Model.PKeyFile:

    PKey._read_private_key  (scan for the BEGIN / END armor tags, dispatch on the key type found)
    PKey._read_private_key_pem, first half (header block `Key: value`, base64 of the body lines)
    and the three class entry points  RSAKey/ECDSAKey/Ed25519Key(file_obj=…)

  Input: the list of lines `f.readlines()` returned, each line a list of Unicode code points (the
  text layer of CPython — UTF-8 decoding, universal newlines — is outside; a file that does not
  decode is refused with SSHException before this point).  `base64.decodebytes(b(text))` is a
  parameter (`TextPrims.b64`).  Regex / str facts used (checked against CPython when this file was written):
  `\s`, `str.strip()` and `str.isspace()` agree on the 29 code points of `isSpace`; the only non-ASCII
  character whose `.lower()` is ASCII is U+212A (KELVIN SIGN → k).
  Mathlib-free, total, executable.
-/
import PV.Model.PKeyFile
namespace PV.PKeyText
open PV PV.PKeyFile

abbrev Line := List Nat

def isSpace (c : Nat) : Bool :=
  (9 ≤ c && c ≤ 13) || (28 ≤ c && c ≤ 32) || c == 0x85 || c == 0xA0 || c == 0x1680 ||
  (0x2000 ≤ c && c ≤ 0x200A) || c == 0x2028 || c == 0x2029 || c == 0x202F || c == 0x205F || c == 0x3000

/-- as far as equality with an ASCII key is concerned, `str.lower()` -/
def lowerC (c : Nat) : Nat :=
  if 65 ≤ c ∧ c ≤ 90 then c + 32 else if c = 0x212A then 107 else c

def ofBytes (b : Bytes) : Line := b.map (·.toNat)

/-- UTF-8 bytes of a header value, up to what the later comparisons can see: a non-ASCII character
    becomes one byte ≥ 0x80 (it can match neither an ASCII constant nor a hex digit) -/
def toBytes (t : Line) : Bytes := t.map fun c => if c < 128 then UInt8.ofNat c else 0xFF

inductive Tag | rsa | ec | openssh
  deriving Repr, DecidableEq

/-- `RSA`, `EC`, `OPENSSH` -/
def Tag.text : Tag → Line
  | .rsa => [82, 83, 65] | .ec => [69, 67] | .openssh => [79, 80, 69, 78, 83, 83, 72]

/-- `-----` -/
def dashes : Line := [45, 45, 45, 45, 45]
/-- `BEGIN`, `END` -/
def wBegin : Line := [66, 69, 71, 73, 78]
def wEnd : Line := [69, 78, 68]
/-- ` PRIVATE KEY-----` -/
def tail : Line := [32, 80, 82, 73, 86, 65, 84, 69, 32, 75, 69, 89, 45, 45, 45, 45, 45]

/-- `re.match(r"^-{5}<word> (RSA|EC|OPENSSH) PRIVATE KEY-{5}\s*$", line)` → group 1 -/
def matchTag (word : Line) (line : Line) : Option Tag :=
  [Tag.rsa, Tag.ec, Tag.openssh].find? fun t =>
    let pat := dashes ++ word ++ [32] ++ t.text ++ tail
    pat.isPrefixOf line && (line.drop pat.length).all isSpace

/-- the two `while … and not m` loops: first index ≥ `i` whose line matches, else the last index -/
def scan (word : Line) : List Line → Nat → Nat × Option Tag
  | [], i => (i, none)
  | [l], i => (i, matchTag word l)
  | l :: l' :: rest, i =>
    match matchTag word l with
    | some t => (i, some t)
    | none => scan word (l' :: rest) (i + 1)

/-- `line.split(": ")` -/
def splitSep (l : Line) : List Line :=
  go l []
where
  go : Line → Line → List Line
    | [], acc => [acc.reverse]
    | [c], acc => [(c :: acc).reverse]
    | a :: b :: r, acc =>
      if a = 58 ∧ b = 32 then acc.reverse :: go r [] else go (b :: r) (a :: acc)

def strip (l : Line) : Line := ((l.dropWhile isSpace).reverse.dropWhile isSpace).reverse

/-- the header loop of `_read_private_key_pem`: returns the dict (latest assignment first) and the
    number of header lines -/
def headerBlock : List Line → List (Line × Line) → List (Line × Line) × Nat
  | [], acc => (acc, 0)
  | l :: rest, acc =>
    match splitSep l with
    | k :: v :: _ =>
      let (h, n) := headerBlock rest ((k.map lowerC, strip v) :: acc)
      (h, n + 1)
    | _ => (acc, 0)

def lookup (key : Line) (h : List (Line × Line)) : Option Line :=
  (h.find? fun e => e.1 == key).map (·.2)

/-- `proc-type`, `dek-info` -/
def kProcType : Line := [112, 114, 111, 99, 45, 116, 121, 112, 101]
def kDekInfo : Line := [100, 101, 107, 45, 105, 110, 102, 111]

structure TextPrims extends Prims where
  /-- `base64.decodebytes(b(text))` -/
  b64 : Line → M Bytes

structure TextSpec (T : TextPrims) : Prop extends PrimSpec T.toPrims where
  /-- the loader catches `base64.binascii.Error` only -/
  b64_cls : ∀ t c, T.b64 t = .error c → c = .binasciiError

def b64ssh (T : TextPrims) (t : Line) : M Bytes :=
  match T.b64 t with
  | .ok b => .ok b
  | .error c => if c = .binasciiError then .error .sshException else .error c

/-- `"".join(lines[a:b])` -/
def joinRange (lines : List Line) (a b : Nat) : Line := ((lines.take b).drop a).flatten

/-- `_read_private_key_pem(lines, end, password)` (headers are read from line 1, whatever line the
    BEGIN tag was found on) -/
def readPem (T : TextPrims) (lines : List Line) (e : Nat) (pw : Option Bytes) : M Bytes :=
  let (hdrs, n) := headerBlock (lines.drop 1) []
  match b64ssh T (joinRange lines (1 + n) e) with
  | .error c => .error c
  | .ok body =>
    pemBody T.toPrims ((lookup kProcType hdrs).map toBytes) ((lookup kDekInfo hdrs).map toBytes) body pw

/-- `_read_private_key(tag, f, password)`: (is OpenSSH format, data) -/
def readKey (T : TextPrims) (tag : Tag) (lines : List Line) (pw : Option Bytes) : M (Bool × Bytes) :=
  if lines = [] then .error .sshException else
  let (i, m) := scan wBegin lines 0
  let start := i + 1
  match m with
  | none => .error .sshException
  | some kt =>
    if start ≥ lines.length then .error .sshException else
    let (e, _) := scan wEnd (lines.drop start) start
    if kt = tag then
      match readPem T lines e pw with
      | .error c => .error c
      | .ok d => .ok (false, d)
    else if kt = .openssh then
      match b64ssh T (joinRange lines start e) with
      | .error c => .error c
      | .ok data =>
        match readOpenssh false T.toPrims data pw with
        | .error c => .error c
        | .ok kd => .ok (true, kd)
    else .error .sshException

/-- `RSAKey(file_obj=f, password=pw)`, `ECDSAKey(…)`, `Ed25519Key(…)` on the lines of `f` -/
def loadText (T : TextPrims) (k : PKeyFile.Kind) (lines : List Line) (pw : Option Bytes) : M Unit :=
  match k with
  | .rsa =>
    match readKey T .rsa lines pw with
    | .error c => .error c
    | .ok (ossh, d) => if ossh then rsaFromKeydata T.toPrims d else fromDer T.toPrims .rsa d
  | .ec =>
    match readKey T .ec lines pw with
    | .error c => .error c
    | .ok (ossh, d) => if ossh then ecFromKeydata T.toPrims d else fromDer T.toPrims .ec d
  | .ed =>
    -- `self._read_private_key("OPENSSH", f)`: no passphrase at this level; the data goes to the
    -- container parser whatever the format id
    match readKey T .openssh lines none with
    | .error c => .error c
    | .ok (_, d) =>
      match loadEd false T.toPrims d pw with
      | .error c => .error c
      | .ok _ => .ok ()

end PV.PKeyText
