/-
  Liveness side of the prefetch model: the bookkeeping invariant ("every registered extent and every request a
  waiting party depends on is still in flight"), deadlock freedom for a reader that waits for a response, and the
  progress measure of the non-reader tasks.
-/
import PV.Model.PrefetchInv
namespace PV.Prefetch
open PV

def dispNum : Pc → Option Nat
  | .dispPf _ n _ => some n
  | .dispSync _ _ n _ => some n
  | _ => none

def syncNum : Pc → Option Nat
  | .recvSync _ n => some n
  | .dispSync _ n _ _ => some n
  | _ => none

def InQ (c2s : List Nat) (s2c : List (Nat × Resp)) (n : Nat) : Prop := n ∈ c2s ∨ n ∈ s2c.map (·.1)
def InFlight (c2s : List Nat) (s2c : List (Nat × Resp)) (pc : Pc) (n : Nat) : Prop :=
  InQ c2s s2c n ∨ dispNum pc = some n

def PfOwned (info : List Info) (n i : Nat) : Prop := ∃ o l, info[n]? = some ⟨o, l, .pf i⟩
def SyncOwned (info : List Info) (n : Nat) : Prop := ∃ o l, info[n]? = some ⟨o, l, .sync⟩

def ThrLive (info : List Info) (ext : List (Nat × Chunk)) (c2s : List Nat) (s2c : List (Nat × Resp)) (pc : Pc)
    (i : Nat) : TSt → Prop
  | .idle _ => True
  | .checked cs => cs ≠ []
  | .allocd n _ _ _ => PfOwned info n i ∧ dictHas ext n = false
  | .sent n _ _ _ => PfOwned info n i ∧ dictHas ext n = false ∧ InFlight c2s s2c pc n

structure LiveF (info : List Info) (c2s : List Nat) (s2c : List (Nat × Resp)) (threads : List Thread)
    (ext : List (Nat × Chunk)) (done : Bool) (pc : Pc) (pf : Bool) : Prop where
  thrs : ∀ i t, threads[i]? = some t → ThrLive info ext c2s s2c pc i t.st ∧ t.cap ≠ some 0
  exts : ∀ e ∈ ext, (∃ j, PfOwned info e.1 j) ∧ InFlight c2s s2c pc e.1
  c2sB : ∀ n ∈ c2s, n < info.length
  doneW : (pf = true → threads ≠ []) ∧ (done = false → threads ≠ [] → (∃ t ∈ threads, t.st ≠ .idle []) ∨ ext ≠ [])
  recvW : ∀ c, pc = .recvPf c → done = false ∧ pf = true
  syncW : ∀ n, syncNum pc = some n → SyncOwned info n ∧ InQ c2s s2c n
  heldW : ∀ c n, pc = .sendSync c n → SyncOwned info n

def Live (s : St) : Prop := LiveF s.info s.c2s s.s2c s.threads s.extents s.done s.pc s.prefetching

/-- reader-inert program counters (no dispatch in progress, no own request outstanding) -/
def Inert (done pf : Bool) (pc : Pc) : Prop :=
  pc = .idle ∨ (∃ c, pc = .cont c) ∨ (∃ c, pc = .recvPf c ∧ done = false ∧ pf = true) ∨ (∃ c, pc = .allocSync c)

theorem inert_disp {done pf : Bool} {pc : Pc} (h : Inert done pf pc) : dispNum pc = none ∧ syncNum pc = none := by
  rcases h with h | ⟨c, h⟩ | ⟨c, h, _⟩ | ⟨c, h⟩ <;> subst h <;> exact ⟨rfl, rfl⟩

/-! ## dict facts -/

theorem dictHas_false_of {α : Type} {d : List (Nat × α)} {n : Nat} (h : ∀ e ∈ d, e.1 ≠ n) : dictHas d n = false := by
  unfold dictHas
  rw [Bool.eq_false_iff]
  intro hc
  rw [List.any_eq_true] at hc
  obtain ⟨e, he, hk⟩ := hc
  exact h e he (by simpa using hk)

theorem dictHas_false_mem {α : Type} {d : List (Nat × α)} {n : Nat} (h : dictHas d n = false) : ∀ e ∈ d, e.1 ≠ n := by
  intro e he hc
  have := dictHas_of_mem he
  rw [hc] at this
  rw [this] at h
  cases h

theorem dictHas_dictDel_false {α : Type} {d : List (Nat × α)} {k n : Nat} (h : dictHas d n = false) :
    dictHas (dictDel d k) n = false :=
  dictHas_false_of fun e he => dictHas_false_mem h e (mem_dictDel he).1

theorem dictHas_dictSet_false {α : Type} {d : List (Nat × α)} {k n : Nat} {v : α} (h : dictHas d n = false)
    (hne : n ≠ k) : dictHas (dictSet d k v) n = false := by
  apply dictHas_false_of
  intro e he
  rcases mem_dictSet he with h1 | h1
  · subst h1; exact fun hc => hne hc.symm
  · exact dictHas_false_mem h e h1

theorem dictSet_ne_nil {α : Type} (d : List (Nat × α)) (k : Nat) (v : α) : dictSet d k v ≠ [] := by
  unfold dictSet
  split
  · rename_i h
    unfold dictHas at h
    rw [List.any_eq_true] at h
    obtain ⟨e, he, _⟩ := h
    intro hc
    have := List.map_eq_nil_iff.mp hc
    rw [this] at he
    cases he
  · simp

/-! ## shape of `advance` -/

theorem advance_shape (fuel : Nat) (s : St) (c : RCtx) :
    (advance fuel s c).info = s.info ∧ (advance fuel s c).c2s = s.c2s ∧ (advance fuel s c).s2c = s.s2c ∧
    (advance fuel s c).threads = s.threads ∧ (advance fuel s c).extents = s.extents ∧
    (advance fuel s c).done = s.done ∧ ((advance fuel s c).prefetching = true → s.prefetching = true) ∧
    Inert s.done (advance fuel s c).prefetching (advance fuel s c).pc := by
  induction fuel generalizing s c with
  | zero => exact ⟨rfl, rfl, rfl, rfl, rfl, rfl, id, Or.inr (Or.inl ⟨c, rfl⟩)⟩
  | succ fuel ih =>
    unfold advance
    split
    · exact ⟨rfl, rfl, rfl, rfl, rfl, rfl, id, Or.inl rfl⟩
    · split
      · rename_i hpf
        split
        · simp only
          split
          · exact ⟨rfl, rfl, rfl, rfl, rfl, rfl, id, Or.inl rfl⟩
          · exact ih _ _
        · split
          · exact ⟨rfl, rfl, rfl, rfl, rfl, rfl, fun _ => hpf, Or.inr (Or.inr (Or.inr ⟨_, rfl⟩))⟩
          · rename_i hd
            exact ⟨rfl, rfl, rfl, rfl, rfl, rfl, id, Or.inr (Or.inr (Or.inl ⟨_, rfl, by simpa using hd, hpf⟩))⟩
      · exact ⟨rfl, rfl, rfl, rfl, rfl, rfl, id, Or.inr (Or.inr (Or.inr ⟨_, rfl⟩))⟩

/-- queue-level invariant (no reference to the reader's program counter) -/
structure LiveQ (info : List Info) (c2s : List Nat) (s2c : List (Nat × Resp)) (threads : List Thread)
    (ext : List (Nat × Chunk)) (done : Bool) (pf : Bool) : Prop where
  thrs : ∀ i t, threads[i]? = some t → ThrLive info ext c2s s2c .idle i t.st ∧ t.cap ≠ some 0
  exts : ∀ e ∈ ext, (∃ j, PfOwned info e.1 j) ∧ InQ c2s s2c e.1
  c2sB : ∀ n ∈ c2s, n < info.length
  doneW : (pf = true → threads ≠ []) ∧ (done = false → threads ≠ [] → (∃ t ∈ threads, t.st ≠ .idle []) ∨ ext ≠ [])

theorem thrLive_pc {info ext c2s s2c} {pc pc' : Pc} {i : Nat} {st : TSt}
    (h : ThrLive info ext c2s s2c pc i st) (hd : ∀ n, dispNum pc = some n → dispNum pc' = some n) :
    ThrLive info ext c2s s2c pc' i st := by
  cases st with
  | idle c => trivial
  | checked c => exact h
  | allocd n o l r => exact h
  | sent n o l r =>
    obtain ⟨a, b, c⟩ := h
    refine ⟨a, b, ?_⟩
    rcases c with c | c
    · exact Or.inl c
    · exact Or.inr (hd n c)

theorem liveF_of_liveQ {info c2s s2c threads ext done pf} {pc : Pc} (hq : LiveQ info c2s s2c threads ext done pf)
    (hi : Inert done pf pc) : LiveF info c2s s2c threads ext done pc pf := by
  obtain ⟨hd, hs⟩ := inert_disp hi
  refine ⟨?_, ?_, hq.c2sB, hq.doneW, ?_, ?_, ?_⟩
  · intro i t ht
    obtain ⟨a, b⟩ := hq.thrs i t ht
    exact ⟨thrLive_pc a (by intro n hn; simp [dispNum] at hn), b⟩
  · intro e he
    obtain ⟨a, b⟩ := hq.exts e he
    exact ⟨a, Or.inl b⟩
  · intro c hc
    rcases hi with h | ⟨c', h⟩ | ⟨c', h, hdone, hpf⟩ | ⟨c', h⟩
    · rw [h] at hc; cases hc
    · rw [h] at hc; cases hc
    · exact ⟨hdone, hpf⟩
    · rw [h] at hc; cases hc
  · intro n hn; rw [hs] at hn; cases hn
  · intro c n hc
    rcases hi with h | ⟨c', h⟩ | ⟨c', h, _⟩ | ⟨c', h⟩ <;> (rw [h] at hc; cases hc)

theorem live_advance {s : St} (fuel : Nat) (c : RCtx)
    (hq : LiveQ s.info s.c2s s.s2c s.threads s.extents s.done s.prefetching) : Live (advance fuel s c) := by
  obtain ⟨h1, h2, h3, h4, h5, h6, h7, h8⟩ := advance_shape fuel s c
  unfold Live
  rw [h1, h2, h3, h4, h5, h6]
  have hq' : LiveQ s.info s.c2s s.s2c s.threads s.extents s.done (advance fuel s c).prefetching :=
    ⟨hq.thrs, hq.exts, hq.c2sB, ⟨fun hp => hq.doneW.1 (h7 hp), hq.doneW.2⟩⟩
  exact liveF_of_liveQ hq' h8


/-! ## list plumbing -/

theorem get_set {α : Type} {l : List α} {i j : Nat} {a t : α} (h : (l.set i a)[j]? = some t) :
    (j = i ∧ t = a) ∨ (j ≠ i ∧ l[j]? = some t) := by
  rw [List.getElem?_set] at h
  by_cases hij : i = j
  · subst hij
    simp only [if_true] at h
    split at h
    · left; exact ⟨rfl, by simpa using h.symm⟩
    · cases h
  · simp only [hij, if_false] at h
    right; exact ⟨fun hc => hij hc.symm, h⟩

theorem set_nil {α : Type} {l : List α} {i : Nat} {a : α} (h : l.set i a = []) : l = [] := by
  have := congrArg List.length h
  rw [List.length_set] at this
  exact List.eq_nil_of_length_eq_zero this

theorem lt_of_get {α : Type} {l : List α} {i : Nat} {a : α} (h : l[i]? = some a) : i < l.length := by
  rcases Nat.lt_or_ge i l.length with h' | h'
  · exact h'
  · rw [List.getElem?_eq_none h'] at h; cases h

theorem exists_set {l : List Thread} {i : Nat} {old new : Thread} {P : Thread → Prop}
    (h : ∃ t ∈ l, P t) (hi : l[i]? = some old) (hn : P new) : ∃ t ∈ l.set i new, P t := by
  obtain ⟨t, ht, hp⟩ := h
  obtain ⟨j, hj⟩ := List.mem_iff_getElem?.mp ht
  by_cases hji : j = i
  · exact ⟨new, List.mem_set (lt_of_get hi) new, hn⟩
  · refine ⟨t, ?_, hp⟩
    apply List.mem_iff_getElem?.mpr
    refine ⟨j, ?_⟩
    rw [List.getElem?_set]
    have hij : ¬ i = j := fun hc => hji hc.symm
    rw [if_neg hij]
    exact hj

theorem thrLive_transfer {info info' : List Info} {ext ext' : List (Nat × Chunk)} {c2s c2s' : List Nat}
    {s2c s2c' : List (Nat × Resp)} {pc pc' : Pc} {i : Nat} {st : TSt}
    (h : ThrLive info ext c2s s2c pc i st)
    (hinfo : ∀ n, PfOwned info n i → PfOwned info' n i)
    (hext : ∀ n, PfOwned info n i → dictHas ext n = false → dictHas ext' n = false)
    (hfl : ∀ n, PfOwned info n i → dictHas ext n = false → InFlight c2s s2c pc n → InFlight c2s' s2c' pc' n) :
    ThrLive info' ext' c2s' s2c' pc' i st := by
  cases st with
  | idle c => trivial
  | checked c => exact h
  | allocd n o l r => exact ⟨hinfo n h.1, hext n h.1 h.2⟩
  | sent n o l r => exact ⟨hinfo n h.1, hext n h.1 h.2.1, hfl n h.1 h.2.1 h.2.2⟩

theorem pfOwned_append {info : List Info} {n i : Nat} (h : PfOwned info n i) (m : List Info) :
    PfOwned (info ++ m) n i := by
  obtain ⟨o, l, hh⟩ := h; exact ⟨o, l, getElem?_append_some hh m⟩

theorem syncOwned_append {info : List Info} {n : Nat} (h : SyncOwned info n) (m : List Info) :
    SyncOwned (info ++ m) n := by
  obtain ⟨o, l, hh⟩ := h; exact ⟨o, l, getElem?_append_some hh m⟩

theorem pfOwned_lt {info : List Info} {n i : Nat} (h : PfOwned info n i) : n < info.length := by
  obtain ⟨o, l, hh⟩ := h; exact lt_of_get hh

theorem pfOwned_inj {info : List Info} {n i j : Nat} (h1 : PfOwned info n i) (h2 : PfOwned info n j) : i = j := by
  obtain ⟨o, l, a⟩ := h1
  obtain ⟨o', l', b⟩ := h2
  rw [a] at b
  simp at b
  exact b.2.2

theorem pf_not_sync {info : List Info} {n i : Nat} (h1 : PfOwned info n i) (h2 : SyncOwned info n) : False := by
  obtain ⟨o, l, a⟩ := h1
  obtain ⟨o', l', b⟩ := h2
  rw [a] at b
  simp at b

/-! ## the non-reader actions keep `Live` -/

theorem live_serve {s s' : St} {k : Nat} (hl : Live s) (h : step s (.serve k) = some s') : Live s' := by
  simp only [step] at h
  cases hc : s.c2s with
  | nil => simp [hc] at h
  | cons num rest =>
    simp only [hc] at h
    cases hinf : s.info[num]? with
    | none => simp [hinf] at h
    | some inf =>
      simp only [hinf] at h
      cases h
      unfold Live at hl ⊢
      simp only
      rw [hc] at hl
      have hq : ∀ n r', InQ (num :: rest) s.s2c n → InQ rest (s.s2c ++ [(num, r')]) n := by
        intro n r' hn
        rcases hn with hn | hn
        · rcases List.mem_cons.mp hn with h1 | h1
          · right; subst h1; simp
          · left; exact h1
        · right; simp only [List.map_append, List.mem_append]; left; exact hn
      have hf : ∀ n r', InFlight (num :: rest) s.s2c s.pc n → InFlight rest (s.s2c ++ [(num, r')]) s.pc n := by
        intro n r' hn
        rcases hn with hn | hn
        · exact Or.inl (hq n r' hn)
        · exact Or.inr hn
      refine ⟨?_, ?_, ?_, hl.doneW, hl.recvW, ?_, hl.heldW⟩
      · intro i t ht
        obtain ⟨a, b⟩ := hl.thrs i t ht
        exact ⟨thrLive_transfer a (fun _ x => x) (fun _ _ x => x) (fun n _ _ x => hf n _ x), b⟩
      · intro e he
        obtain ⟨a, b⟩ := hl.exts e he
        exact ⟨a, hf _ _ b⟩
      · intro n hn; exact hl.c2sB n (List.mem_cons_of_mem _ hn)
      · intro n hn
        obtain ⟨a, b⟩ := hl.syncW n hn
        exact ⟨a, hq _ _ b⟩

theorem live_serveFail {s s' : St} {k : Nat} (hl : Live s) (h : step s (.serveFail k) = some s') : Live s' := by
  simp only [step] at h
  cases hc : s.c2s with
  | nil => simp [hc] at h
  | cons num rest =>
    simp only [hc] at h
    cases hinf : s.info[num]? with
    | none => simp [hinf] at h
    | some inf =>
      simp only [hinf] at h
      cases h
      unfold Live at hl ⊢
      simp only
      rw [hc] at hl
      have hq : ∀ n r', InQ (num :: rest) s.s2c n → InQ rest (s.s2c ++ [(num, r')]) n := by
        intro n r' hn
        rcases hn with hn | hn
        · rcases List.mem_cons.mp hn with h1 | h1
          · right; subst h1; simp
          · left; exact h1
        · right; simp only [List.map_append, List.mem_append]; left; exact hn
      have hf : ∀ n r', InFlight (num :: rest) s.s2c s.pc n → InFlight rest (s.s2c ++ [(num, r')]) s.pc n := by
        intro n r' hn
        rcases hn with hn | hn
        · exact Or.inl (hq n r' hn)
        · exact Or.inr hn
      refine ⟨?_, ?_, ?_, hl.doneW, hl.recvW, ?_, hl.heldW⟩
      · intro i t ht
        obtain ⟨a, b⟩ := hl.thrs i t ht
        exact ⟨thrLive_transfer a (fun _ x => x) (fun _ _ x => x) (fun n _ _ x => hf n _ x), b⟩
      · intro e he
        obtain ⟨a, b⟩ := hl.exts e he
        exact ⟨a, hf _ _ b⟩
      · intro n hn; exact hl.c2sB n (List.mem_cons_of_mem _ hn)
      · intro n hn
        obtain ⟨a, b⟩ := hl.syncW n hn
        exact ⟨a, hq _ _ b⟩

theorem live_tCheck {s s' : St} {i : Nat} (hl : Live s) (h : step s (.tCheck i) = some s') : Live s' := by
  simp only [step] at h
  split at h
  · rename_i c rest cap hth
    split at h
    · cases h
      unfold Live at hl ⊢
      simp only [setThread]
      refine ⟨?_, hl.exts, hl.c2sB, ?_, hl.recvW, hl.syncW, hl.heldW⟩
      · intro j t ht
        rcases get_set ht with ⟨hj, ht'⟩ | ⟨hj, ht'⟩
        · subst ht'; subst hj
          exact ⟨by simp [ThrLive], (hl.thrs _ _ hth).2⟩
        · exact hl.thrs j t ht'
      · refine ⟨fun hp hc => hl.doneW.1 hp (set_nil hc), fun hd hne => ?_⟩
        rcases hl.doneW.2 hd (fun hc => hne (by rw [hc]; rfl)) with hw | hw
        · left; exact exists_set hw hth (by simp)
        · right; exact hw
    · cases h
  · cases h

theorem live_tAlloc {s s' : St} {i : Nat} (hl : Live s) (h : step s (.tAlloc i) = some s') : Live s' := by
  simp only [step] at h
  split at h
  · rename_i c rest cap hth
    cases h
    unfold Live at hl ⊢
    simp only [setThread]
    refine ⟨?_, ?_, ?_, ?_, hl.recvW, ?_, ?_⟩
    · intro j t ht
      rcases get_set ht with ⟨hj, ht'⟩ | ⟨hj, ht'⟩
      · subst ht'; subst hj
        refine ⟨⟨⟨c.1, c.2, by simp⟩, ?_⟩, (hl.thrs _ _ hth).2⟩
        apply dictHas_false_of
        intro e he hc
        obtain ⟨⟨j', hj'⟩, _⟩ := hl.exts e he
        have := pfOwned_lt hj'
        omega
      · obtain ⟨a, b⟩ := hl.thrs j t ht'
        exact ⟨thrLive_transfer a (fun _ x => pfOwned_append x _) (fun _ _ x => x) (fun _ _ _ x => x), b⟩
    · intro e he
      obtain ⟨⟨j, a⟩, b⟩ := hl.exts e he
      exact ⟨⟨j, pfOwned_append a _⟩, b⟩
    · intro n hn
      have := hl.c2sB n hn
      simp only [List.length_append, List.length_singleton]; omega
    · refine ⟨fun hp hc => hl.doneW.1 hp (set_nil hc), fun hd hne => ?_⟩
      rcases hl.doneW.2 hd (fun hc => hne (by rw [hc]; rfl)) with hw | hw
      · left; exact exists_set hw hth (by simp)
      · right; exact hw
    · intro n hn
      obtain ⟨a, b⟩ := hl.syncW n hn
      exact ⟨syncOwned_append a _, b⟩
    · intro c' n hc
      exact syncOwned_append (hl.heldW c' n hc) _
  · cases h

theorem live_tSend {s s' : St} {i : Nat} (hl : Live s) (h : step s (.tSend i) = some s') : Live s' := by
  simp only [step] at h
  split at h
  · rename_i num off len rest cap hth
    cases h
    unfold Live at hl ⊢
    simp only [setThread]
    have hme := hl.thrs _ _ hth
    have hq : ∀ n, InQ s.c2s s.s2c n → InQ (s.c2s ++ [num]) s.s2c n := by
      intro n hn
      rcases hn with hn | hn
      · left; exact List.mem_append_left _ hn
      · right; exact hn
    have hf : ∀ n, InFlight s.c2s s.s2c s.pc n → InFlight (s.c2s ++ [num]) s.s2c s.pc n := by
      intro n hn
      rcases hn with hn | hn
      · exact Or.inl (hq n hn)
      · exact Or.inr hn
    refine ⟨?_, ?_, ?_, ?_, hl.recvW, ?_, hl.heldW⟩
    · intro j t ht
      rcases get_set ht with ⟨hj, ht'⟩ | ⟨hj, ht'⟩
      · subst ht'; subst hj
        exact ⟨⟨hme.1.1, hme.1.2, Or.inl (Or.inl (by simp))⟩, hme.2⟩
      · obtain ⟨a, b⟩ := hl.thrs j t ht'
        exact ⟨thrLive_transfer a (fun _ x => x) (fun _ _ x => x) (fun n _ _ x => hf n x), b⟩
    · intro e he
      obtain ⟨a, b⟩ := hl.exts e he
      exact ⟨a, hf _ b⟩
    · intro n hn
      rcases List.mem_append.mp hn with h1 | h1
      · exact hl.c2sB n h1
      · simp at h1; subst h1; exact pfOwned_lt hme.1.1
    · refine ⟨fun hp hc => hl.doneW.1 hp (set_nil hc), fun hd hne => ?_⟩
      rcases hl.doneW.2 hd (fun hc => hne (by rw [hc]; rfl)) with hw | hw
      · left; exact exists_set hw hth (by simp)
      · right; exact hw
    · intro n hn
      obtain ⟨a, b⟩ := hl.syncW n hn
      exact ⟨a, hq _ b⟩
  · cases h

theorem live_tReg {s s' : St} {i : Nat} (hl : Live s) (h : step s (.tReg i) = some s') : Live s' := by
  simp only [step] at h
  split at h
  · rename_i num off len rest cap hth
    cases h
    unfold Live at hl ⊢
    simp only [setThread]
    have hme := hl.thrs _ _ hth
    refine ⟨?_, ?_, hl.c2sB, ?_, hl.recvW, hl.syncW, hl.heldW⟩
    · intro j t ht
      rcases get_set ht with ⟨hj, ht'⟩ | ⟨hj, ht'⟩
      · subst ht'; subst hj
        exact ⟨by simp [ThrLive], hme.2⟩
      · obtain ⟨a, b⟩ := hl.thrs j t ht'
        refine ⟨thrLive_transfer a (fun _ x => x) ?_ (fun _ _ _ x => x), b⟩
        intro n hn hd
        apply dictHas_dictSet_false hd
        intro hc
        subst hc
        exact hj (pfOwned_inj hn hme.1.1)
    · intro e he
      rcases mem_dictSet he with h1 | h1
      · subst h1
        exact ⟨⟨i, hme.1.1⟩, hme.1.2.2⟩
      · exact hl.exts e h1
    · exact ⟨fun hp hc => hl.doneW.1 hp (set_nil hc), fun _ _ => Or.inr (dictSet_ne_nil _ _ _)⟩
  · cases h


/-! ## the reader's actions keep `Live` -/

theorem liveQ_of_nodisp {info c2s s2c threads ext done pf} {pc : Pc}
    (hl : LiveF info c2s s2c threads ext done pc pf) (hd : dispNum pc = none) : LiveQ info c2s s2c threads ext done pf := by
  have hf : ∀ n, InFlight c2s s2c pc n → InQ c2s s2c n := by
    intro n hn
    rcases hn with hn | hn
    · exact hn
    · rw [hd] at hn; cases hn
  refine ⟨?_, ?_, hl.c2sB, hl.doneW⟩
  · intro i t ht
    obtain ⟨a, b⟩ := hl.thrs i t ht
    exact ⟨thrLive_transfer a (fun _ x => x) (fun _ _ x => x) (fun n _ _ x => Or.inl (hf n x)), b⟩
  · intro e he
    obtain ⟨a, b⟩ := hl.exts e he
    exact ⟨a, hf _ b⟩

theorem inQ_pop {c2s : List Nat} {n' : Nat} {r : Resp} {rest : List (Nat × Resp)} {m : Nat}
    (h : InQ c2s ((n', r) :: rest) m) (hne : m ≠ n') : InQ c2s rest m := by
  rcases h with h | h
  · exact Or.inl h
  · right
    simp only [List.map_cons, List.mem_cons] at h
    rcases h with h | h
    · exact absurd h hne
    · exact h

theorem dictGet_has {α : Type} {d : List (Nat × α)} {k : Nat} {v : α} (h : dictGet? d k = some v) : dictHas d k = true :=
  dictHas_of_mem (dictGet_mem h)

theorem asyncResponse_shape {s s1 : St} {n : Nat} {r : Resp} (h : asyncResponse s n r = some s1) :
    (∃ v, dictGet? s.extents n = some v) ∧ s1.info = s.info ∧ s1.c2s = s.c2s ∧ s1.s2c = s.s2c ∧
    s1.threads = s.threads ∧ s1.extents = dictDel s.extents n ∧
    s1.done = (if (dictDel s.extents n).isEmpty then true else s.done) ∧ s1.prefetching = s.prefetching := by
  unfold asyncResponse at h
  cases hg : dictGet? s.extents n with
  | none => simp [hg] at h
  | some v =>
    simp only [hg] at h
    cases r with
    | data d => simp only at h; cases h; exact ⟨⟨v, rfl⟩, rfl, rfl, rfl, rfl, rfl, rfl, rfl⟩
    | eof => simp only at h; cases h; exact ⟨⟨v, rfl⟩, rfl, rfl, rfl, rfl, rfl, rfl, rfl⟩
    | err c => simp only at h; cases h; exact ⟨⟨v, rfl⟩, rfl, rfl, rfl, rfl, rfl, rfl, rfl⟩

/-- after the locked region of `_async_response` for request `n` the queue-level invariant holds again -/
theorem liveQ_asyncResponse {s s1 : St} {n : Nat} {r : Resp} (hl : Live s) (hd : dispNum s.pc = some n)
    (h : asyncResponse s n r = some s1) :
    LiveQ s1.info s1.c2s s1.s2c s1.threads s1.extents s1.done s1.prefetching := by
  obtain ⟨⟨v, hv⟩, h1, h2, h3, h4, h5, h6, h7⟩ := asyncResponse_shape h
  rw [h1, h2, h3, h4, h5, h6, h7]
  unfold Live at hl
  have hhas := dictGet_has hv
  have hf : ∀ m, m ≠ n → InFlight s.c2s s.s2c s.pc m → InQ s.c2s s.s2c m := by
    intro m hm hn
    rcases hn with hn | hn
    · exact hn
    · rw [hd] at hn; simp at hn; exact absurd hn.symm hm
  refine ⟨?_, ?_, hl.c2sB, ?_⟩
  · intro i t ht
    obtain ⟨a, b⟩ := hl.thrs i t ht
    refine ⟨thrLive_transfer a (fun _ x => x) (fun _ _ x => dictHas_dictDel_false x) ?_, b⟩
    intro m _ hm hfl
    refine Or.inl (hf m ?_ hfl)
    intro hc; subst hc; rw [hhas] at hm; cases hm
  · intro e he
    obtain ⟨he1, he2⟩ := mem_dictDel he
    obtain ⟨a, b⟩ := hl.exts e he1
    exact ⟨a, hf _ he2 b⟩
  · refine ⟨hl.doneW.1, fun hdone _ => ?_⟩
    right
    split at hdone
    · cases hdone
    · rename_i hne
      intro hc; rw [hc] at hne; simp at hne

theorem liveF_finish {s : St} {c : RCtx} (hq : LiveQ s.info s.c2s s.s2c s.threads s.extents s.done s.prefetching) :
    Live (finish s c) := by
  unfold Live finish
  exact liveF_of_liveQ hq (Or.inl rfl)

theorem live_raise {s : St} (c : RCtx) (code : Nat)
    (hq : LiveQ s.info s.c2s s.s2c s.threads s.extents s.done s.prefetching) : Live (raiseRead s c code) := by
  unfold Live raiseRead
  exact liveF_of_liveQ hq (Or.inl rfl)

theorem live_afterCheck {s : St} (c : RCtx)
    (hq : LiveQ s.info s.c2s s.s2c s.threads s.extents s.done s.prefetching) : Live (afterCheck s c) := by
  unfold afterCheck
  split
  · exact live_raise (s := { s with saved := none }) c _ hq
  · exact live_advance _ _ hq

def opCapOK : Op → Prop
  | .prefetch _ cap => cap ≠ some 0
  | .readv _ cap => cap ≠ some 0
  | _ => True

theorem live_startPrefetch {s : St} (hl : Live s) (hpc : s.pc = .idle) (ch : List Chunk) (cap : Option Nat)
    (hne : ch ≠ []) (hcap : cap ≠ some 0) : Live (startPrefetch s ch cap) := by
  unfold Live at hl ⊢
  simp only [startPrefetch]
  refine ⟨?_, hl.exts, hl.c2sB, ?_, ?_, hl.syncW, hl.heldW⟩
  · intro i t ht
    by_cases hi : i < s.threads.length
    · rw [List.getElem?_append_left hi] at ht
      exact hl.thrs i t ht
    · rw [List.getElem?_append_right (by omega)] at ht
      have : i - s.threads.length = 0 := by
        rcases Nat.eq_zero_or_pos (i - s.threads.length) with h0 | h0
        · exact h0
        · have hlen := lt_of_get ht
          simp at hlen; omega
      rw [this] at ht
      simp at ht
      subst ht
      exact ⟨trivial, hcap⟩
  · refine ⟨fun _ hc => by simp at hc, fun _ _ => ?_⟩
    left
    refine ⟨⟨.idle ch, cap⟩, by simp, ?_⟩
    intro hc
    simp at hc
    exact hne hc
  · intro c hc; exact absurd (hpc.symm.trans hc) (by simp)

theorem live_rOp {s s' : St} {op : Op} (hl : Live s) (hop : opCapOK op) (h : step s (.rOp op) = some s') : Live s' := by
  simp only [step] at h
  cases hpc : s.pc with
  | idle =>
    simp only [hpc] at h
    have hq : LiveQ s.info s.c2s s.s2c s.threads s.extents s.done s.prefetching :=
      liveQ_of_nodisp hl (by rw [hpc]; rfl)
    cases op with
    | seek off =>
      simp only at h; cases h
      unfold Live at hl ⊢
      rw [hpc] at hl
      exact hl
    | read want =>
      simp only at h; cases h
      exact live_advance _ _ hq
    | readAt off want =>
      simp only at h; cases h
      apply live_advance
      exact hq
    | prefetch fs cap =>
      simp only at h
      split at h
      · cases h; exact hl
      · rename_i hne
        cases h
        exact live_startPrefetch hl hpc _ _ (by intro hc; rw [hc] at hne; simp at hne) hop
    | readv ch cap =>
      simp only at h
      split at h
      · cases h; exact hl
      · rename_i hne
        cases h
        exact live_startPrefetch hl hpc _ _ (by intro hc; rw [hc] at hne; simp at hne) hop
  | _ => simp [hpc] at h


theorem live_rStep {s s' : St} (hl : Live s) (h : step s .rStep = some s') : Live s' := by
  simp only [step] at h
  have hl0 := hl
  unfold Live at hl
  cases hpc : s.pc with
  | idle => simp [hpc] at h
  | cont c =>
    simp only [hpc] at h; cases h
    exact live_advance _ _ (liveQ_of_nodisp hl (by rw [hpc]; rfl))
  | recvPf c =>
    simp only [hpc] at h
    rw [hpc] at hl
    cases hq : s.s2c with
    | nil => simp [hq] at h
    | cons e rest =>
      obtain ⟨num, r⟩ := e
      simp only [hq] at h
      rw [hq] at hl
      have hQ := liveQ_of_nodisp hl rfl
      split at h
      · -- a prefetch answer: dispatch it
        cases h
        unfold Live
        simp only
        have hf : ∀ m, InQ s.c2s ((num, r) :: rest) m → InFlight s.c2s rest (.dispPf c num r) m := by
          intro m hm
          by_cases hmn : m = num
          · right; subst hmn; rfl
          · left; exact inQ_pop hm hmn
        refine ⟨?_, ?_, hl.c2sB, hl.doneW, ?_, ?_, ?_⟩
        · intro i t ht
          obtain ⟨a, b⟩ := hQ.thrs i t ht
          refine ⟨thrLive_transfer a (fun _ x => x) (fun _ _ x => x) ?_, b⟩
          intro m _ _ hm
          rcases hm with hm | hm
          · exact hf m hm
          · simp [dispNum] at hm
        · intro e he
          obtain ⟨a, b⟩ := hQ.exts e he
          exact ⟨a, hf _ b⟩
        · intro c' hc; cases hc
        · intro n hn; simp [syncNum] at hn
        · intro c' n hc; cases hc
      · -- somebody else's answer: dropped
        rename_i hnot
        cases h
        apply live_afterCheck
        simp only
        have hf : ∀ m i, PfOwned s.info m i → InQ s.c2s ((num, r) :: rest) m → InQ s.c2s rest m := by
          intro m i hm hq'
          apply inQ_pop hq'
          intro hc; subst hc
          obtain ⟨o, l, ho⟩ := hm
          exact hnot o l i ho
        refine ⟨?_, ?_, hQ.c2sB, hQ.doneW⟩
        · intro i t ht
          obtain ⟨a, b⟩ := hQ.thrs i t ht
          refine ⟨thrLive_transfer a (fun _ x => x) (fun _ _ x => x) ?_, b⟩
          intro m hm _ hfl
          rcases hfl with hfl | hfl
          · exact Or.inl (hf m i hm hfl)
          · simp [dispNum] at hfl
        · intro e he
          obtain ⟨⟨j, a⟩, b⟩ := hQ.exts e he
          exact ⟨⟨j, a⟩, hf _ j a b⟩
  | dispPf c num r =>
    simp only [hpc] at h
    cases ha : asyncResponse s num r with
    | none => simp [ha] at h
    | some s1 =>
      simp only [ha] at h; cases h
      exact live_afterCheck _ (liveQ_asyncResponse hl0 (by rw [hpc]; rfl) ha)
  | allocSync c =>
    simp only [hpc] at h; cases h
    rw [hpc] at hl
    unfold Live
    simp only
    refine ⟨?_, ?_, ?_, hl.doneW, ?_, ?_, ?_⟩
    · intro i t ht
      obtain ⟨a, b⟩ := hl.thrs i t ht
      refine ⟨thrLive_transfer a (fun _ x => pfOwned_append x _) (fun _ _ x => x) ?_, b⟩
      intro m _ _ hfl
      rcases hfl with hfl | hfl
      · exact Or.inl hfl
      · simp [dispNum] at hfl
    · intro e he
      obtain ⟨⟨j, a⟩, b⟩ := hl.exts e he
      refine ⟨⟨j, pfOwned_append a _⟩, ?_⟩
      rcases b with b | b
      · exact Or.inl b
      · simp [dispNum] at b
    · intro n hn
      have := hl.c2sB n hn
      simp only [List.length_append, List.length_singleton]; omega
    · intro c' hc; cases hc
    · intro n hn; simp [syncNum] at hn
    · intro c' n hc
      cases hc
      exact ⟨s.realpos, c.size, by simp⟩
  | sendSync c num =>
    simp only [hpc] at h; cases h
    rw [hpc] at hl
    unfold Live
    simp only
    have hown := hl.heldW c num rfl
    have hq : ∀ n, InQ s.c2s s.s2c n → InQ (s.c2s ++ [num]) s.s2c n := by
      intro n hn
      rcases hn with hn | hn
      · left; exact List.mem_append_left _ hn
      · right; exact hn
    refine ⟨?_, ?_, ?_, hl.doneW, ?_, ?_, ?_⟩
    · intro i t ht
      obtain ⟨a, b⟩ := hl.thrs i t ht
      refine ⟨thrLive_transfer a (fun _ x => x) (fun _ _ x => x) ?_, b⟩
      intro m _ _ hfl
      rcases hfl with hfl | hfl
      · exact Or.inl (hq m hfl)
      · simp [dispNum] at hfl
    · intro e he
      obtain ⟨a, b⟩ := hl.exts e he
      refine ⟨a, ?_⟩
      rcases b with b | b
      · exact Or.inl (hq _ b)
      · simp [dispNum] at b
    · intro n hn
      rcases List.mem_append.mp hn with h1 | h1
      · exact hl.c2sB n h1
      · simp at h1; subst h1
        obtain ⟨o, l, ho⟩ := hown
        exact lt_of_get ho
    · intro c' hc; cases hc
    · intro n hn
      simp [syncNum] at hn
      subst hn
      exact ⟨hown, Or.inl (by simp)⟩
    · intro c' n hc; cases hc
  | recvSync c num =>
    simp only [hpc] at h
    rw [hpc] at hl
    obtain ⟨hown, hinq⟩ := hl.syncW num rfl
    cases hq : s.s2c with
    | nil => simp [hq] at h
    | cons e rest =>
      obtain ⟨n', r⟩ := e
      simp only [hq] at h
      rw [hq] at hl hinq
      have hQ := liveQ_of_nodisp hl rfl
      -- popping a response that no prefetch bookkeeping depends on
      have hdrop : (∀ m i, PfOwned s.info m i → m ≠ n') →
          LiveQ s.info s.c2s rest s.threads s.extents s.done s.prefetching := by
        intro hne
        refine ⟨?_, ?_, hQ.c2sB, hQ.doneW⟩
        · intro i t ht
          obtain ⟨a, b⟩ := hQ.thrs i t ht
          refine ⟨thrLive_transfer a (fun _ x => x) (fun _ _ x => x) ?_, b⟩
          intro m hm _ hfl
          rcases hfl with hfl | hfl
          · exact Or.inl (inQ_pop hfl (hne m i hm))
          · simp [dispNum] at hfl
        · intro e he
          obtain ⟨⟨j, a⟩, b⟩ := hQ.exts e he
          exact ⟨⟨j, a⟩, inQ_pop b (hne _ j a)⟩
      by_cases hn : n' = num
      · simp only [hn, if_true] at h
        have hne : ∀ m i, PfOwned s.info m i → m ≠ n' := by
          intro m i hm hc
          rw [hc, hn] at hm
          exact pf_not_sync hm hown
        cases r with
        | data d =>
          simp only at h
          split at h
          · cases h; exact liveF_finish (hdrop hne)
          · cases h; exact live_advance _ _ (hdrop hne)
        | eof =>
          simp only at h; cases h
          exact liveF_finish (hdrop hne)
        | err code =>
          simp only at h; cases h
          exact live_raise _ _ (hdrop hne)
      · simp only [hn, if_false] at h
        have hnum : InQ s.c2s rest num := inQ_pop hinq (fun hc => hn hc.symm)
        split at h
        · cases h
          unfold Live
          simp only
          have hf : ∀ m, InQ s.c2s ((n', r) :: rest) m → InFlight s.c2s rest (.dispSync c num n' r) m := by
            intro m hm
            by_cases hmn : m = n'
            · right; subst hmn; rfl
            · left; exact inQ_pop hm hmn
          refine ⟨?_, ?_, hl.c2sB, hl.doneW, ?_, ?_, ?_⟩
          · intro i t ht
            obtain ⟨a, b⟩ := hQ.thrs i t ht
            refine ⟨thrLive_transfer a (fun _ x => x) (fun _ _ x => x) ?_, b⟩
            intro m _ _ hm
            rcases hm with hm | hm
            · exact hf m hm
            · simp [dispNum] at hm
          · intro e he
            obtain ⟨a, b⟩ := hQ.exts e he
            exact ⟨a, hf _ b⟩
          · intro c' hc; cases hc
          · intro n hn'
            simp [syncNum] at hn'
            subst hn'
            exact ⟨hown, hnum⟩
          · intro c' n hc; cases hc
        · rename_i hnot
          cases h
          have hne : ∀ m i, PfOwned s.info m i → m ≠ n' := by
            intro m i hm hc
            subst hc
            obtain ⟨o, l, ho⟩ := hm
            exact hnot o l i ho
          unfold Live
          simp only
          have hq' := hdrop hne
          refine ⟨?_, ?_, hq'.c2sB, hq'.doneW, ?_, ?_, ?_⟩
          · intro i t ht
            obtain ⟨a, b⟩ := hq'.thrs i t ht
            exact ⟨thrLive_pc a (by intro n hn'; simp [dispNum] at hn'), b⟩
          · intro e he
            obtain ⟨a, b⟩ := hq'.exts e he
            exact ⟨a, Or.inl b⟩
          · intro c' hc; cases hc
          · intro n hn'
            simp [syncNum] at hn'
            subst hn'
            exact ⟨hown, hnum⟩
          · intro c' n hc; cases hc
  | dispSync c num n' r =>
    simp only [hpc] at h
    rw [hpc] at hl
    obtain ⟨hown, hinq⟩ := hl.syncW num rfl
    cases ha : asyncResponse s n' r with
    | none => simp [ha] at h
    | some s1 =>
      simp only [ha] at h; cases h
      have hq' := liveQ_asyncResponse hl0 (by rw [hpc]; rfl) ha
      obtain ⟨_, h1, h2, h3, _, _, _, _⟩ := asyncResponse_shape ha
      unfold Live
      simp only
      refine ⟨?_, ?_, hq'.c2sB, hq'.doneW, ?_, ?_, ?_⟩
      · intro i t ht
        obtain ⟨a, b⟩ := hq'.thrs i t ht
        exact ⟨thrLive_pc a (by intro n hn'; simp [dispNum] at hn'), b⟩
      · intro e he
        obtain ⟨a, b⟩ := hq'.exts e he
        exact ⟨a, Or.inl b⟩
      · intro c' hc; cases hc
      · intro n hn'
        simp [syncNum] at hn'
        subst hn'
        rw [h1, h2, h3]
        exact ⟨hown, hinq⟩
      · intro c' n hc; cases hc


/-! ## `Live` along every schedule -/

def actOK : Act → Prop
  | .rOp op => opCapOK op
  | _ => True

theorem step_live {s s' : St} {a : Act} (hl : Live s) (ha : actOK a) (h : step s a = some s') : Live s' := by
  cases a with
  | serve k => exact live_serve hl h
  | serveFail k => exact live_serveFail hl h
  | tCheck i => exact live_tCheck hl h
  | tAlloc i => exact live_tAlloc hl h
  | tSend i => exact live_tSend hl h
  | tReg i => exact live_tReg hl h
  | rOp op => exact live_rOp hl ha h
  | rStep => exact live_rStep hl h

theorem run_live {s : St} (hl : Live s) (as : List Act) (ha : ∀ a ∈ as, actOK a) : Live (run s as) := by
  induction as generalizing s with
  | nil => exact hl
  | cons a as ih =>
    simp only [run]
    apply ih _ (fun b hb => ha b (List.mem_cons_of_mem _ hb))
    cases hs : step s a with
    | none => simpa using hl
    | some s' => simpa using step_live hl (ha a (List.mem_cons_self ..)) hs

theorem init_live (file : Bytes) (maxReq : Nat) (bufsize : Nat := 0) : Live (init file maxReq bufsize) := by
  unfold Live init
  refine ⟨?_, ?_, ?_, ?_, ?_, ?_, ?_⟩ <;> simp [syncNum]

/-! ## a reader that waits for a response is never stuck -/

def WaitsForResponse (s : St) : Prop :=
  s.s2c = [] ∧ ((∃ c, s.pc = .recvPf c) ∨ (∃ c n, s.pc = .recvSync c n))

def nonReader : Act → Prop
  | .rOp _ => False
  | .rStep => False
  | _ => True

theorem serve_enabled {s : St} {n : Nat} (hl : Live s) (hn : n ∈ s.c2s) : (step s (.serve 1)).isSome = true := by
  unfold Live at hl
  simp only [step]
  cases hc : s.c2s with
  | nil => rw [hc] at hn; cases hn
  | cons n0 rest =>
    simp only
    have hlt := hl.c2sB n0 (by rw [hc]; simp)
    rw [List.getElem?_eq_getElem hlt]
    rfl

theorem waiting_not_stuck {s : St} (hl : Live s) (hw : WaitsForResponse s) :
    ∃ a, nonReader a ∧ (step s a).isSome = true := by
  obtain ⟨hq, hpc⟩ := hw
  have hl0 := hl
  unfold Live at hl
  have hext : s.extents ≠ [] → ∃ a, nonReader a ∧ (step s a).isSome = true := by
    intro hne
    cases hx : s.extents with
    | nil => exact absurd hx hne
    | cons e rest =>
      obtain ⟨_, hfl⟩ := hl.exts e (by rw [hx]; simp)
      rcases hfl with (hfl | hfl) | hfl
      · exact ⟨.serve 1, trivial, serve_enabled hl0 hfl⟩
      · rw [hq] at hfl; cases hfl
      · rcases hpc with ⟨c, hc⟩ | ⟨c, n, hc⟩ <;> (rw [hc] at hfl; simp [dispNum] at hfl)
  rcases hpc with ⟨c, hc⟩ | ⟨c, n, hc⟩
  · obtain ⟨hd, hpf⟩ := hl.recvW c hc
    rcases hl.doneW.2 hd (hl.doneW.1 hpf) with ⟨t, ht, hne⟩ | hne
    · obtain ⟨i, hi⟩ := List.mem_iff_getElem?.mp ht
      obtain ⟨hthr, hcap⟩ := hl.thrs i t hi
      obtain ⟨st, cap⟩ := t
      simp only at hne hthr hcap
      cases st with
      | idle cs =>
        cases cs with
        | nil => exact absurd rfl hne
        | cons c0 rest =>
          by_cases hp : capPass cap s.extents.length = true
          · exact ⟨.tCheck i, trivial, by simp [step, hi, hp]⟩
          · apply hext
            intro hnil
            apply hp
            unfold capPass
            cases cap with
            | none => rfl
            | some m =>
              simp only [hnil, List.length_nil, decide_eq_true_eq]
              rcases Nat.eq_zero_or_pos m with h0 | h0
              · subst h0; exact absurd rfl hcap
              · exact h0
      | checked cs =>
        cases cs with
        | nil => exact absurd rfl hthr
        | cons c0 rest => exact ⟨.tAlloc i, trivial, by simp [step, hi]⟩
      | allocd n o l r => exact ⟨.tSend i, trivial, by simp [step, hi]⟩
      | sent n o l r => exact ⟨.tReg i, trivial, by simp [step, hi]⟩
    · exact hext hne
  · obtain ⟨_, hin⟩ := hl.syncW n (by rw [hc]; rfl)
    rcases hin with hin | hin
    · exact ⟨.serve 1, trivial, serve_enabled hl0 hin⟩
    · rw [hq] at hin; cases hin

/-! ## progress measure of the non-reader tasks -/

def tMu : TSt → Nat
  | .idle cs => 7 * cs.length
  | .checked cs => 7 * cs.length - 1
  | .allocd _ _ _ rest => 7 * rest.length + 5
  | .sent _ _ _ rest => 7 * rest.length + 2

def mu (s : St) : Nat := (s.threads.map (fun t => tMu t.st)).sum + 2 * s.c2s.length + s.s2c.length

theorem sum_set {l : List Thread} {i : Nat} {old new : Thread} (f : Thread → Nat) (h : l[i]? = some old) :
    ((l.set i new).map f).sum + f old = (l.map f).sum + f new := by
  induction l generalizing i with
  | nil => cases h
  | cons x xs ih =>
    cases i with
    | zero =>
      simp at h
      subst h
      simp only [List.set_cons_zero, List.map_cons, List.sum_cons]
      omega
    | succ i =>
      simp only [List.getElem?_cons_succ] at h
      have := ih h
      simp only [List.set_cons_succ, List.map_cons, List.sum_cons]
      omega

theorem nonReader_step_decreases {s s' : St} {a : Act} (hn : nonReader a) (h : step s a = some s') : mu s' < mu s := by
  cases a with
  | rOp op => cases hn
  | rStep => cases hn
  | serve k =>
    simp only [step] at h
    split at h
    · cases h
    · rename_i num rest hc
      split at h
      · cases h
      · cases h
        simp only [mu, hc, List.length_cons, List.length_append, List.length_nil]
        omega
  | serveFail k =>
    simp only [step] at h
    split at h
    · cases h
    · rename_i num rest hc
      split at h
      · cases h
      · cases h
        simp only [mu, hc, List.length_cons, List.length_append, List.length_nil]
        omega
  | tCheck i =>
    simp only [step] at h
    split at h
    · rename_i c rest cap hth
      split at h
      · cases h
        have := sum_set (new := ⟨.checked (c :: rest), cap⟩) (fun t => tMu t.st) hth
        simp only [mu, setThread, tMu, List.length_cons] at this ⊢
        omega
      · cases h
    · cases h
  | tAlloc i =>
    simp only [step] at h
    split at h
    · rename_i c rest cap hth
      cases h
      have := sum_set (new := ⟨.allocd s.info.length c.1 c.2 rest, cap⟩) (fun t => tMu t.st) hth
      simp only [mu, setThread, tMu, List.length_cons] at this ⊢
      omega
    · cases h
  | tSend i =>
    simp only [step] at h
    split at h
    · rename_i num off len rest cap hth
      cases h
      have := sum_set (new := ⟨.sent num off len rest, cap⟩) (fun t => tMu t.st) hth
      simp only [mu, setThread, tMu, List.length_append, List.length_singleton] at this ⊢
      omega
    · cases h
  | tReg i =>
    simp only [step] at h
    split at h
    · rename_i num off len rest cap hth
      cases h
      have := sum_set (new := ⟨.idle rest, cap⟩) (fun t => tMu t.st) hth
      simp only [mu, setThread, tMu] at this ⊢
      omega
    · cases h

/-- every action must be enabled when it is taken -/
def runStrict (s : St) : List Act → Option St
  | [] => some s
  | a :: as => match step s a with
    | none => none
    | some s' => runStrict s' as

theorem nonReader_run_bounded {s s' : St} {as : List Act} (hn : ∀ a ∈ as, nonReader a)
    (h : runStrict s as = some s') : as.length + mu s' ≤ mu s := by
  induction as generalizing s with
  | nil => simp [runStrict] at h; subst h; simp
  | cons a as ih =>
    simp only [runStrict] at h
    cases hs : step s a with
    | none => simp [hs] at h
    | some s1 =>
      simp only [hs] at h
      have h1 := nonReader_step_decreases (hn a (List.mem_cons_self ..)) hs
      have h2 := ih (fun b hb => hn b (List.mem_cons_of_mem _ hb)) h
      simp only [List.length_cons]
      omega


theorem nonReader_actOK {a : Act} (h : nonReader a) : actOK a := by
  cases a <;> first | trivial | cases h

theorem runStrict_live {s s' : St} {as : List Act} (hl : Live s) (ha : ∀ a ∈ as, actOK a)
    (h : runStrict s as = some s') : Live s' := by
  induction as generalizing s with
  | nil => simp [runStrict] at h; subst h; exact hl
  | cons a as ih =>
    simp only [runStrict] at h
    cases hs : step s a with
    | none => simp [hs] at h
    | some s1 =>
      simp only [hs] at h
      exact ih (step_live hl (ha a (List.mem_cons_self ..)) hs) (fun b hb => ha b (List.mem_cons_of_mem _ hb)) h

end PV.Prefetch
