/-
  PV.Model.PacketLemmas — helper lemmas about the packet model: padding arithmetic, structure of
  `buildPacket`, laws of the abstract primitives (with the toy instance), `runBuf` stepping.
-/
import PV.Model.Packet
namespace PV.Packet
open PV

/-! ## padding arithmetic -/

theorem padLen_ge (b a l : Nat) (hb : 0 < b) : 4 ≤ padLen b a l := by
  unfold padLen
  have := Nat.mod_lt (l + a) hb
  omega

theorem padLen_le (b a l : Nat) : padLen b a l ≤ b + 3 := by
  unfold padLen; omega

/-- `l + addlen + padding = 3 + b·(q+1)`: everything counted by `addlen` plus payload and padding, minus
the 3 bytes that `addlen` over-counts, is a whole number of blocks -/
theorem padLen_sum (b a l : Nat) (hb : 0 < b) :
    l + a + padLen b a l = 3 + b * ((l + a) / b + 1) := by
  unfold padLen
  have h := Nat.mod_lt (l + a) hb
  have hd := Nat.div_add_mod (l + a) b
  rw [Nat.mul_add, Nat.mul_one]
  omega

theorem classic_total_mod (b l : Nat) (hb : 0 < b) : (4 + (l + padLen b 8 l + 1)) % b = 0 := by
  have h := padLen_sum b 8 l hb
  have : 4 + (l + padLen b 8 l + 1) = b * ((l + 8) / b + 1) := by omega
  rw [this]; exact Nat.mul_mod_right _ _

theorem etm_body_mod (b l : Nat) (hb : 0 < b) : (l + padLen b 4 l + 1) % b = 0 := by
  have h := padLen_sum b 4 l hb
  have : l + padLen b 4 l + 1 = b * ((l + 4) / b + 1) := by omega
  rw [this]; exact Nat.mul_mod_right _ _

/-! ## structure of `buildPacket` -/

theorem be32_length (n : Nat) : (be32 n).length = 4 := by simp [be32]

structure Built (b a : Nat) (payload P : Bytes) : Prop where
  pad_ge : 4 ≤ padLen b a payload.length
  pad_le : padLen b a payload.length ≤ 255
  psize_lt : payload.length + padLen b a payload.length + 1 < 4294967296
  shape : ∃ padding, padding.length = padLen b a payload.length ∧
    P = be32 (payload.length + padLen b a payload.length + 1) ++
        [UInt8.ofNat (padLen b a payload.length)] ++ payload ++ padding
  len : P.length = 4 + (payload.length + padLen b a payload.length + 1)

theorem buildPacket_ok {b a : Nat} {z : Bool} {payload rnd P : Bytes}
    (h : buildPacket b a z payload rnd = .ok P) : 0 < b ∧ Built b a payload P := by
  unfold buildPacket at h
  by_cases hb : b = 0
  · simp [hb] at h
  · simp only [hb, if_false] at h
    by_cases hc : payload.length + padLen b a payload.length + 1 ≥ 4294967296 ∨ padLen b a payload.length > 255
    · rw [if_pos hc] at h; cases h
    · rw [if_neg hc] at h
      have hP : P = _ := (Except.ok.inj h).symm
      have hb' : 0 < b := Nat.pos_of_ne_zero hb
      refine ⟨hb', padLen_ge b a _ hb', by omega, by omega, ?_, ?_⟩
      · refine ⟨if z then zeros (padLen b a payload.length) else fitPad rnd (padLen b a payload.length), ?_, hP⟩
        split <;> simp [zeros]
      · rw [hP]
        simp only [List.length_append, be32_length, List.length_singleton]
        split <;> simp [zeros] <;> omega

theorem buildPacket_total (b a : Nat) (z : Bool) (payload rnd : Bytes) (hb8 : 8 ≤ b) (hb : b ≤ 252)
    (hl : payload.length + 300 < 4294967296) : ∃ P, buildPacket b a z payload rnd = .ok P := by
  unfold buildPacket
  have h1 := padLen_le b a payload.length
  have hb0 : ¬ b = 0 := by omega
  simp only [hb0, if_false]
  have hc : ¬ (payload.length + padLen b a payload.length + 1 ≥ 4294967296 ∨ padLen b a payload.length > 255) := by
    omega
  simp only [hc, if_false]
  exact ⟨_, rfl⟩

/-! ## laws of the abstract primitives -/

/-- `blk st` = block size of the cipher context `st`; `Paired se sd` = an encryptor and a decryptor of the
same cipher in corresponding states (same key, same IV/counter/chaining value) -/
structure CipherLaws (p : Prims) (blk : p.CSt → Nat) (Paired : p.CSt → p.CSt → Prop) : Prop where
  blk_enc : ∀ s x, blk (p.enc s x).1 = blk s
  enc_len : ∀ s x, x.length % blk s = 0 → (p.enc s x).2.length = x.length
  enc_app : ∀ s a b, a.length % blk s = 0 →
    p.enc s (a ++ b) = ((p.enc (p.enc s a).1 b).1, (p.enc s a).2 ++ (p.enc (p.enc s a).1 b).2)
  paired_blk : ∀ se sd, Paired se sd → blk sd = blk se
  dec_enc : ∀ se sd x, Paired se sd → x.length % blk se = 0 →
    (p.dec sd (p.enc se x).2).2 = x ∧ Paired (p.enc se x).1 (p.dec sd (p.enc se x).2).1

/-- ciphers are bijections on aligned data (used by C02 only) -/
structure CipherBij (p : Prims) (blk : p.CSt → Nat) (Paired : p.CSt → p.CSt → Prop) : Prop where
  dec_len : ∀ s x, x.length % blk s = 0 → (p.dec s x).2.length = x.length
  enc_dec : ∀ se sd c, Paired se sd → c.length % blk se = 0 → (p.enc se (p.dec sd c).2).2 = c

structure AeadLaws (p : Prims) (tagLen : Nat) : Prop where
  aenc_len : ∀ k iv pt aad, (p.aenc k iv pt aad).length = pt.length + tagLen
  adec_aenc : ∀ k iv pt aad, p.adec k iv (p.aenc k iv pt aad) aad = some pt

/-- the digest is at least as long as the transmitted MAC -/
def MacOk (p : Prims) (mk : p.MKey) (n : Nat) : Prop := ∀ m, n ≤ (p.mac mk m).length

structure CompLaws (p : Prims) (ZPaired : p.ZSt → p.ZSt → Prop) : Prop where
  decomp_comp : ∀ zc zd x, ZPaired zc zd →
    ∃ zd', p.decomp zd (p.comp zc x).2 = some (zd', x) ∧ ZPaired (p.comp zc x).1 zd'

/-! ## the toy primitives satisfy the laws -/

theorem toyXorFrom_length (k j : Nat) (x : Bytes) : (toyXorFrom k j x).length = x.length := by
  induction x generalizing j with
  | nil => rfl
  | cons a t ih => simp [toyXorFrom, ih]

theorem toyXorFrom_append (k j : Nat) (a b : Bytes) :
    toyXorFrom k j (a ++ b) = toyXorFrom k j a ++ toyXorFrom k (j + a.length) b := by
  induction a generalizing j with
  | nil => simp [toyXorFrom]
  | cons x t ih =>
    simp only [List.cons_append, toyXorFrom, ih, List.length_cons]
    rw [show j + 1 + t.length = j + (t.length + 1) by omega]

theorem toyXorFrom_invol (k j : Nat) (x : Bytes) : toyXorFrom k j (toyXorFrom k j x) = x := by
  induction x generalizing j with
  | nil => rfl
  | cons a t ih =>
    simp only [toyXorFrom, ih]
    rw [UInt8.xor_assoc, UInt8.xor_self, UInt8.xor_zero]

def toyPaired (se sd : toyPrims.CSt) : Prop := se = sd

theorem toyCipherLaws (blk : toyPrims.CSt → Nat) (hblk : ∀ s x, blk (toyPrims.enc s x).1 = blk s) :
    CipherLaws toyPrims blk toyPaired where
  blk_enc := hblk
  enc_len := fun s x _ => toyXorFrom_length _ _ _
  enc_app := by
    intro s a b _
    show ((s.1, s.2 + (a ++ b).length), toyXorFrom s.1 s.2 (a ++ b)) = _
    simp only [toyPrims, toyXorFrom_append, List.length_append, Nat.add_assoc]
  paired_blk := by intro se sd h; rw [h]
  dec_enc := by
    intro se sd x h _
    cases h
    refine ⟨toyXorFrom_invol _ _ _, ?_⟩
    show (se.1, se.2 + x.length) = (se.1, se.2 + (toyXorFrom se.1 se.2 x).length)
    rw [toyXorFrom_length]

theorem toyCipherBij (blk : toyPrims.CSt → Nat) : CipherBij toyPrims blk toyPaired where
  dec_len := fun s x _ => toyXorFrom_length _ _ _
  enc_dec := by
    intro se sd c h _
    cases h
    exact toyXorFrom_invol _ _ _

theorem toyHashK_length (k m : Bytes) : (toyHashK k m).length = 64 := by simp [toyHashK]

theorem toyMac_length (k m : Bytes) : (toyMac k m).length = 64 := by
  unfold toyMac; exact toyHashK_length _ _

theorem toyMacOk (mk : Bytes) (n : Nat) (h : n ≤ 64) : MacOk toyPrims mk n := by
  intro m
  have := toyMac_length mk m
  show n ≤ (toyMac mk m).length
  omega

theorem toySeal_length (k : Nat) (iv pt aad : Bytes) : (toySeal k iv pt aad).length = pt.length + 16 := by
  simp [toySeal, toyXorFrom_length, toyHashK_length]

theorem toyUnseal_seal (k : Nat) (iv pt aad : Bytes) : toyUnseal k iv (toySeal k iv pt aad) aad = some pt := by
  unfold toyUnseal
  rw [toySeal_length]
  have h1 : ¬ pt.length + 16 < 16 := by omega
  simp only [h1, if_false, Nat.add_sub_cancel]
  unfold toySeal
  simp only
  generalize hct : toyXorFrom k (beVal (iv.drop 4) % 65536) pt = ct
  have hx : ct.length = pt.length := by rw [← hct]; exact toyXorFrom_length _ _ _
  rw [List.take_left' hx, List.drop_left' hx]
  simp only [if_true]
  rw [← hct, toyXorFrom_invol]

theorem toyAeadLaws : AeadLaws toyPrims 16 where
  aenc_len := toySeal_length
  adec_aenc := toyUnseal_seal

theorem toyDecomp_comp (z : Nat) (x : Bytes) : toyDecomp z (toyComp z x).2 = some ((toyComp z x).1, x) := by
  simp only [toyComp, toyDecomp, if_true, List.length_map, List.map_map]
  congr 2
  conv => rhs; rw [← List.map_id x]
  apply List.map_congr_left
  intro a _
  simp [UInt8.add_sub_cancel]

theorem toyCompLaws : CompLaws toyPrims (fun a b => a = b) where
  decomp_comp := by
    intro zc zd x h
    cases h
    exact ⟨(toyComp zc x).1, toyDecomp_comp zc x, rfl⟩

/-! ## inversion of `sendMessage` -/

theorem sendMessage_ok {p : Prims} {s : Sender p} {data rnd : Bytes} {o : SendOut p}
    (h : sendMessage s data rnd = .ok o) :
    data ≠ [] ∧ ¬ (nextSeq s.seq = 0 ∧ ¬ s.kexDone) ∧
    ∃ P c a, buildPacket s.block s.ciph.addlen (zeroPadCond s.sdctr s.ciph.isPlain) (compOut s.comp data).2 rnd = .ok P ∧
      encrypt s P = .ok (c, o.wire, a) ∧ o.auth = a ∧
      o.st = { s with ciph := c, comp := (compOut s.comp data).1, seq := nextSeq s.seq } := by
  unfold sendMessage at h
  by_cases he : data.isEmpty
  · rw [if_pos he] at h; cases h
  · rw [if_neg he] at h
    simp only at h
    cases hb : buildPacket s.block s.ciph.addlen (zeroPadCond s.sdctr s.ciph.isPlain) (compOut s.comp data).2 rnd with
    | error e => rw [hb] at h; cases h
    | ok P =>
      rw [hb] at h
      simp only at h
      cases hen : encrypt s P with
      | error e => rw [hen] at h; cases h
      | ok t =>
        obtain ⟨c, out, a⟩ := t
        rw [hen] at h
        simp only at h
        by_cases hr : nextSeq s.seq = 0 ∧ ¬ s.kexDone
        · rw [if_pos hr] at h; cases h
        · rw [if_neg hr] at h
          have ho := (Except.ok.inj h).symm
          refine ⟨?_, hr, P, c, a, rfl, ?_, ?_, ?_⟩
          · intro hd; apply he; simp [hd]
          · rw [ho]; exact hen
          · rw [ho]
          · rw [ho]

end PV.Packet
