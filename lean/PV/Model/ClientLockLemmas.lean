import PV.Model.ClientLock
namespace PV.ClientLock

structure CfgOK (cfg : Cfg) : Prop where
  ta_pos : 0 < cfg.ta
  ta_le : cfg.ta ≤ cfg.capReq
  tb_pos : 0 < cfg.tb
  tb_le : cfg.tb ≤ cfg.capAns

structure WF (cfg : Cfg) (s : St) : Prop where
  req : s.creditReq + s.bufReq + s.heldReq = cfg.capReq
  reqH : s.heldReq < cfg.ta
  ans : s.creditAns + s.bufAns + s.heldAns = cfg.capAns
  ansH : s.heldAns < cfg.tb
  lockS : s.lock = some .sender ↔ s.spc = .locked
  lockR : s.lock = some .reader ↔ s.rpc = .locked
  rem : s.spc ≠ .idle → 0 < s.remaining

theorem init_wf {cfg : Cfg} (hc : CfgOK cfg) (n : Nat) : WF cfg (init cfg n) := by
  refine ⟨by simp [init], hc.ta_pos, by simp [init], hc.tb_pos, by simp [init], by simp [init], by simp [init]⟩

theorem step_wf {cfg : Cfg} (hns : cfg.sendUnderLock = false) {s s' : St} {a : Act} (hw : WF cfg s)
    (h : step cfg s a = some s') : WF cfg s' := by
  obtain ⟨r1, r2, a1, a2, l1, l2, rm⟩ := hw
  cases a with
  | sAcquire =>
    simp only [step] at h
    split at h
    · rename_i hc
      cases h
      obtain ⟨h1, h2, h3⟩ := hc
      refine ⟨r1, r2, a1, a2, by simp, ?_, fun _ => h2⟩
      constructor
      · intro hh; cases hh
      · intro hh
        have := l2.mpr hh
        rw [h3] at this; cases this
    · cases h
  | sRelease =>
    simp only [step] at h
    split at h
    · rename_i hc
      cases h
      refine ⟨r1, r2, a1, a2, by simp, ?_, fun _ => rm (by rw [hc.2]; simp)⟩
      constructor
      · intro hh; cases hh
      · intro hh
        have h1 := l2.mpr hh
        have h2 := l1.mpr hc.2
        rw [h1] at h2; cases h2
    · cases h
  | sSend =>
    simp only [step, hns, Bool.false_eq_true, if_false] at h
    split at h
    · rename_i hc
      cases h
      have hsp : s.spc = .sending := hc.1
      refine ⟨by simp only; omega, r2, a1, a2, ?_, l2, by simp⟩
      constructor
      · intro hh
        have := l1.mp hh
        rw [hsp] at this; cases this
      · intro hh; cases hh
    · cases h
  | srvTake =>
    simp only [step] at h
    split at h
    · rename_i hc
      split at h
      · cases h
        exact ⟨by simp only; omega, by simp only; omega, a1, a2, l1, l2, rm⟩
      · rename_i hlt
        cases h
        exact ⟨by simp only; omega, by simp only; omega, a1, a2, l1, l2, rm⟩
    · cases h
  | srvSend =>
    simp only [step] at h
    split at h
    · cases h
      exact ⟨r1, r2, by simp only; omega, a2, l1, l2, rm⟩
    · cases h
  | rRecv =>
    simp only [step] at h
    split at h
    · rename_i hc
      have hnl : ¬ (s.lock = some .reader) := by
        intro hh
        have := l2.mp hh
        rw [hc.1] at this; cases this
      split at h
      · cases h
        refine ⟨r1, r2, by simp only; omega, by simp only; omega, l1, ?_, rm⟩
        constructor
        · intro hh; exact absurd hh hnl
        · intro hh; cases hh
      · cases h
        refine ⟨r1, r2, by simp only; omega, by simp only; omega, l1, ?_, rm⟩
        constructor
        · intro hh; exact absurd hh hnl
        · intro hh; cases hh
    · cases h
  | rAcquire =>
    simp only [step] at h
    split at h
    · rename_i hc
      cases h
      refine ⟨r1, r2, a1, a2, ?_, by simp, rm⟩
      constructor
      · intro hh; cases hh
      · intro hh
        have := l1.mpr hh
        rw [hc.2] at this; cases this
    · cases h
  | rRelease =>
    simp only [step] at h
    split at h
    · rename_i hc
      cases h
      refine ⟨r1, r2, a1, a2, ?_, by simp, rm⟩
      constructor
      · intro hh; cases hh
      · intro hh
        have h1 := l1.mpr hh
        have h2 := l2.mpr hc
        rw [h1] at h2; cases h2
    · cases h

theorem run_wf {cfg : Cfg} (hns : cfg.sendUnderLock = false) {s : St} (hw : WF cfg s) (as : List Act) :
    WF cfg (run cfg s as) := by
  induction as generalizing s with
  | nil => exact hw
  | cons a as ih =>
    simp only [run]
    cases hs : step cfg s a with
    | none => simpa using ih hw
    | some s' => simpa using ih (step_wf hns hw hs)

/-- with the packet sent outside the lock, some party can always move until everything is done -/
theorem not_done_enabled {cfg : Cfg} (hc : CfgOK cfg) (hns : cfg.sendUnderLock = false) {s : St} (hw : WF cfg s)
    (hnd : ¬ Done s) : ∃ a, (step cfg s a).isSome = true := by
  obtain ⟨r1, r2, a1, a2, l1, l2, rm⟩ := hw
  by_cases hr : s.rpc = .locked
  · exact ⟨.rRelease, by simp [step, hr]⟩
  by_cases hs : s.spc = .locked
  · exact ⟨.sRelease, by simp [step, hs, hns]⟩
  have hlock : s.lock = none := by
    cases hl : s.lock with
    | none => rfl
    | some w =>
      cases w with
      | sender => exact absurd (l1.mp hl) hs
      | reader => exact absurd (l2.mp hl) hr
  by_cases hrn : s.rpc = .needLock
  · exact ⟨.rAcquire, by simp [step, hrn, hlock]⟩
  have hri : s.rpc = .idle := by
    cases h : s.rpc with
    | idle => rfl
    | needLock => exact absurd h hrn
    | locked => exact absurd h hr
  by_cases hba : 0 < s.bufAns
  · refine ⟨.rRecv, ?_⟩
    simp only [step, hri, hba, and_self, if_true]
    split <;> rfl
  by_cases hh : s.srvHolding = true
  · have : 0 < s.creditAns := by have := hc.tb_le; omega
    exact ⟨.srvSend, by simp [step, hh, this]⟩
  have hh' : s.srvHolding = false := by simpa using hh
  by_cases hbr : 0 < s.bufReq
  · refine ⟨.srvTake, ?_⟩
    simp only [step, hh', hbr, and_self, if_true]
    split <;> rfl
  cases hsp : s.spc with
  | locked => exact absurd hsp hs
  | sending =>
    have : 0 < s.creditReq := by have := hc.ta_le; omega
    exact ⟨.sSend, by simp [step, hns, hsp, this]⟩
  | idle =>
    by_cases hrem : 0 < s.remaining
    · exact ⟨.sAcquire, by simp [step, hsp, hrem, hlock]⟩
    · exfalso
      apply hnd
      exact ⟨by omega, hsp, by omega, hh', by omega, hri⟩

/-- work still to do -/
def mu (s : St) : Nat :=
  8 * s.remaining - (match s.spc with | .idle => 0 | .locked => 1 | .sending => 2) + 5 * s.bufReq +
    (if s.srvHolding then 4 else 0) + 3 * s.bufAns + (match s.rpc with | .idle => 0 | .needLock => 2 | .locked => 1)

theorem step_decreases {cfg : Cfg} (hns : cfg.sendUnderLock = false) {s s' : St} {a : Act} (hw : WF cfg s)
    (h : step cfg s a = some s') : mu s' < mu s := by
  have hrem := hw.rem
  cases a with
  | sAcquire =>
    simp only [step] at h
    split at h
    · rename_i hc; cases h; simp only [mu, hc.1]; omega
    · cases h
  | sRelease =>
    simp only [step] at h
    split at h
    · rename_i hc
      cases h
      have := hrem (by rw [hc.2]; simp)
      simp only [mu, hc.2]; omega
    · cases h
  | sSend =>
    simp only [step, hns, Bool.false_eq_true, if_false] at h
    split at h
    · rename_i hc
      cases h
      have := hrem (by rw [hc.1]; simp)
      simp only [mu, hc.1]; omega
    · cases h
  | srvTake =>
    simp only [step] at h
    split at h
    · rename_i hc
      split at h <;> (cases h; simp only [mu, hc.1]; simp; omega)
    · cases h
  | srvSend =>
    simp only [step] at h
    split at h
    · rename_i hc; cases h; simp only [mu, hc.1]; simp; omega
    · cases h
  | rRecv =>
    simp only [step] at h
    split at h
    · rename_i hc
      split at h <;> (cases h; simp only [mu, hc.1]; omega)
    · cases h
  | rAcquire =>
    simp only [step] at h
    split at h
    · rename_i hc; cases h; simp only [mu, hc.1]; omega
    · cases h
  | rRelease =>
    simp only [step] at h
    split at h
    · rename_i hc; cases h; simp only [mu, hc]; omega
    · cases h

end PV.ClientLock
