/-
  PV.Model.Pipe — the pollable-descriptor machinery behind `Channel.fileno()`:
    paramiko/pipe.py           PosixPipe.set/clear/set_forever, OrPipe.set/clear, make_or_pipe
    paramiko/buffered_pipe.py  the event calls of feed / read / empty / close / set_event
    paramiko/channel.py        fileno, _handle_eof, _set_closed (via _unlink/_handle_close)

  Part 1 (this file, statement granularity): pipe.py is *data* — one instruction per source-line event of each
  method (`Code`).  `PV/Generated/C24.lean` is regenerated from the AST of pipe.py on every run and must equal the
  hand-written `fixedCode` below (`PV.Props.C24.model_eq_generated`).  A thread executes a small program of
  "glue" instructions (what buffered_pipe.py / channel.py do around the pipe calls: their own locks, buffer and
  flag updates) and calls into the pipe methods; it *yields* before every pipe.py line, exactly like the line-level
  scheduler that drives the real code (pv/props/c24.py).  `tstep` = run one thread from its current yield point to
  its next one (or until it blocks on a lock / an empty descriptor, or its operation ends).

  Part 2 (`PV/Model/PipeAtomic.lean`): the same operations with the pipe methods executed atomically (what the
  locks of the fixed pipe.py provide), on which the property theorem is proved for all schedules.
-/
namespace PV.Pipe

/-! ## pipe.py as data -/

inductive Var where
  | set | forever | closed      -- PosixPipe._set/_forever/_closed ; OrPipe._set is `set`
  | partnerSet                  -- OrPipe: self._partner._set
  deriving DecidableEq, Repr

inductive Expr where
  | v (x : Var)
  | not (e : Expr)
  | or (a b : Expr)
  | and (a b : Expr)
  deriving DecidableEq, Repr

inductive Meth where
  | set | clear | setForever
  deriving DecidableEq, Repr

inductive Target where
  | self      -- self.m()
  | pipe      -- self._pipe.m()
  deriving DecidableEq, Repr

/-- one source-line event.  `next = none` means: the method returns after this line. -/
inductive Instr where
  | enter (next : Nat)                        -- `with self._lock:`  (acquire)
  | exit (next : Option Nat)                  -- leaving the with block (line event on the `with` line again): release
  | test (c : Expr) (t f : Option Nat)        -- `if c:` → t else f
  | assign (x : Var) (b : Bool) (next : Option Nat)
  | osRead (next : Option Nat)                -- os.read(self._rfd, 1)
  | osWrite (next : Option Nat)               -- os.write(self._wfd, b"*")
  | call (tg : Target) (m : Meth) (next : Option Nat)
  | ret (next : Option Nat)                   -- `return`; `next` = the exit instruction of the enclosing with, if any
  deriving DecidableEq, Repr

structure Code where
  posixSet : List Instr
  posixClear : List Instr
  posixSetForever : List Instr
  orSet : List Instr
  orClear : List Instr
  /-- PosixPipe has a `_lock` and it is an RLock -/
  posixReentrant : Bool
  /-- make_or_pipe gives both halves the same lock object -/
  orShared : Bool
  deriving DecidableEq, Repr

/-- pipe.py after `fix: serialize PosixPipe/OrPipe set and clear` -/
def fixedCode : Code where
  posixClear := [
    .enter 1,                                                  -- with self._lock:
    .test (.or (.not (.v .set)) (.v .forever)) (some 2) (some 3),  --   if not self._set or self._forever:
    .ret (some 5),                                             --     return
    .osRead (some 4),                                          --   os.read(self._rfd, 1)
    .assign .set false (some 5),                               --   self._set = False
    .exit none ]
  posixSet := [
    .enter 1,
    .test (.or (.v .set) (.v .closed)) (some 2) (some 3),      --   if self._set or self._closed:
    .ret (some 5),
    .assign .set true (some 4),                                --   self._set = True
    .osWrite (some 5),                                         --   os.write(self._wfd, b"*")
    .exit none ]
  posixSetForever := [
    .enter 1,
    .assign .forever true (some 2),                            --   self._forever = True
    .call .self .set (some 3),                                 --   self.set()
    .exit none ]
  orSet := [
    .enter 1,
    .assign .set true (some 2),                                --   self._set = True
    .test (.not (.v .partnerSet)) (some 3) (some 4),           --   if not self._partner._set:
    .call .pipe .set (some 4),                                 --     self._pipe.set()
    .exit none ]
  orClear := [
    .enter 1,
    .assign .set false (some 2),
    .test (.not (.v .partnerSet)) (some 3) (some 4),
    .call .pipe .clear (some 4),
    .exit none ]
  posixReentrant := true
  orShared := true

/-- pipe.py before the fix (no locks at all) — kept for the witness -/
def unlockedCode : Code where
  posixClear := [
    .test (.or (.not (.v .set)) (.v .forever)) (some 1) (some 2),
    .ret none,
    .osRead (some 3),
    .assign .set false none ]
  posixSet := [
    .test (.or (.v .set) (.v .closed)) (some 1) (some 2),
    .ret none,
    .assign .set true (some 3),
    .osWrite none ]
  posixSetForever := [
    .assign .forever true (some 1),
    .call .self .set none ]
  orSet := [
    .assign .set true (some 1),
    .test (.not (.v .partnerSet)) (some 2) none,
    .call .pipe .set none ]
  orClear := [
    .assign .set false (some 1),
    .test (.not (.v .partnerSet)) (some 2) none,
    .call .pipe .clear none ]
  posixReentrant := false
  orShared := false

/-! ## state -/

inductive Obj where
  | pipe | or1 | or2
  deriving DecidableEq, Repr

/-- the locks inside pipe.py -/
inductive PLock where
  | pp | orA | orB
  deriving DecidableEq, Repr

/-- the locks of the callers: the two BufferedPipes and the channel -/
inductive HLock where
  | b1 | b2 | ch
  deriving DecidableEq, Repr

structure Lock where
  owner : Option Nat := none
  count : Nat := 0
  deriving DecidableEq, Repr

/-- the pipe.py objects of one channel -/
structure PSt where
  pSet : Bool := false
  pForever : Bool := false
  pClosed : Bool := false
  os : Nat := 0                -- bytes sitting in the OS pipe (select: readable ⇔ os > 0)
  s1 : Bool := false           -- OrPipe halves (`_set`)
  s2 : Bool := false
  lpp : Lock := {}
  lorA : Lock := {}
  lorB : Lock := {}
  deriving DecidableEq, Repr

structure Frame where
  obj : Obj
  meth : Meth
  pc : Option Nat        -- none: about to return
  deriving DecidableEq, Repr

/-- glue around the pipe calls (buffered_pipe.py / channel.py), executed without yielding -/
inductive HCond where
  | ne (i : Bool) | cl (i : Bool) | ev (i : Bool) | eof | chClosed | hasPipe
  | combine | tmp
  | tt
  | not (c : HCond) | or (a b : HCond) | and (a b : HCond)
  deriving DecidableEq, Repr

inductive PInstr where
  | acq (l : HLock) | rel (l : HLock)
  | setNe (i : Bool) (b : Bool) | setCl (i : Bool) | setEv (i : Bool)
  | setEof | setChClosed | mkPipe
  | setCombine (b : Bool)              -- self.combine_stderr = b
  | saveNe (i : Bool)                  -- tmp := "buffer i holds data" (the `data` local of set_combine_stderr)
  | dropTmp                            -- the local goes out of scope
  | callEv (i : Bool) (m : Meth)       -- self._event.m() of buffer i (false = stdout, true = stderr)
  | callForever                        -- self._pipe.set_forever()
  | skipUnless (c : HCond) (n : Nat)   -- if ¬c: skip the next n instructions
  deriving DecidableEq, Repr

structure Thread where
  prog : List PInstr := []     -- remaining glue program of the current operation
  stack : List Frame := []     -- pipe.py frames (innermost first)
  deriving DecidableEq, Repr

structure St where
  p : PSt := {}
  -- buffers (index false = stdout / in_buffer, true = stderr / in_stderr_buffer)
  ne1 : Bool := false
  ne2 : Bool := false
  cl1 : Bool := false
  cl2 : Bool := false
  ev1 : Bool := false
  ev2 : Bool := false
  -- channel
  eof : Bool := false
  chClosed : Bool := false
  hasPipe : Bool := false
  combine : Bool := false      -- Channel.combine_stderr
  tmp : Bool := false          -- scratch local of the channel-lock holder
  lb1 : Lock := {}
  lb2 : Lock := {}
  lch : Lock := {}
  threads : List Thread := []
  deriving DecidableEq, Repr

def getPLock (p : PSt) : PLock → Lock
  | .pp => p.lpp | .orA => p.lorA | .orB => p.lorB
def setPLock (p : PSt) (l : PLock) (v : Lock) : PSt :=
  match l with
  | .pp => { p with lpp := v } | .orA => { p with lorA := v } | .orB => { p with lorB := v }
def getHLock (s : St) : HLock → Lock
  | .b1 => s.lb1 | .b2 => s.lb2 | .ch => s.lch
def setHLock (s : St) (l : HLock) (v : Lock) : St :=
  match l with
  | .b1 => { s with lb1 := v } | .b2 => { s with lb2 := v } | .ch => { s with lch := v }

def reentrant (c : Code) : PLock → Bool
  | .pp => c.posixReentrant
  | _ => false

def lockTake (k : Lock) (tid : Nat) (re : Bool) : Option Lock :=
  match k.owner with
  | none => some { owner := some tid, count := 1 }
  | some o => if o == tid && re then some { k with count := k.count + 1 } else none

def lockDrop (k : Lock) : Lock := if k.count ≤ 1 then {} else { k with count := k.count - 1 }

def lockOf (c : Code) : Obj → PLock
  | .pipe => .pp
  | .or1 => .orA
  | .or2 => if c.orShared then .orA else .orB

def instrs (c : Code) : Obj → Meth → List Instr
  | .pipe, .set => c.posixSet
  | .pipe, .clear => c.posixClear
  | .pipe, .setForever => c.posixSetForever
  | _, .set => c.orSet
  | _, .clear => c.orClear
  | _, .setForever => []

def readVar (p : PSt) (o : Obj) : Var → Bool
  | .set => match o with | .pipe => p.pSet | .or1 => p.s1 | .or2 => p.s2
  | .forever => p.pForever
  | .closed => p.pClosed
  | .partnerSet => match o with | .pipe => false | .or1 => p.s2 | .or2 => p.s1

def writeVar (p : PSt) (o : Obj) (x : Var) (b : Bool) : PSt :=
  match x, o with
  | .set, .pipe => { p with pSet := b }
  | .set, .or1 => { p with s1 := b }
  | .set, .or2 => { p with s2 := b }
  | .forever, _ => { p with pForever := b }
  | .closed, _ => { p with pClosed := b }
  | .partnerSet, _ => p

def eval (p : PSt) (o : Obj) : Expr → Bool
  | .v x => readVar p o x
  | .not e => !(eval p o e)
  | .or a b => eval p o a || eval p o b
  | .and a b => eval p o a && eval p o b

def hcond (s : St) : HCond → Bool
  | .ne i => if i then s.ne2 else s.ne1
  | .cl i => if i then s.cl2 else s.cl1
  | .ev i => if i then s.ev2 else s.ev1
  | .eof => s.eof
  | .chClosed => s.chClosed
  | .hasPipe => s.hasPipe
  | .combine => s.combine
  | .tmp => s.tmp
  | .tt => true
  | .not c => !(hcond s c)
  | .or a b => hcond s a || hcond s b
  | .and a b => hcond s a && hcond s b

/-- result of executing one pipe.py line of the top frame -/
inductive LineRes where
  | ok (p : PSt) (stack : List Frame)
  | blocked
  deriving Repr

def targetObj (o : Obj) : Target → Obj
  | .self => o
  | .pipe => .pipe

/-- execute the line at the top frame's pc -/
def execLine (c : Code) (p : PSt) (tid : Nat) (stack : List Frame) : LineRes :=
  match stack with
  | [] => .ok p []
  | f :: rest =>
    match f.pc with
    | none => .ok p rest
    | some pc =>
      match (instrs c f.obj f.meth)[pc]? with
      | none => .ok p rest      -- ran off the code: treat as return (never happens for well-formed code)
      | some ins =>
        match ins with
        | .enter n =>
          match lockTake (getPLock p (lockOf c f.obj)) tid (reentrant c (lockOf c f.obj)) with
          | some k => .ok (setPLock p (lockOf c f.obj) k) ({ f with pc := some n } :: rest)
          | none => .blocked
        | .exit n =>
          .ok (setPLock p (lockOf c f.obj) (lockDrop (getPLock p (lockOf c f.obj)))) ({ f with pc := n } :: rest)
        | .test e t fl => .ok p ({ f with pc := if eval p f.obj e then t else fl } :: rest)
        | .assign x b n => .ok (writeVar p f.obj x b) ({ f with pc := n } :: rest)
        | .osRead n => if p.os = 0 then .blocked else .ok { p with os := p.os - 1 } ({ f with pc := n } :: rest)
        | .osWrite n => .ok { p with os := p.os + 1 } ({ f with pc := n } :: rest)
        | .call tg m n =>
          .ok p ({ obj := targetObj f.obj tg, meth := m, pc := some 0 } :: { f with pc := n } :: rest)
        | .ret n => .ok p ({ f with pc := n } :: rest)

/-- pop frames that are about to return -/
def popReturned : List Frame → List Frame
  | [] => []
  | f :: rest => match f.pc with
    | none => popReturned rest
    | some _ => f :: rest

/-- run a pipe.py call alone to completion (what a lock-protected call amounts to); `none`: blocked / no fuel -/
def runAlone (c : Code) (fuel : Nat) (p : PSt) (tid : Nat) (stack : List Frame) : Option PSt :=
  match fuel with
  | 0 => none
  | fuel + 1 =>
    match popReturned stack with
    | [] => some p
    | st =>
      match execLine c p tid st with
      | .blocked => none
      | .ok p' st' => runAlone c fuel p' tid st'

def callFuel : Nat := 40

/-- `obj.meth()` executed atomically; a call that cannot complete leaves the state alone -/
def callAtomic (c : Code) (p : PSt) (o : Obj) (m : Meth) : PSt :=
  (runAlone c callFuel p 0 [{ obj := o, meth := m, pc := some 0 }]).getD p

def setThread (s : St) (tid : Nat) (t : Thread) : St := { s with threads := s.threads.set tid t }

/-- run glue instructions until a pipe call, a blocked acquire, or the end of the program -/
def runGlue (fuel : Nat) (s : St) (tid : Nat) (prog : List PInstr) : St × Thread :=
  match fuel with
  | 0 => (s, { prog := prog, stack := [] })
  | fuel + 1 =>
    match prog with
    | [] => (s, {})
    | i :: rest =>
      match i with
      | .acq l =>
        match lockTake (getHLock s l) tid false with
        | some k => runGlue fuel (setHLock s l k) tid rest
        | none => (s, { prog := prog, stack := [] })            -- parked in acquire
      | .rel l => runGlue fuel (setHLock s l (lockDrop (getHLock s l))) tid rest
      | .setNe i b => runGlue fuel (if i then { s with ne2 := b } else { s with ne1 := b }) tid rest
      | .setCl i => runGlue fuel (if i then { s with cl2 := true } else { s with cl1 := true }) tid rest
      | .setEv i => runGlue fuel (if i then { s with ev2 := true } else { s with ev1 := true }) tid rest
      | .setEof => runGlue fuel { s with eof := true } tid rest
      | .setChClosed => runGlue fuel { s with chClosed := true } tid rest
      | .mkPipe => runGlue fuel { s with hasPipe := true } tid rest
      | .setCombine b => runGlue fuel { s with combine := b } tid rest
      | .saveNe i => runGlue fuel { s with tmp := if i then s.ne2 else s.ne1 } tid rest
      | .dropTmp => runGlue fuel { s with tmp := false } tid rest
      | .callEv i m => (s, { prog := rest, stack := [{ obj := if i then .or2 else .or1, meth := m, pc := some 0 }] })
      | .callForever => (s, { prog := rest, stack := [{ obj := .pipe, meth := .setForever, pc := some 0 }] })
      | .skipUnless cnd n => if hcond s cnd then runGlue fuel s tid rest else runGlue fuel s tid (rest.drop n)

def glueFuel : Nat := 64

/-- One scheduler step of thread `tid`: if it is at a pipe.py line, execute that line; then continue (returns,
glue) up to the next pipe.py line, a blocking point, or the end of the operation.  Blocked = no change. -/
def tstep (c : Code) (s : St) (tid : Nat) : St :=
  match s.threads[tid]? with
  | none => s
  | some t =>
    match t.stack with
    | [] =>
      -- parked in a glue acquire (or idle with an empty program)
      let (s', t') := runGlue glueFuel s tid t.prog
      setThread s' tid t'
    | _ :: _ =>
      match execLine c s.p tid t.stack with
      | .blocked => s
      | .ok p' stack' =>
        match popReturned stack' with
        | [] =>
          let (s'', t') := runGlue glueFuel { s with p := p' } tid t.prog
          setThread s'' tid t'
        | st => setThread { s with p := p' } tid { t with stack := st }

def idle (t : Thread) : Bool := t.prog.isEmpty && t.stack.isEmpty

/-- start operation `prog` on an idle thread (runs to its first yield point) -/
def start (_c : Code) (s : St) (tid : Nat) (prog : List PInstr) : St :=
  match s.threads[tid]? with
  | none => s
  | some t =>
    if idle t then
      let (s', t') := runGlue glueFuel s tid prog
      setThread s' tid t'
    else s

/-! ## the operations of buffered_pipe.py / channel.py as glue programs -/

def bLock (i : Bool) : HLock := if i then .b2 else .b1

/-- BufferedPipe.close() -/
def closeB (i : Bool) : List PInstr :=
  [.acq (bLock i), .setCl i, .skipUnless (.ev i) 1, .callEv i .set, .rel (bLock i)]

/-- BufferedPipe.set_event(p_i) -/
def setEventB (i : Bool) : List PInstr :=
  [.acq (bLock i), .setEv i, .skipUnless (.or (.cl i) (.ne i)) 2, .callEv i .set, .skipUnless (.not .tt) 1,
   .callEv i .clear, .rel (bLock i)]

/-- BufferedPipe.feed(non-empty data) -/
def feedB (i : Bool) : List PInstr :=
  [.acq (bLock i), .skipUnless (.ev i) 1, .callEv i .set, .setNe i true, .rel (bLock i)]

/-- BufferedPipe.empty() -/
def emptyB (i : Bool) : List PInstr :=
  [.acq (bLock i), .setNe i false, .skipUnless (.and (.ev i) (.not (.cl i))) 1, .callEv i .clear, .rel (bLock i)]

inductive Op where
  | feed (i : Bool)        -- BufferedPipe.feed(non-empty data)
  | feedEmpty (i : Bool)   -- BufferedPipe.feed(b"")
  | drain (i : Bool)       -- BufferedPipe.read(n ≥ len, timeout 0): takes everything if there is something
  | empty (i : Bool)       -- BufferedPipe.empty()
  | eof                    -- Channel._handle_eof
  | close                  -- Channel._unlink / _handle_close → _set_closed
  | fileno                 -- Channel.fileno()
  | combineOn              -- Channel.set_combine_stderr(True)
  | combineOff             -- Channel.set_combine_stderr(False)
  | feedErr                -- Channel._feed_extended (type 1, non-empty): stdout buffer if combining, else stderr buffer
  deriving DecidableEq, Repr

/-- `feedGuard = true`: feed() raises the event only for non-empty data (buffered_pipe.py after
`fix: BufferedPipe.feed does not signal readiness for empty data`) -/
def prog (feedGuard : Bool) : Op → List PInstr
  | .feed i => [.acq (bLock i), .skipUnless (.ev i) 1, .callEv i .set, .setNe i true, .rel (bLock i)]
  | .feedEmpty i =>
    if feedGuard then [.acq (bLock i), .rel (bLock i)]
    else [.acq (bLock i), .skipUnless (.ev i) 1, .callEv i .set, .rel (bLock i)]
  | .drain i =>
    [.acq (bLock i), .skipUnless (.ne i) 3, .setNe i false, .skipUnless (.and (.ev i) (.not (.cl i))) 1,
     .callEv i .clear, .rel (bLock i)]
  | .empty i =>
    [.acq (bLock i), .setNe i false, .skipUnless (.and (.ev i) (.not (.cl i))) 1, .callEv i .clear, .rel (bLock i)]
  | .eof =>
    [.acq .ch, .skipUnless (.not .eof) 13, .setEof] ++ closeB false ++ closeB true ++
      [.skipUnless .hasPipe 1, .callForever, .rel .ch]
  | .close =>   -- Channel._unlink: `if self.closed: return` is tested before the lock is taken
    [.skipUnless (.not .chClosed) 15, .acq .ch, .setChClosed] ++ closeB false ++ closeB true ++
      [.skipUnless .hasPipe 1, .callForever, .rel .ch]
  | .fileno =>
    [.acq .ch, .skipUnless (.not .hasPipe) 15, .mkPipe] ++ setEventB false ++ setEventB true ++ [.rel .ch]
  | .combineOn =>
    -- old = combine; combine = True; if not old: data = stderr.empty(); if data: self._feed(data)   (all under the lock)
    [.acq .ch, .skipUnless (.not .combine) 14, .setCombine true,
     -- data = self.in_stderr_buffer.empty()   (`data` is what the buffer holds once its lock has been obtained)
     .acq .b2, .saveNe true, .setNe true false, .skipUnless (.and (.ev true) (.not (.cl true))) 1, .callEv true .clear,
     .rel .b2, .skipUnless .tmp 5] ++ feedB false ++ [.skipUnless (.not .tt) 1, .setCombine true, .dropTmp, .rel .ch]
  | .combineOff => [.acq .ch, .setCombine false, .rel .ch]
  | .feedErr =>
    [.acq .ch, .skipUnless .combine 6] ++ feedB false ++ [.skipUnless (.not .tt) 5] ++ feedB true ++ [.rel .ch]

/-- scheduler alphabet -/
inductive Act where
  | start (tid : Nat) (op : Op)
  | step (tid : Nat)
  deriving DecidableEq, Repr

def act (c : Code) (g : Bool) (s : St) : Act → St
  | .start tid op => start c s tid (prog g op)
  | .step tid => tstep c s tid

def run (c : Code) (g : Bool) (s : St) (acts : List Act) : St := acts.foldl (act c g) s

def init (nthreads : Nat) : St := { threads := List.replicate nthreads {} }

def quiescent (s : St) : Bool := s.threads.all idle

/-- what select() says -/
def readable (s : St) : Bool := decide (0 < s.p.os)

/-- what the property says it should say -/
def shouldBeReadable (s : St) : Bool := s.ne1 || s.ne2 || s.eof || s.chClosed

/-- statement-level schedule of the OrPipe/PosixPipe race (used by `PV.Props.C24.race_witness_unlocked` and exported
by the driver for replay on the real code): thread 0 runs fileno(), stderr gets data (thread 1); then thread 1
drains stderr while thread 2 feeds stdout — thread 1 is stopped after `os.read` and before `self._set = False` in
PosixPipe.clear, thread 2 runs completely, thread 1 finishes. -/
def raceSchedule : List Act :=
  [.start 0 .fileno] ++ List.replicate 20 (.step 0) ++
  [.start 1 (.feed true)] ++ List.replicate 12 (.step 1) ++
  [.start 1 (.drain true), .start 2 (.feed false)] ++ List.replicate 5 (.step 1) ++
  List.replicate 8 (.step 2) ++ List.replicate 12 (.step 1)

end PV.Pipe
