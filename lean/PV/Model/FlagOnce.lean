/-
  PV.Model.FlagOnce — the check-then-set protocol behind "EOF at most once" / "CLOSE at most once" at STATEMENT
  granularity: `_send_eof` is `if self.eof_sent: return None … self.eof_sent = True` (and `_close_internal` is
  `if … self.closed: return … _set_closed()`), documented "you are holding the lock".  Whether a call site really
  holds `self.lock` comes from the table generated from the AST of channel.py (PV/Generated/ChanLock.lean).

  A thread executes one call site: if the site is locked the read of the flag and its write are ONE atomic region
  (mutual exclusion of `self.lock`); if not, they are two steps and anything may run in between.
-/
namespace PV.FlagOnce

inductive Pc where
  | ready (locked : Bool)   -- about to run the site
  | checked                 -- (unlocked site) has seen flag = false, has not written it yet
  | done
  deriving Repr, DecidableEq

structure St where
  flag : Bool        -- eof_sent / closed
  emitted : Nat      -- messages produced (EOF / CLOSE)
  thr : List Pc
  deriving Repr, DecidableEq

def init (sites : List Bool) : St := { flag := false, emitted := 0, thr := sites.map Pc.ready }

/-- thread `t` runs its next atomic step -/
def step (s : St) (t : Nat) : St :=
  match s.thr[t]? with
  | some (.ready true) =>
    if s.flag then { s with thr := s.thr.set t .done }
    else { flag := true, emitted := s.emitted + 1, thr := s.thr.set t .done }
  | some (.ready false) =>
    if s.flag then { s with thr := s.thr.set t .done } else { s with thr := s.thr.set t .checked }
  | some .checked => { flag := true, emitted := s.emitted + 1, thr := s.thr.set t .done }
  | _ => s

def run (s : St) (sched : List Nat) : St := sched.foldl step s

end PV.FlagOnce
