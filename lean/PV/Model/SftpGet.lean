/-
  PV.Model.SftpGet — SFTPClient.getfo / get without prefetching (paramiko/sftp_client.py getfo, get,
  _transfer_with_callback; paramiko/file.py BufferedFile.read in unbuffered mode; paramiko/sftp_file.py _read),
  against a server whose read handler, per request, either fails with an error code or returns 1..n true bytes
  (EOF exactly at the end of the file).  Every READ request consumes one entry of the outcome plan.
  (The prefetching path is the concurrent model PV/Model/Prefetch.lean.)
-/
import PV.Base.Bytes
namespace PV.SftpGet
open PV

/-- what the server's read handler does with one request -/
inductive RdOut where
  | data (k : Nat)      -- return min(k, what was asked, what is left) bytes, at least one
  | fail (code : Nat)   -- answer with this error status (not EOF, not OK)
  | drop                -- hang up: the channel is closed, no answer ever arrives (the client sees EOF on the socket)
  deriving Repr, DecidableEq

inductive Res where
  | ok (bytes : Bytes)
  | raised (code : Nat)
  | fuel
  deriving Repr, DecidableEq

def slice (f : Bytes) (off n : Nat) : Bytes := (f.drop off).take n

/-- next plan entry (an exhausted plan means: serve in full) -/
def nextOut : List RdOut → RdOut × List RdOut
  | [] => (.data 1000000000, [])
  | o :: rest => (o, rest)

/-- one `SFTPFile._read(size)` at `pos`: `Except code (some data | none = EOF)` -/
def rawRead (remote : Bytes) (pos size : Nat) (o : RdOut) : Except Nat (Option Bytes) :=
  match o with
  | .fail c => .error c
  | .drop => .error 3000   -- SSHException("Server connection dropped") out of _read_response(waitfor=num)
  | .data k =>
    let avail := min size (remote.length - pos)
    if avail = 0 then .ok none else .ok (some (slice remote pos (max 1 (min k avail))))

/-- `BufferedFile.read(want)` (unbuffered): `_read(min(want - got, maxReq))` until `want` bytes or EOF -/
def readLoop (remote : Bytes) (maxReq : Nat) : Nat → Nat → Nat → Bytes → List RdOut → Except Nat (Bytes × List RdOut)
  | 0, _, _, got, plan => .ok (got, plan)
  | fuel+1, pos, want, got, plan =>
    if got.length ≥ want then .ok (got, plan) else
      let (o, plan') := nextOut plan
      match rawRead remote (pos + got.length) (min (want - got.length) maxReq) o with
      | .error c => .error c
      | .ok none => .ok (got, plan')
      | .ok (some d) => readLoop remote maxReq fuel pos want (got ++ d) plan'

/-- `_transfer_with_callback`: `read(chunk)`, write it locally, until an empty read -/
def transfer (remote : Bytes) (maxReq chunk : Nat) : Nat → Bytes → List RdOut → Res
  | 0, _, _ => .fuel
  | fuel+1, loc, plan =>
    match readLoop remote maxReq (chunk + 1) loc.length chunk [] plan with
    | .error c => .raised c
    | .ok (d, plan') => if d.isEmpty then .ok loc else transfer remote maxReq chunk fuel (loc ++ d) plan'

/-- `getfo(prefetch=False)`: stat, open, transfer (close errors are swallowed);
    `get` additionally compares the local file's size with the count `getfo` returned.
    `reported` = the size the server's STAT answer claims (`file_size`): it is handed to the callback (and to
    `prefetch`), and has no say in when the copy loop ends — that is decided by the source's read() alone -/
def getfo (remote : Bytes) (maxReq chunk statCode openCode : Nat) (plan : List RdOut) (fuel : Nat) (_reported : Nat := 0) : Res :=
  if statCode ≠ 0 then .raised statCode
  else if openCode ≠ 0 then .raised openCode
  else transfer remote maxReq chunk fuel [] plan

def get (remote : Bytes) (maxReq chunk statCode openCode : Nat) (plan : List RdOut) (fuel : Nat) (reported : Nat := 0) : Res :=
  match getfo remote maxReq chunk statCode openCode plan fuel reported with
  | .ok b => if b.length ≠ b.length then .raised 2000 else .ok b   -- "size mismatch in get!": local size vs bytes written
  | r => r

end PV.SftpGet
