/-
  PV.Model.RunLoopIO — text forms of run-loop states/events for the line-protocol drivers (C09, C12).
-/
import PV.Model.RunLoop
import PV.Base.DriverIO
namespace PV.RunLoop

def parseNatList (s : String) : Option (List Nat) :=
  if s == "-" then some [] else (s.splitOn ",").mapM String.toNat?

def showNatList (l : List Nat) : String :=
  if l.isEmpty then "-" else ",".intercalate (l.map toString)

def parseBool (s : String) : Option Bool :=
  if s == "1" then some true else if s == "0" then some false else none

def showBool (b : Bool) : String := if b then "1" else "0"

def parseAuthH : String → Option AuthH
  | "none" => some .none | "std" => some .std | "only" => some .only | "gss" => some .gssMic | _ => none

def showAuthH : AuthH → String
  | .none => "none" | .std => "std" | .only => "only" | .gssMic => "gss"

def showErr : Option Err → String
  | none => "-"
  | some .strictOrder => "strict-order"
  | some .ssh => "ssh"
  | some .incompatible => "incompatible"
  | some .rollover => "rollover"
  | some .keyError => "key-error"
  | some .internal => "internal"
  | some .disconnect => "disconnect"
  | some .unknownChannel => "unknown-channel"

def parseErr : String → Option (Option Err)
  | "-" => some none
  | "strict-order" => some (some .strictOrder)
  | "ssh" => some (some .ssh)
  | "incompatible" => some (some .incompatible)
  | "rollover" => some (some .rollover)
  | "key-error" => some (some .keyError)
  | "internal" => some (some .internal)
  | _ => none

def showSent (l : List Sent) : String :=
  if l.isEmpty then "-" else ",".intercalate (l.map fun m => s!"{m.ptype}:{m.seqno}:{m.arg}")

def parseKexKind : String → Option KexKind
  | "dh" => some .dhGroup | "ecdh" => some .ecdh | "gex" => some .gex | "gexold" => some .gexOld | _ => none

end PV.RunLoop
