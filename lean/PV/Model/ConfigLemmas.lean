/-
  Helper lemmas for the SSHConfig model (ordered dicts, the per-block merge of `_lookup`, `extendDedup`).
-/
import PV.Model.Config
namespace PV.Config

/-! ### ordered dicts -/

theorem Dict.get_nil (k : String) : Dict.get [] k = none := rfl

theorem Dict.get_cons (k k0 : String) (v0 : Val) (rest : Dict) :
    Dict.get ((k0, v0) :: rest) k = if k = k0 then some v0 else Dict.get rest k := by
  simp only [Dict.get, List.lookup]
  by_cases h : k = k0
  · subst h; simp
  · have : (k == k0) = false := by simpa using h
    simp [this, h]

theorem Dict.get_set_same (d : Dict) (k : String) (v : Val) : (d.set k v).get k = some v := by
  induction d with
  | nil => simp [Dict.set, Dict.get_cons]
  | cons e rest ih =>
    obtain ⟨k0, v0⟩ := e
    simp only [Dict.set]
    by_cases h : k0 = k
    · subst h; simp [Dict.get_cons]
    · have : (k0 == k) = false := by simpa using h
      simp only [this, Bool.false_eq_true, if_false, Dict.get_cons]
      have h' : ¬ k = k0 := fun e => h e.symm
      simp [h', ih]

theorem Dict.get_set_other (d : Dict) (k k' : String) (v : Val) (hne : k' ≠ k) :
    (d.set k v).get k' = d.get k' := by
  induction d with
  | nil => simp [Dict.set, Dict.get_cons, hne, Dict.get_nil]
  | cons e rest ih =>
    obtain ⟨k0, v0⟩ := e
    simp only [Dict.set]
    by_cases h : k0 = k
    · subst h; simp [Dict.get_cons, hne]
    · have : (k0 == k) = false := by simpa using h
      simp only [this, Bool.false_eq_true, if_false, Dict.get_cons, ih]

theorem Dict.has_iff (d : Dict) (k : String) : d.has k = true ↔ ∃ v, d.get k = some v := by
  simp [Dict.has, Option.isSome_iff_exists]

theorem Dict.has_false_iff (d : Dict) (k : String) : d.has k = false ↔ d.get k = none := by
  simp [Dict.has]

/-- the keys of the dict are pairwise different (true of every dict built with `Dict.set` from `[]`) -/
def NodupKeys (d : Dict) : Prop := (d.map (·.1)).Nodup

theorem Dict.keys_set (d : Dict) (k : String) (v : Val) :
    (d.set k v).map (·.1) = if d.has k then d.map (·.1) else d.map (·.1) ++ [k] := by
  induction d with
  | nil => simp [Dict.set, Dict.has, Dict.get_nil]
  | cons e rest ih =>
    obtain ⟨k0, v0⟩ := e
    simp only [Dict.set]
    by_cases h : k0 = k
    · subst h; simp [Dict.has, Dict.get_cons]
    · have hb : (k0 == k) = false := by simpa using h
      have h' : ¬ k = k0 := fun e => h e.symm
      simp only [hb, Bool.false_eq_true, if_false, List.map_cons, ih, Dict.has, Dict.get_cons, h']
      split <;> simp_all

theorem NodupKeys.set {d : Dict} (h : NodupKeys d) (k : String) (v : Val) : NodupKeys (d.set k v) := by
  unfold NodupKeys at *
  rw [Dict.keys_set]
  split
  · exact h
  · rename_i hk
    have hk' : d.get k = none := by simpa [Dict.has] using hk
    rw [List.nodup_append]
    refine ⟨h, by simp, ?_⟩
    intro a ha b hb
    simp only [List.mem_singleton] at hb
    subst hb
    intro hab
    subst hab
    -- a key that is in the key list has a value
    have : ∃ v, d.get a = some v := by
      clear h hk
      induction d with
      | nil => simp at ha
      | cons e rest ih =>
        obtain ⟨k0, v0⟩ := e
        simp only [List.map_cons, List.mem_cons] at ha
        by_cases h0 : a = k0
        · exact ⟨v0, by simp [Dict.get_cons, h0]⟩
        · rcases ha with ha | ha
          · exact absurd ha h0
          · simp only [Dict.get_cons, h0, if_false] at hk' ⊢
            exact ih ha hk'
    obtain ⟨v', hv'⟩ := this
    rw [hk'] at hv'
    cases hv'

theorem NodupKeys.nil : NodupKeys [] := by simp [NodupKeys]

theorem Dict.get_none_of_not_mem_keys (d : Dict) (k : String) (h : k ∉ d.map (·.1)) : d.get k = none := by
  induction d with
  | nil => rfl
  | cons e rest ih =>
    obtain ⟨k0, v0⟩ := e
    simp only [List.map_cons, List.mem_cons, not_or] at h
    simp [Dict.get_cons, h.1, ih h.2]

/-! ### `extendDedup` -/

theorem extendDedup_nil (acc : List String) : extendDedup acc [] = acc := rfl

theorem extendDedup_cons (acc : List String) (x : String) (xs : List String) :
    extendDedup acc (x :: xs) = extendDedup (if acc.contains x then acc else acc ++ [x]) xs := rfl

theorem mem_extendDedup (acc vs : List String) (x : String) :
    x ∈ extendDedup acc vs ↔ x ∈ acc ∨ x ∈ vs := by
  induction vs generalizing acc with
  | nil => simp [extendDedup_nil]
  | cons v vs ih =>
    rw [extendDedup_cons, ih]
    by_cases h : acc.contains v = true
    · simp only [h, if_true, List.mem_cons]
      have hv : v ∈ acc := by simpa using h
      constructor
      · rintro (h1 | h1)
        · exact Or.inl h1
        · exact Or.inr (Or.inr h1)
      · rintro (h1 | h1 | h1)
        · exact Or.inl h1
        · subst h1; exact Or.inl hv
        · exact Or.inr h1
    · simp only [h, Bool.false_eq_true, if_false, List.mem_append, List.mem_cons, List.not_mem_nil, or_false]
      constructor
      · rintro ((h1 | h1) | h1)
        · exact Or.inl h1
        · exact Or.inr (Or.inl h1)
        · exact Or.inr (Or.inr h1)
      · rintro (h1 | h1 | h1)
        · exact Or.inl (Or.inl h1)
        · exact Or.inl (Or.inr h1)
        · exact Or.inr h1

theorem nodup_extendDedup (acc vs : List String) (h : acc.Nodup) : (extendDedup acc vs).Nodup := by
  induction vs generalizing acc with
  | nil => simpa [extendDedup_nil] using h
  | cons v vs ih =>
    rw [extendDedup_cons]
    apply ih
    by_cases hc : acc.contains v = true
    · rw [if_pos hc]; exact h
    · rw [if_neg hc]
      have hv : v ∉ acc := by simpa using hc
      rw [List.nodup_append]
      refine ⟨h, by simp, ?_⟩
      intro a ha b hb
      simp only [List.mem_singleton] at hb
      subst hb
      intro hab; subst hab; exact hv ha

/-- what is already there stays in front, in its order -/
theorem extendDedup_prefix (acc vs : List String) : acc <+: extendDedup acc vs := by
  induction vs generalizing acc with
  | nil => exact List.prefix_refl _
  | cons v vs ih =>
    rw [extendDedup_cons]
    by_cases hc : acc.contains v = true
    · rw [if_pos hc]; exact ih acc
    · rw [if_neg hc]
      exact List.IsPrefix.trans (List.prefix_append acc [v]) (ih _)

/-- extending by values that are all present changes nothing (second `_lookup` pass) -/
theorem extendDedup_of_subset (acc vs : List String) (h : ∀ x ∈ vs, x ∈ acc) : extendDedup acc vs = acc := by
  induction vs generalizing acc with
  | nil => rfl
  | cons v vs ih =>
    rw [extendDedup_cons]
    have hv : acc.contains v = true := by simpa using h v (by simp)
    simp only [hv, if_true]
    exact ih acc (fun x hx => h x (by simp [hx]))

/-! ### the per-block merge of `_lookup` -/

theorem mergeKey_get_other (opts : Dict) (k : String) (v : Val) (k' : String) (h : k' ≠ k) :
    (mergeKey opts k v).get k' = opts.get k' := by
  unfold mergeKey
  split
  · exact Dict.get_set_other _ _ _ _ h
  · split
    · rfl
    · exact Dict.get_set_other _ _ _ _ h

theorem mergeKey_get_identityfile (opts : Dict) (v : Val) :
    (mergeKey opts "identityfile" v).get "identityfile"
      = some (.list (extendDedup (listOf (opts.get "identityfile")) (listOf (some v)))) := by
  unfold mergeKey
  simp only [BEq.rfl, if_true, Dict.get_set_same]

theorem mergeKey_get_same (opts : Dict) (k : String) (v : Val) (hk : k ≠ "identityfile") :
    (mergeKey opts k v).get k = if opts.has k then opts.get k else some v := by
  unfold mergeKey
  have : (k == "identityfile") = false := by simpa using hk
  simp only [this, Bool.false_eq_true, if_false]
  split
  · rfl
  · exact Dict.get_set_same _ _ _

theorem mergeKey_nodup (opts : Dict) (k : String) (v : Val) (h : NodupKeys opts) : NodupKeys (mergeKey opts k v) := by
  unfold mergeKey
  split
  · exact h.set _ _
  · split
    · exact h
    · exact h.set _ _

theorem mergeBlock_nodup (opts cfg : Dict) (h : NodupKeys opts) : NodupKeys (mergeBlock opts cfg) := by
  unfold mergeBlock
  induction cfg generalizing opts with
  | nil => exact h
  | cons e rest ih => exact ih _ (mergeKey_nodup _ _ _ h)

/-- value of key `k` after merging one applying block into the options -/
def mergedValue (opts : Dict) (k : String) : Option Val → Option Val
  | none => opts.get k
  | some v =>
    if k = "identityfile" then some (.list (extendDedup (listOf (opts.get k)) (listOf (some v))))
    else if opts.has k then opts.get k else some v

theorem mergeBlock_get (opts cfg : Dict) (k : String) (hn : NodupKeys cfg) :
    (mergeBlock opts cfg).get k = mergedValue opts k (cfg.get k) := by
  unfold mergeBlock
  induction cfg generalizing opts with
  | nil => rfl
  | cons e rest ih =>
    obtain ⟨k0, v0⟩ := e
    have hn' : NodupKeys rest := by
      unfold NodupKeys at hn ⊢
      simp only [List.map_cons, List.nodup_cons] at hn
      exact hn.2
    have hk0 : k0 ∉ rest.map (·.1) := by
      unfold NodupKeys at hn
      simp only [List.map_cons, List.nodup_cons] at hn
      exact hn.1
    simp only [List.foldl_cons]
    rw [ih _ hn']
    by_cases hk : k = k0
    · subst hk
      have hr : Dict.get rest k = none := Dict.get_none_of_not_mem_keys _ _ hk0
      simp only [hr, mergedValue, Dict.get_cons, if_true]
      by_cases hid : k = "identityfile"
      · subst hid; simp only [if_true]; exact mergeKey_get_identityfile _ _
      · simp only [hid, if_false]; exact mergeKey_get_same _ _ _ hid
    · simp only [Dict.get_cons, hk, if_false]
      cases hr : Dict.get rest k with
      | none => simp only [mergedValue]; exact mergeKey_get_other _ _ _ _ hk
      | some v =>
        simp only [mergedValue, Dict.has, mergeKey_get_other _ _ _ _ hk]
        rfl

/-! ### a whole `_lookup` pass over blocks whose applicability does not depend on the options -/

/-- merge the configs of the applying blocks, in file order -/
def mergeAll (opts : Dict) (cfgs : List Dict) : Dict := cfgs.foldl mergeBlock opts

theorem mergeAll_nodup (opts : Dict) (cfgs : List Dict) (h : NodupKeys opts) : NodupKeys (mergeAll opts cfgs) := by
  unfold mergeAll
  induction cfgs generalizing opts with
  | nil => exact h
  | cons c cs ih => exact ih _ (mergeBlock_nodup _ _ h)

/-- first-obtained value of an ordinary key: what is already there, else the first block that has the key -/
theorem mergeAll_get (opts : Dict) (cfgs : List Dict) (k : String) (hk : k ≠ "identityfile")
    (hn : ∀ c ∈ cfgs, NodupKeys c) :
    (mergeAll opts cfgs).get k =
      match opts.get k with
      | some v => some v
      | none => cfgs.findSome? (fun c => c.get k) := by
  unfold mergeAll
  induction cfgs generalizing opts with
  | nil =>
    show opts.get k = _
    cases opts.get k <;> rfl
  | cons c cs ih =>
    simp only [List.foldl_cons]
    rw [ih _ (fun c' hc' => hn c' (by simp [hc'])), mergeBlock_get _ _ _ (hn c (by simp))]
    cases hc : c.get k with
    | none =>
      simp only [mergedValue, List.findSome?_cons, hc]
    | some v =>
      simp only [mergedValue, hk, if_false, List.findSome?_cons, hc, Dict.has]
      split <;> split <;> simp_all

/-- IdentityFile: everything the applying blocks name, appended without duplicates to what is already there -/
theorem mergeAll_get_identityfile (opts : Dict) (cfgs : List Dict) (hn : ∀ c ∈ cfgs, NodupKeys c) :
    (mergeAll opts cfgs).get "identityfile" =
      if cfgs.all (fun c => (c.get "identityfile").isNone) then opts.get "identityfile"
      else some (.list (extendDedup (listOf (opts.get "identityfile"))
        (cfgs.flatMap fun c => listOf (c.get "identityfile")))) := by
  unfold mergeAll
  induction cfgs generalizing opts with
  | nil => simp
  | cons c cs ih =>
    simp only [List.foldl_cons]
    rw [ih _ (fun c' hc' => hn c' (by simp [hc'])), mergeBlock_get _ _ _ (hn c (by simp))]
    cases hc : c.get "identityfile" with
    | none =>
      simp only [mergedValue, List.all_cons, hc, Option.isNone_none, Bool.true_and, List.flatMap_cons, listOf,
        List.nil_append]
    | some v =>
      simp only [mergedValue, if_true, List.all_cons, hc, Option.isNone_some, Bool.false_and,
        Bool.false_eq_true, if_false, List.flatMap_cons]
      have hext : ∀ (a l1 l2 : List String), extendDedup (extendDedup a l1) l2 = extendDedup a (l1 ++ l2) := by
        intro a l1 l2; simp [extendDedup, List.foldl_append]
      split
      · rename_i hall
        -- no later block names an IdentityFile
        have : (cs.flatMap fun c => listOf (c.get "identityfile")) = [] := by
          rw [List.flatMap_eq_nil_iff]
          intro c' hc'
          have := List.all_eq_true.mp hall c' hc'
          simp only [Option.isNone_iff_eq_none] at this
          simp [this, listOf]
        rw [this, List.append_nil]
      · simp only [listOf, hext]

/-! ### token expansion -/

/-- `_tokenize` reads the options only through `hostname` (not when expanding HostName itself), `port`, `user` -/
theorem tokenize_congr (env : Env) (c1 c2 : Dict) (target key value : String)
    (hh : key = "hostname" ∨ c1.get "hostname" = c2.get "hostname")
    (hp : c1.get "port" = c2.get "port") (hu : c1.get "user" = c2.get "user") :
    tokenize env c1 target key value = tokenize env c2 target key value := by
  unfold tokenize
  rcases hh with hh | hh
  · subst hh; simp only [hp, hu, BEq.rfl, if_true]
  · simp only [hp, hu, hh]

theorem expandVal_congr (env : Env) (c1 c2 : Dict) (target key : String) (v : Val)
    (hh : key = "hostname" ∨ c1.get "hostname" = c2.get "hostname")
    (hp : c1.get "port" = c2.get "port") (hu : c1.get "user" = c2.get "user") :
    expandVal env c1 target key v = expandVal env c2 target key v := by
  cases v with
  | none => rfl
  | str s => simp only [expandVal, tokenize_congr env c1 c2 target key s hh hp hu]
  | list l =>
    simp only [expandVal]
    congr 1
    apply List.map_congr_left
    intro a _
    exact tokenize_congr env c1 c2 target key a hh hp hu

/-- keys without an entry in the token table are left alone (in particular Port and User) -/
theorem expandVal_no_tokens (env : Env) (c : Dict) (target key : String) (v : Val)
    (h : allowedTokens key = []) : expandVal env c target key v = v := by
  have ht : ∀ s, tokenize env c target key s = s := by
    intro s; unfold tokenize; simp [h]
  cases v with
  | none => rfl
  | str s => simp [expandVal, ht]
  | list l =>
    simp only [expandVal]
    congr 1
    have : (tokenize env c target key) = id := funext ht
    rw [this, List.map_id]

theorem allowedTokens_port : allowedTokens "port" = [] := by decide
theorem allowedTokens_user : allowedTokens "user" = [] := by decide

theorem expandKeys_append (env : Env) (target : String) (a b : List String) (c : Dict) :
    expandKeys env target (a ++ b) c = expandKeys env target b (expandKeys env target a c) := by
  induction a generalizing c with
  | nil => rfl
  | cons k ks ih =>
    simp only [List.cons_append, expandKeys]
    cases c.get k <;> simp [ih]

/-- the dict agrees with the reference `R` on what `_tokenize` reads -/
def Agree (c R : Dict) : Prop :=
  c.get "hostname" = R.get "hostname" ∧ c.get "port" = R.get "port" ∧ c.get "user" = R.get "user"

theorem expandKeys_spec (env : Env) (target : String) (R : Dict) (ks : List String) (hnd : ks.Nodup)
    (hnh : "hostname" ∉ ks) (c : Dict) (hag : Agree c R) (k : String) :
    (expandKeys env target ks c).get k =
      if k ∈ ks then (c.get k).map (expandVal env R target k) else c.get k := by
  induction ks generalizing c with
  | nil => simp [expandKeys]
  | cons k0 ks ih =>
    have hnd' : ks.Nodup := (List.nodup_cons.mp hnd).2
    have hk0 : k0 ∉ ks := (List.nodup_cons.mp hnd).1
    have hnh' : "hostname" ∉ ks := fun h => hnh (by simp [h])
    have hk0h : k0 ≠ "hostname" := fun h => hnh (by simp [h])
    simp only [expandKeys]
    cases hc : c.get k0 with
    | none =>
      simp only
      rw [ih hnd' hnh' c hag]
      by_cases hk : k = k0
      · subst hk; simp [hk0, hc]
      · simp [hk]
    | some v =>
      simp only
      have hev : expandVal env c target k0 v = expandVal env R target k0 v :=
        expandVal_congr env c R target k0 v (Or.inr hag.1) hag.2.1 hag.2.2
      rw [hev]
      have hag' : Agree (c.set k0 (expandVal env R target k0 v)) R := by
        refine ⟨?_, ?_, ?_⟩
        · rw [Dict.get_set_other _ _ _ _ (Ne.symm hk0h)]; exact hag.1
        · by_cases hp : k0 = "port"
          · subst hp
            rw [Dict.get_set_same, expandVal_no_tokens env R target "port" v allowedTokens_port, ← hc]
            exact hag.2.1
          · rw [Dict.get_set_other _ _ _ _ (Ne.symm hp)]; exact hag.2.1
        · by_cases hu : k0 = "user"
          · subst hu
            rw [Dict.get_set_same, expandVal_no_tokens env R target "user" v allowedTokens_user, ← hc]
            exact hag.2.2
          · rw [Dict.get_set_other _ _ _ _ (Ne.symm hu)]; exact hag.2.2
      rw [ih hnd' hnh' _ hag']
      by_cases hk : k = k0
      · subst hk
        simp [hk0, Dict.get_set_same, hc]
      · simp only [List.mem_cons, hk, false_or]
        rw [Dict.get_set_other _ _ _ _ hk]

theorem filter_eq_of_nodup (l : List String) (a : String) (h : l.Nodup) :
    l.filter (· == a) = if a ∈ l then [a] else [] := by
  induction l with
  | nil => rfl
  | cons x xs ih =>
    have hx : x ∉ xs := (List.nodup_cons.mp h).1
    have ih' := ih (List.nodup_cons.mp h).2
    by_cases hxa : x = a
    · subst hxa
      simp only [List.filter_cons, BEq.rfl, if_true, List.mem_cons, true_or, ih', hx, if_false]
    · have : (x == a) = false := by simpa using hxa
      have hne : ¬ a = x := fun e => hxa e.symm
      simp only [List.filter_cons, this, Bool.false_eq_true, if_false, ih', List.mem_cons, hne, false_or]

theorem mem_keys_iff (d : Dict) (k : String) : k ∈ d.map (·.1) ↔ ∃ v, d.get k = some v := by
  induction d with
  | nil => simp [Dict.get_nil]
  | cons e rest ih =>
    obtain ⟨k0, v0⟩ := e
    simp only [List.map_cons, List.mem_cons, Dict.get_cons]
    by_cases h : k = k0
    · simp [h]
    · simp [h, ih]

end PV.Config
