/-
  Helper lemmas for PV.Model.HandleProg (property theorems: PV/Props/C31.lean).
-/
import PV.Model.HandleProg
namespace PV.HandleProg
open PV

theorem prefix_length (f : Bytes) (o : Nat) : (f.take o ++ zeros (o - f.length)).length = o := by
  simp [zeros, List.length_take]; omega

/-- two adjacent writes are one write of the concatenation -/
theorem writeAt_adjacent (f : Bytes) (o : Nat) (a b : Bytes) :
    writeAt (writeAt f o a) (o + a.length) b = writeAt f o (a ++ b) := by
  have hP := prefix_length f o
  generalize hPd : f.take o ++ zeros (o - f.length) = P at hP
  have hg : writeAt f o a = (P ++ a) ++ f.drop (o + a.length) := by simp [writeAt, hPd]
  have hlen : (P ++ a).length = o + a.length := by simp [hP]
  have htake : (writeAt f o a).take (o + a.length) = P ++ a := by
    rw [hg]; exact List.take_left' hlen
  have hge : o + a.length - (writeAt f o a).length = 0 := by
    rw [hg]; simp [hP]
  have hdrop : (writeAt f o a).drop (o + a.length + b.length) = f.drop (o + a.length + b.length) := by
    rw [hg, ← List.drop_drop, List.drop_left' hlen, List.drop_drop]
  rw [show writeAt (writeAt f o a) (o + a.length) b
      = ((writeAt f o a).take (o + a.length) ++ zeros (o + a.length - (writeAt f o a).length)) ++ b
        ++ (writeAt f o a).drop (o + a.length + b.length) from rfl]
  rw [htake, hge, hdrop]
  simp only [zeros, List.replicate_zero, List.append_nil]
  rw [← hPd]
  simp [writeAt, List.append_assoc, Nat.add_assoc, zeros]

theorem apply_adjacent (f : Bytes) (ap : Bool) (o : Nat) (a b : Bytes) :
    apply (apply f ap o a) ap (o + a.length) b = apply f ap o (a ++ b) := by
  by_cases ha : a = []
  · subst ha; simp [apply]
  · by_cases hb : b = []
    · subst hb; simp [apply, ha]
    · have hab : a ++ b ≠ [] := by simp [ha]
      cases ap
      · simp only [apply, ha, hb, hab, if_false, Bool.false_eq_true]
        exact writeAt_adjacent f o a b
      · simp [apply, ha, hb]

/-- the server file once everything pending has been written -/
def settled (s : St) : Bytes := apply s.file s.append s.realpos s.wbuf

theorem flush_settled (s : St) :
    (flush s).1.file = settled s ∧ (flush s).1.wbuf = [] ∧
      (flush s).1.realpos = s.realpos + s.wbuf.length ∧ (flush s).1.append = s.append ∧
      (flush s).1.bufsize = s.bufsize := by
  unfold flush settled
  by_cases h : s.wbuf = []
  · simp [h, apply]
  · simp [h]

/-- the invariant tying the buffered handle to the local-file reference -/
def Inv (s : St) (r : Ref) : Prop :=
  r.file = settled s ∧ r.pos = s.realpos + s.wbuf.length ∧ r.append = s.append ∧ (s.bufsize = 0 → s.wbuf = [])

theorem step_bufsize (s : St) (op : Op) : (step s op).1.bufsize = s.bufsize := by
  cases op with
  | attr => rfl
  | close => exact (flush_settled s).2.2.2.2
  | truncate n => simp only [step]; exact (flush_settled s).2.2.2.2
  | write d =>
    simp only [step]
    by_cases hb : s.bufsize = 0
    · by_cases hd : d = [] <;> simp [hb, hd]
    · simp only [hb, if_false]
      split
      · exact (flush_settled _).2.2.2.2
      · rfl

theorem step_inv (s : St) (r : Ref) (op : Op) (h : Inv s r) : Inv (step s op).1 (refStep r op) := by
  obtain ⟨hf, hp, ha, hu⟩ := h
  cases op with
  | attr => exact ⟨hf, hp, ha, hu⟩
  | close =>
    obtain ⟨f1, f2, f3, f4, _⟩ := flush_settled s
    refine ⟨?_, ?_, ?_, fun _ => f2⟩
    · simp only [step, refStep, settled, f1, f2, apply, if_true]; exact hf
    · simp only [step, refStep, f2, f3, List.length_nil, Nat.add_zero]; exact hp
    · simp only [step, refStep, f4]; exact ha
  | truncate n =>
    obtain ⟨f1, f2, f3, f4, _⟩ := flush_settled s
    refine ⟨?_, ?_, ?_, fun _ => f2⟩
    · simp only [step, refStep, settled, f2, apply, if_true, f1, hf]
    · simp only [step, refStep, f2, f3, List.length_nil, Nat.add_zero]; exact hp
    · simp only [step, refStep, f4]; exact ha
  | write d =>
    by_cases hb : s.bufsize = 0
    · have hw := hu hb
      have hfile : r.file = s.file := by rw [hf]; simp [settled, hw, apply]
      have hpos : r.pos = s.realpos := by rw [hp, hw]; rfl
      by_cases hd : d = []
      · subst hd
        refine ⟨?_, ?_, ?_, ?_⟩ <;> simp only [step, hb, if_true, refStep, apply, List.length_nil, Nat.add_zero]
        · exact hf
        · exact hp
        · exact ha
        · exact fun _ => hw
      · refine ⟨?_, ?_, ?_, ?_⟩ <;> simp only [step, hb, hd, if_true, if_false, refStep]
        · simp only [settled, hw, apply, if_true]
          rw [hfile, hpos, ha]
        · rw [hpos, hw]; simp
        · exact ha
        · exact fun _ => hw
    · -- buffered: the data joins the pending bytes; flushing now or later gives the same settled file
      have hadj := apply_adjacent s.file s.append s.realpos s.wbuf d
      have hsett : settled { s with wbuf := s.wbuf ++ d } = apply r.file r.append r.pos d := by
        rw [hf, hp, ha]; simp only [settled]; exact hadj.symm
      simp only [step, hb, if_false]
      split
      · obtain ⟨f1, f2, f3, f4, _⟩ := flush_settled { s with wbuf := s.wbuf ++ d }
        refine ⟨?_, ?_, ?_, fun _ => f2⟩
        · simp only [refStep, settled, f2, apply, if_true, f1]; exact hsett.symm
        · simp only [refStep, f2, f3, List.length_nil, Nat.add_zero, List.length_append, hp]; omega
        · simp only [refStep, f4]; exact ha
      · refine ⟨?_, ?_, ?_, fun h0 => absurd h0 hb⟩
        · simp only [refStep]; exact hsett.symm
        · simp only [refStep, List.length_append, hp]; omega
        · exact ha

theorem run_inv (ops : List Op) : ∀ (s : St) (r : Ref), Inv s r → Inv (run s ops).1 (refRun r ops) := by
  induction ops with
  | nil => intro s r h; exact h
  | cons op rest ih =>
    intro s r h
    have := ih (step s op).1 (refStep r op) (step_inv s r op h)
    simpa [run, refRun] using this

end PV.HandleProg
