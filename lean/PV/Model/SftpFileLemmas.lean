/-
  PV.Model.SftpFileLemmas — helpers for PV.Props.C27: overlay algebra, `_write_all` against the server model.
-/
import PV.Model.PyFile
import PV.Model.ReadGeneric
namespace PV.SftpFile
open PV PV.BufFile

theorem overlay_nil (c : Bytes) (o : Nat) : overlay c o [] = c := by simp [overlay]

theorem overlay_length_ge (c : Bytes) (o : Nat) (d : Bytes) (h : d ≠ []) :
    (overlay c o d).length = max c.length (o + d.length) := by
  have : d.isEmpty = false := by simpa using h
  simp only [overlay, this, Bool.false_eq_true, if_false, List.length_append, List.length_take,
    List.length_replicate, List.length_drop]
  omega

/-- two consecutive overwrites are one overwrite of the concatenation -/
theorem overlay_append (c : Bytes) (o : Nat) (a b : Bytes) :
    overlay (overlay c o a) (o + a.length) b = overlay c o (a ++ b) := by
  by_cases ha : a = []
  · subst ha; simp [overlay_nil]
  by_cases hb : b = []
  · subst hb; simp [overlay_nil]
  have ha' : a.isEmpty = false := by simpa using ha
  have hb' : b.isEmpty = false := by simpa using hb
  have hab : (a ++ b).isEmpty = false := by simp [ha]
  have hlen : (c.take o ++ List.replicate (o - c.length) 0).length = o := by
    simp [List.length_take]; omega
  simp only [overlay, ha', hb', hab, Bool.false_eq_true, if_false]
  -- name the pieces
  generalize hpre : c.take o ++ List.replicate (o - c.length) 0 = pre at hlen
  have e1 : (pre ++ a ++ c.drop (o + a.length)).take (o + a.length) = pre ++ a := by
    rw [List.take_append_of_le_length (by simp [hlen])]
    exact List.take_of_length_le (by simp [hlen])
  have e2 : (o + a.length) - (pre ++ a ++ c.drop (o + a.length)).length = 0 := by
    simp [hlen]
  have e3 : (pre ++ a ++ c.drop (o + a.length)).drop (o + a.length + b.length) = c.drop (o + (a ++ b).length) := by
    have hl : (pre ++ a).length = o + a.length := by simp [hlen]
    rw [List.drop_append, List.drop_of_length_le (by omega), hl, List.drop_drop, List.nil_append]
    congr 1
    simp only [List.length_append]
    omega
  rw [e1, e2, e3]
  simp [List.append_assoc]

/-- the handle's offset cache agrees with the file object's position -/
def Coherent (s : Srv) : Prop := s.tell = none ∨ s.tell = some s.fpos

theorem srvWrite_noappend (s : Srv) (off : Nat) (d : Bytes) (hc : Coherent s) (ha : s.append = false) :
    (srvWrite s off d).content = overlay s.content off d ∧ Coherent (srvWrite s off d) ∧
    (srvWrite s off d).append = false ∧ (srvWrite s off d).hopen = s.hopen ∧
    (srvWrite s off d).truncZero = s.truncZero ∧ (srvWrite s off d).didRead = s.didRead ∧
    (srvWrite s off d).stale = s.stale := by
  unfold srvWrite
  simp only [ha, Bool.false_eq_true, if_false]
  have ht : s.tell.getD s.fpos = s.fpos := by
    rcases hc with h | h <;> simp [h]
  rw [ht]
  by_cases h : off = s.fpos
  · subst h; simp [Coherent]
  · simp [h, Coherent]

theorem srvWrite_append (s : Srv) (off : Nat) (d : Bytes) (ha : s.append = true) :
    (srvWrite s off d).content = s.content ++ d ∧ Coherent (srvWrite s off d) ∧
    (srvWrite s off d).append = true ∧ (srvWrite s off d).hopen = s.hopen ∧
    (srvWrite s off d).truncZero = s.truncZero ∧ (srvWrite s off d).didRead = s.didRead ∧
    (srvWrite s off d).stale = s.stale := by
  unfold srvWrite
  simp [ha, Coherent]

end PV.SftpFile

namespace PV.SftpFile
open PV PV.BufFile

/-- server-side facts no write changes -/
def srvSame (a b : Srv) : Prop :=
  a.append = b.append ∧ a.hopen = b.hopen ∧ a.truncZero = b.truncZero ∧ a.didRead = b.didRead ∧ a.stale = b.stale

/-- client-side facts `_write_all` does not change -/
def cliSame (a b : BF Srv) : Prop :=
  a.rd = b.rd ∧ a.wr = b.wr ∧ a.app = b.app ∧ a.bin = b.bin ∧ a.buffered = b.buffered ∧ a.lineBuf = b.lineBuf ∧
  a.bufsize = b.bufsize ∧ a.dflt = b.dflt ∧ a.rbuf = b.rbuf ∧ a.wbuf = b.wbuf ∧ a.closed = b.closed

theorem sftpOps_write (maxReq : Nat) (s : Srv) (p : Int) (d : Bytes) :
    (sftpOps maxReq).write s p d =
      if p < 0 then (s, .error (.stream eStruct))
      else (srvWrite s p.toNat (d.take (min d.length maxReq)), .ok (min d.length maxReq)) := rfl

theorem writeAllLoop_sftp_noapp (maxReq : Nat) (hm : 1 ≤ maxReq) (fuel : Nat) (f : BF Srv) (data : Bytes)
    (hf : data.length < fuel) (h0 : 0 ≤ f.realpos) (hc : Coherent f.s) (ha : f.app = false) (hsa : f.s.append = false) :
    (writeAllLoop (sftpOps maxReq) fuel f data).2 = .ok () ∧
    (writeAllLoop (sftpOps maxReq) fuel f data).1.s.content = overlay f.s.content f.realpos.toNat data ∧
    (writeAllLoop (sftpOps maxReq) fuel f data).1.pos = f.pos + data.length ∧
    (writeAllLoop (sftpOps maxReq) fuel f data).1.realpos = f.realpos + data.length ∧
    (writeAllLoop (sftpOps maxReq) fuel f data).1.size = f.size ∧
    Coherent (writeAllLoop (sftpOps maxReq) fuel f data).1.s ∧
    srvSame (writeAllLoop (sftpOps maxReq) fuel f data).1.s f.s ∧
    cliSame (writeAllLoop (sftpOps maxReq) fuel f data).1 f := by
  induction fuel generalizing f data with
  | zero => omega
  | succ fuel ih =>
    rw [writeAllLoop]
    by_cases he : data.isEmpty = true
    · have : data = [] := by simpa using he
      subst this
      simp [overlay_nil, hc, srvSame, cliSame]
    · have hne : data ≠ [] := by simpa using he
      have hlen : 0 < data.length := List.length_pos_iff.2 hne
      have hk : 1 ≤ min data.length maxReq := by omega
      have hk0 : (min data.length maxReq == 0) = false := beq_false_of_ne (by omega)
      have hneg : ¬ f.realpos < 0 := by omega
      obtain ⟨w1, w2, w3, w4, w5, w6, w7⟩ := srvWrite_noappend f.s f.realpos.toNat (data.take (min data.length maxReq)) hc hsa
      simp only [he, Bool.false_eq_true, if_false, sftpOps_write, hneg, hk0]
      have hr : (f.realpos + (min data.length maxReq : Nat)).toNat = f.realpos.toNat + (data.take (min data.length maxReq)).length := by
        simp only [List.length_take]; omega
      have hd : (data.drop (min data.length maxReq)).length < fuel := by
        simp only [List.length_drop]; omega
      split
      · rename_i happ
        exact absurd happ (by simp [ha])
      · have := ih
          { f with s := srvWrite f.s f.realpos.toNat (data.take (min data.length maxReq)),
                   pos := f.pos + (min data.length maxReq : Nat),
                   realpos := f.realpos + (min data.length maxReq : Nat) }
          (data.drop (min data.length maxReq)) hd (by simp only; omega) w2 ha w3
        obtain ⟨i1, i2, i3, i4, i5, i6, i7, i8⟩ := this
        refine ⟨i1, ?_, ?_, ?_, i5, i6, ?_, i8⟩
        · rw [i2]; simp only; rw [w1, hr, overlay_append, List.take_append_drop]
        · rw [i3]; simp only [List.length_drop]; omega
        · rw [i4]; simp only [List.length_drop]; omega
        · obtain ⟨a, b, c, d, e⟩ := i7
          exact ⟨by rw [a, w3, hsa], b.trans w4, c.trans w5, d.trans w6, e.trans w7⟩

end PV.SftpFile

namespace PV.SftpFile
open PV PV.BufFile

theorem dropReadAhead_nil {σ : Type} (o : Ops σ) (f : BF σ) (d : Bytes) (h : f.rbuf = [] ∨ d = []) :
    dropReadAhead o f d = f := by
  rcases h with h | h <;> simp [dropReadAhead, h]

theorem flush_nil {σ : Type} (o : Ops σ) (f : BF σ) (h : f.wbuf = []) : flush o f = ({ f with wbuf := [] }, .ok ()) := by
  unfold flush writeAll
  rw [h, dropReadAhead_nil o f [] (Or.inr rfl)]
  simp [writeAllLoop]

theorem writeAll_sftp_noapp (maxReq : Nat) (hm : 1 ≤ maxReq) (f : BF Srv) (data : Bytes)
    (h0 : 0 ≤ f.realpos) (hc : Coherent f.s) (ha : f.app = false) (hsa : f.s.append = false) (hrb : f.rbuf = []) :
    (writeAll (sftpOps maxReq) f data).2 = .ok () ∧
    (writeAll (sftpOps maxReq) f data).1.s.content = overlay f.s.content f.realpos.toNat data ∧
    (writeAll (sftpOps maxReq) f data).1.pos = f.pos + data.length ∧
    (writeAll (sftpOps maxReq) f data).1.realpos = f.realpos + data.length ∧
    (writeAll (sftpOps maxReq) f data).1.size = f.size ∧
    Coherent (writeAll (sftpOps maxReq) f data).1.s ∧
    srvSame (writeAll (sftpOps maxReq) f data).1.s f.s ∧
    cliSame (writeAll (sftpOps maxReq) f data).1 f := by
  unfold writeAll
  rw [dropReadAhead_nil _ f data (Or.inl hrb)]
  exact writeAllLoop_sftp_noapp maxReq hm (data.length + 1) f data (by omega) h0 hc ha hsa

theorem flush_sftp_noapp (maxReq : Nat) (hm : 1 ≤ maxReq) (f : BF Srv)
    (h0 : 0 ≤ f.realpos) (hc : Coherent f.s) (ha : f.app = false) (hsa : f.s.append = false) (hrb : f.rbuf = []) :
    (flush (sftpOps maxReq) f).2 = .ok () ∧
    (flush (sftpOps maxReq) f).1.s.content = overlay f.s.content f.realpos.toNat f.wbuf ∧
    (flush (sftpOps maxReq) f).1.pos = f.pos + f.wbuf.length ∧
    (flush (sftpOps maxReq) f).1.realpos = f.realpos + f.wbuf.length ∧
    (flush (sftpOps maxReq) f).1.size = f.size ∧
    Coherent (flush (sftpOps maxReq) f).1.s ∧
    srvSame (flush (sftpOps maxReq) f).1.s f.s ∧
    (flush (sftpOps maxReq) f).1.wbuf = [] ∧
    cliSame (flush (sftpOps maxReq) f).1 { f with wbuf := [] } := by
  unfold flush
  obtain ⟨h1, h2, h3, h4, h5, h6, h7, h8⟩ := writeAll_sftp_noapp maxReq hm f f.wbuf h0 hc ha hsa hrb
  rcases hres : writeAll (sftpOps maxReq) f f.wbuf with ⟨f1, r1⟩
  rw [hres] at h1 h2 h3 h4 h5 h6 h7 h8
  simp only at h1 h2 h3 h4 h5 h6 h7 h8
  subst h1
  obtain ⟨a, b, c, d, e, g, h, i, j, _, l⟩ := h8
  exact ⟨by triv, h2, h3, h4, h5, h6, h7, by triv, ⟨a, b, c, d, e, g, h, i, j, by triv, l⟩⟩

end PV.SftpFile

namespace PV.SftpFile
open PV PV.BufFile

/-! ## the SFTP read side satisfies the generic read laws -/

theorem drop_take_length {α : Type} (r : List α) (k : Nat) : r.drop (r.take k).length = r.drop k := by
  rw [List.length_take]
  by_cases h : k ≤ r.length
  · rw [Nat.min_eq_left h]
  · rw [Nat.min_eq_right (by omega), List.drop_of_length_le (Nat.le_refl _), List.drop_of_length_le (by omega)]

theorem srvRead_spec (s : Srv) (off k : Nat) (hc : Coherent s) :
    (srvRead s off k).2 = (s.content.drop off).take k ∧
    (srvRead s off k).1.content = s.content ∧ Coherent (srvRead s off k).1 ∧
    (srvRead s off k).1.append = s.append ∧ (srvRead s off k).1.hopen = s.hopen ∧
    (srvRead s off k).1.truncZero = s.truncZero ∧ (srvRead s off k).1.stale = s.stale := by
  unfold srvRead
  have ht : s.tell.getD s.fpos = s.fpos := by
    rcases hc with h | h <;> simp [h]
  rw [ht]
  by_cases h : off = s.fpos
  · subst h; simp [Coherent]
  · simp [h, Coherent]

/-- what SFTP reads preserve on the server -/
def srvFrame (a b : Srv) : Prop :=
  b.content = a.content ∧ b.append = a.append ∧ b.hopen = a.hopen ∧ b.truncZero = a.truncZero ∧ b.stale = a.stale

def sftpLaws (maxReq : Nat) (hm : 1 ≤ maxReq) : ReadLaws (sftpOps maxReq) where
  rest s rp := s.content.drop rp.toNat
  ok s rp := 0 ≤ rp ∧ Coherent s ∧ s.stale = false
  fr := srvFrame
  fr_refl _ := ⟨rfl, rfl, rfl, rfl, rfl⟩
  fr_trans a b c h1 h2 := ⟨h2.1.trans h1.1, h2.2.1.trans h1.2.1, h2.2.2.1.trans h1.2.2.1,
    h2.2.2.2.1.trans h1.2.2.2.1, h2.2.2.2.2.trans h1.2.2.2.2⟩
  read_spec s rp n hok hn := by
    obtain ⟨h0, hc, hst⟩ := hok
    obtain ⟨r1, r2, r3, r4, r5, r6, r7⟩ := srvRead_spec s rp.toNat (min n maxReq) hc
    have hneg : ¬ rp < 0 := by omega
    have hrd : (sftpOps maxReq).read s rp n
        = ((srvRead s rp.toNat (min n maxReq)).1, .ok (srvRead s rp.toNat (min n maxReq)).2) := by
      simp only [sftpOps, hneg, if_false, hst, Bool.false_eq_true]
    refine ⟨min n maxReq, by omega, by omega, by rw [hrd, r1], ?_, ?_, ?_⟩
    · rw [hrd]; exact ⟨by omega, r3, by rw [r7]; exact hst⟩
    · rw [hrd]
      simp only
      rw [r2]
      have : (rp + ((s.content.drop rp.toNat).take (min n maxReq)).length).toNat
          = rp.toNat + ((s.content.drop rp.toNat).take (min n maxReq)).length := by omega
      rw [this, ← List.drop_drop, drop_take_length]
    · rw [hrd]; exact ⟨r2, r4, r5, r6, r7⟩
  bound_spec s rp _ := by simp [sftpOps]

/-! ## `_write_all` in append mode -/

theorem writeAllLoop_sftp_app (maxReq : Nat) (hm : 1 ≤ maxReq) (fuel : Nat) (f : BF Srv) (data : Bytes)
    (hf : data.length < fuel) (h0 : 0 ≤ f.realpos) (hsz : 0 ≤ f.size) (hc : Coherent f.s)
    (ha : f.app = true) (hsa : f.s.append = true) :
    (writeAllLoop (sftpOps maxReq) fuel f data).2 = .ok () ∧
    (writeAllLoop (sftpOps maxReq) fuel f data).1.s.content = f.s.content ++ data ∧
    (data ≠ [] → (writeAllLoop (sftpOps maxReq) fuel f data).1.pos = f.size + data.length ∧
                 (writeAllLoop (sftpOps maxReq) fuel f data).1.realpos = f.size + data.length) ∧
    (data = [] → (writeAllLoop (sftpOps maxReq) fuel f data).1.pos = f.pos ∧
                 (writeAllLoop (sftpOps maxReq) fuel f data).1.realpos = f.realpos) ∧
    (writeAllLoop (sftpOps maxReq) fuel f data).1.size = f.size + data.length ∧
    Coherent (writeAllLoop (sftpOps maxReq) fuel f data).1.s ∧
    srvSame (writeAllLoop (sftpOps maxReq) fuel f data).1.s f.s ∧
    cliSame (writeAllLoop (sftpOps maxReq) fuel f data).1 f := by
  induction fuel generalizing f data with
  | zero => omega
  | succ fuel ih =>
    rw [writeAllLoop]
    by_cases he : data.isEmpty = true
    · have : data = [] := by simpa using he
      subst this
      simp [hc, srvSame, cliSame]
    · have hne : data ≠ [] := by simpa using he
      have hlen : 0 < data.length := List.length_pos_iff.2 hne
      have hk : 1 ≤ min data.length maxReq := by omega
      have hk0 : (min data.length maxReq == 0) = false := beq_false_of_ne (by omega)
      have hneg : ¬ f.realpos < 0 := by omega
      obtain ⟨w1, w2, w3, w4, w5, w6, w7⟩ := srvWrite_append f.s f.realpos.toNat (data.take (min data.length maxReq)) hsa
      simp only [he, Bool.false_eq_true, if_false, sftpOps_write, hneg, hk0]
      have hd : (data.drop (min data.length maxReq)).length < fuel := by
        simp only [List.length_drop]; omega
      split
      · have := ih
          { f with s := srvWrite f.s f.realpos.toNat (data.take (min data.length maxReq)),
                   size := f.size + (min data.length maxReq : Nat),
                   pos := f.size + (min data.length maxReq : Nat),
                   realpos := f.size + (min data.length maxReq : Nat) }
          (data.drop (min data.length maxReq)) hd (by simp only; omega) (by simp only; omega) w2 ha w3
        obtain ⟨i1, i2, i3, i4, i5, i6, i7, i8⟩ := this
        simp only at i1 i2 i3 i4 i5 i6 i7 i8
        refine ⟨i1, ?_, fun _ => ?_, fun h => absurd h hne, ?_, i6, ?_, i8⟩
        · rw [i2, w1, List.append_assoc, List.take_append_drop]
        · by_cases hr : data.drop (min data.length maxReq) = []
          · have hl : (data.drop (min data.length maxReq)).length = 0 := by rw [hr]; rfl
            rw [List.length_drop] at hl
            obtain ⟨j1, j2⟩ := i4 hr
            rw [j1, j2]
            have : (min data.length maxReq : Nat) = data.length := by omega
            rw [this]; exact ⟨rfl, rfl⟩
          · obtain ⟨j1, j2⟩ := i3 hr
            rw [j1, j2]; simp only [List.length_drop]
            constructor <;> omega
        · rw [i5]; simp only [List.length_drop]; omega
        · obtain ⟨a, b, c, d, e⟩ := i7
          exact ⟨by rw [a, w3, hsa], b.trans w4, c.trans w5, d.trans w6, e.trans w7⟩
      · rename_i happ
        exact absurd ha (by simpa using happ)

/-! ## `_write_all` as the refinement needs it (read-ahead dropped first; append or not) -/

/-- position / server facts every write relies on -/
structure WPre (f : BF Srv) : Prop where
  pos0 : 0 ≤ f.pos
  rp : f.realpos = f.pos + f.rbuf.length
  coh : Coherent f.s
  sapp : f.s.append = f.app
  asize : f.app = true → f.size = f.s.content.length

theorem dropReadAhead_sftp (maxReq : Nat) (f : BF Srv) (data : Bytes) (hne : data ≠ [])
    (hrp : f.realpos = f.pos + f.rbuf.length) :
    dropReadAhead (sftpOps maxReq) f data = { f with rbuf := [], realpos := f.pos } := by
  have he : data.isEmpty = false := by simpa using hne
  unfold dropReadAhead
  by_cases hr : f.rbuf = []
  · have : f.realpos = f.pos := by rw [hrp, hr]; simp
    simp only [he, hr, List.isEmpty_nil, Bool.not_true, Bool.and_false, Bool.false_and, Bool.false_eq_true, if_false]
    cases f; simp_all
  · have hr' : f.rbuf.isEmpty = false := by simpa using hr
    simp [he, hr', sftpOps]

/-- client-side fields a write-out leaves alone (the read-ahead buffer is emptied) -/
def cliSameW (a b : BF Srv) : Prop :=
  a.rd = b.rd ∧ a.wr = b.wr ∧ a.app = b.app ∧ a.bin = b.bin ∧ a.buffered = b.buffered ∧ a.lineBuf = b.lineBuf ∧
  a.bufsize = b.bufsize ∧ a.dflt = b.dflt ∧ a.wbuf = b.wbuf ∧ a.closed = b.closed

theorem writeAll_sftp (maxReq : Nat) (hm : 1 ≤ maxReq) (f : BF Srv) (data : Bytes) (h : WPre f) (hne : data ≠ []) :
    (writeAll (sftpOps maxReq) f data).2 = .ok () ∧
    (writeAll (sftpOps maxReq) f data).1.s.content
      = (if f.app = true then f.s.content ++ data else overlay f.s.content f.pos.toNat data) ∧
    (writeAll (sftpOps maxReq) f data).1.pos
      = (if f.app = true then ((f.s.content.length + data.length : Nat) : Int) else f.pos + data.length) ∧
    (writeAll (sftpOps maxReq) f data).1.realpos = (writeAll (sftpOps maxReq) f data).1.pos ∧
    (writeAll (sftpOps maxReq) f data).1.rbuf = [] ∧
    (f.app = true → (writeAll (sftpOps maxReq) f data).1.size = (f.s.content.length + data.length : Nat)) ∧
    Coherent (writeAll (sftpOps maxReq) f data).1.s ∧
    srvSame (writeAll (sftpOps maxReq) f data).1.s f.s ∧
    cliSameW (writeAll (sftpOps maxReq) f data).1 f := by
  unfold writeAll
  rw [dropReadAhead_sftp maxReq f data hne h.rp]
  by_cases ha : f.app = true
  · have hsa : f.s.append = true := by rw [h.sapp, ha]
    have hsz := h.asize ha
    obtain ⟨i1, i2, i3, _, i5, i6, i7, i8⟩ := writeAllLoop_sftp_app maxReq hm (data.length + 1)
      { f with rbuf := [], realpos := f.pos } data (by omega) h.pos0 (by simp only; omega) h.coh ha hsa
    obtain ⟨j1, j2⟩ := i3 hne
    simp only at i1 i2 j1 j2 i5 i6 i7 i8
    obtain ⟨c1, c2, c3, c4, c5, c6, c7, c8, c9, c10, c11⟩ := i8
    rw [if_pos ha, if_pos ha]
    refine ⟨i1, i2, by rw [j1, hsz]; push_cast; rfl, by rw [j2, j1], c9, fun _ => by rw [i5, hsz]; push_cast; rfl, i6, i7,
      ⟨c1, c2, c3, c4, c5, c6, c7, c8, c10, c11⟩⟩
  · have ha' : f.app = false := by simpa using ha
    have hsa : f.s.append = false := by rw [h.sapp, ha']
    obtain ⟨i1, i2, i3, i4, _, i6, i7, i8⟩ := writeAllLoop_sftp_noapp maxReq hm (data.length + 1)
      { f with rbuf := [], realpos := f.pos } data (by omega) h.pos0 h.coh ha' hsa
    simp only at i1 i2 i3 i4 i6 i7 i8
    obtain ⟨c1, c2, c3, c4, c5, c6, c7, c8, c9, c10, c11⟩ := i8
    rw [if_neg ha, if_neg ha]
    exact ⟨i1, i2, i3, by rw [i4, i3], c9, fun h => absurd h ha, i6, i7, ⟨c1, c2, c3, c4, c5, c6, c7, c8, c10, c11⟩⟩

end PV.SftpFile

namespace PV.SftpFile
open PV PV.BufFile

/-- `_write_all` neither reads nor changes the write buffer and the buffering flag -/
theorem writeAllLoop_irrelevant {σ : Type} (o : Ops σ) (fuel : Nat) (f : BF σ) (d w : Bytes) (b : Bool) :
    writeAllLoop o fuel { f with wbuf := w, buffered := b } d
      = ({ (writeAllLoop o fuel f d).1 with wbuf := w, buffered := b }, (writeAllLoop o fuel f d).2) := by
  induction fuel generalizing f d with
  | zero => rfl
  | succ fuel ih =>
    rw [writeAllLoop, writeAllLoop]
    by_cases he : d.isEmpty = true
    · simp only [he, if_true]
    · simp only [he, Bool.false_eq_true, if_false]
      rcases o.write f.s f.realpos d with ⟨s', r⟩
      cases r with
      | error e => rfl
      | ok count =>
        simp only
        by_cases hc : (count == 0) = true
        · simp only [hc, if_true]
        · simp only [hc, Bool.false_eq_true, if_false]
          split
          · exact ih { f with s := s', size := f.size + count, pos := f.size + count, realpos := f.size + count }
              (d.drop count)
          · exact ih { f with s := s', pos := f.pos + count, realpos := f.realpos + count } (d.drop count)

theorem writeAll_irrelevant {σ : Type} (o : Ops σ) (f : BF σ) (d w : Bytes) (b : Bool) :
    writeAll o { f with wbuf := w, buffered := b } d
      = ({ (writeAll o f d).1 with wbuf := w, buffered := b }, (writeAll o f d).2) := by
  unfold writeAll
  have : dropReadAhead o { f with wbuf := w, buffered := b } d
      = { dropReadAhead o f d with wbuf := w, buffered := b } := by
    unfold dropReadAhead
    split <;> rfl
  rw [this]
  exact writeAllLoop_irrelevant o _ _ d w b

theorem writeAll_nil {σ : Type} (o : Ops σ) (f : BF σ) : writeAll o f [] = (f, .ok ()) := by
  unfold writeAll
  rw [dropReadAhead_nil o f [] (Or.inr rfl)]
  simp [writeAllLoop]

end PV.SftpFile
