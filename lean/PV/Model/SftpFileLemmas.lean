/-
  PV.Model.SftpFileLemmas — helpers for PV.Props.C27: overlay algebra, `_write_all` against the server model.
-/
import PV.Model.PyFile
namespace PV.SftpFile
open PV PV.BufFile

theorem overlay_nil (c : Bytes) (o : Nat) : overlay c o [] = c := by simp [overlay]

theorem overlay_length_ge (c : Bytes) (o : Nat) (d : Bytes) (h : d ≠ []) :
    (overlay c o d).length = max c.length (o + d.length) := by
  have : d.isEmpty = false := by simpa using h
  simp only [overlay, this, Bool.false_eq_true, if_false, List.length_append, List.length_take,
    List.length_replicate, List.length_drop]
  omega

/-- two consecutive overwrites are one overwrite of the concatenation -/
theorem overlay_append (c : Bytes) (o : Nat) (a b : Bytes) :
    overlay (overlay c o a) (o + a.length) b = overlay c o (a ++ b) := by
  by_cases ha : a = []
  · subst ha; simp [overlay_nil]
  by_cases hb : b = []
  · subst hb; simp [overlay_nil]
  have ha' : a.isEmpty = false := by simpa using ha
  have hb' : b.isEmpty = false := by simpa using hb
  have hab : (a ++ b).isEmpty = false := by simp [ha]
  have hlen : (c.take o ++ List.replicate (o - c.length) 0).length = o := by
    simp [List.length_take]; omega
  simp only [overlay, ha', hb', hab, Bool.false_eq_true, if_false]
  -- name the pieces
  generalize hpre : c.take o ++ List.replicate (o - c.length) 0 = pre at hlen
  have e1 : (pre ++ a ++ c.drop (o + a.length)).take (o + a.length) = pre ++ a := by
    rw [List.take_append_of_le_length (by simp [hlen])]
    exact List.take_of_length_le (by simp [hlen])
  have e2 : (o + a.length) - (pre ++ a ++ c.drop (o + a.length)).length = 0 := by
    simp [hlen]
  have e3 : (pre ++ a ++ c.drop (o + a.length)).drop (o + a.length + b.length) = c.drop (o + (a ++ b).length) := by
    have hl : (pre ++ a).length = o + a.length := by simp [hlen]
    rw [List.drop_append, List.drop_of_length_le (by omega), hl, List.drop_drop, List.nil_append]
    congr 1
    simp only [List.length_append]
    omega
  rw [e1, e2, e3]
  simp [List.append_assoc]

/-- the handle's offset cache agrees with the file object's position -/
def Coherent (s : Srv) : Prop := s.tell = none ∨ s.tell = some s.fpos

theorem srvWrite_noappend (s : Srv) (off : Nat) (d : Bytes) (hc : Coherent s) (ha : s.append = false) :
    (srvWrite s off d).content = overlay s.content off d ∧ Coherent (srvWrite s off d) ∧
    (srvWrite s off d).append = false ∧ (srvWrite s off d).hopen = s.hopen ∧
    (srvWrite s off d).truncZero = s.truncZero ∧ (srvWrite s off d).didRead = s.didRead ∧
    (srvWrite s off d).stale = s.stale := by
  unfold srvWrite
  simp only [ha, Bool.false_eq_true, if_false]
  have ht : s.tell.getD s.fpos = s.fpos := by
    rcases hc with h | h <;> simp [h]
  rw [ht]
  by_cases h : off = s.fpos
  · subst h; simp [Coherent]
  · simp [h, Coherent]

theorem srvWrite_append (s : Srv) (off : Nat) (d : Bytes) (ha : s.append = true) :
    (srvWrite s off d).content = s.content ++ d ∧ Coherent (srvWrite s off d) ∧
    (srvWrite s off d).append = true ∧ (srvWrite s off d).hopen = s.hopen ∧
    (srvWrite s off d).truncZero = s.truncZero ∧ (srvWrite s off d).didRead = s.didRead ∧
    (srvWrite s off d).stale = s.stale := by
  unfold srvWrite
  simp [ha, Coherent]

end PV.SftpFile
