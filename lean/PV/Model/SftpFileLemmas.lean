/-
  PV.Model.SftpFileLemmas — helpers for PV.Props.C27: overlay algebra, `_write_all` against the server model.
-/
import PV.Model.PyFile
import PV.Model.BufFileLemmas
namespace PV.SftpFile
open PV PV.BufFile

theorem overlay_nil (c : Bytes) (o : Nat) : overlay c o [] = c := by simp [overlay]

theorem overlay_length_ge (c : Bytes) (o : Nat) (d : Bytes) (h : d ≠ []) :
    (overlay c o d).length = max c.length (o + d.length) := by
  have : d.isEmpty = false := by simpa using h
  simp only [overlay, this, Bool.false_eq_true, if_false, List.length_append, List.length_take,
    List.length_replicate, List.length_drop]
  omega

/-- two consecutive overwrites are one overwrite of the concatenation -/
theorem overlay_append (c : Bytes) (o : Nat) (a b : Bytes) :
    overlay (overlay c o a) (o + a.length) b = overlay c o (a ++ b) := by
  by_cases ha : a = []
  · subst ha; simp [overlay_nil]
  by_cases hb : b = []
  · subst hb; simp [overlay_nil]
  have ha' : a.isEmpty = false := by simpa using ha
  have hb' : b.isEmpty = false := by simpa using hb
  have hab : (a ++ b).isEmpty = false := by simp [ha]
  have hlen : (c.take o ++ List.replicate (o - c.length) 0).length = o := by
    simp [List.length_take]; omega
  simp only [overlay, ha', hb', hab, Bool.false_eq_true, if_false]
  -- name the pieces
  generalize hpre : c.take o ++ List.replicate (o - c.length) 0 = pre at hlen
  have e1 : (pre ++ a ++ c.drop (o + a.length)).take (o + a.length) = pre ++ a := by
    rw [List.take_append_of_le_length (by simp [hlen])]
    exact List.take_of_length_le (by simp [hlen])
  have e2 : (o + a.length) - (pre ++ a ++ c.drop (o + a.length)).length = 0 := by
    simp [hlen]
  have e3 : (pre ++ a ++ c.drop (o + a.length)).drop (o + a.length + b.length) = c.drop (o + (a ++ b).length) := by
    have hl : (pre ++ a).length = o + a.length := by simp [hlen]
    rw [List.drop_append, List.drop_of_length_le (by omega), hl, List.drop_drop, List.nil_append]
    congr 1
    simp only [List.length_append]
    omega
  rw [e1, e2, e3]
  simp [List.append_assoc]

/-- the handle's offset cache agrees with the file object's position -/
def Coherent (s : Srv) : Prop := s.tell = none ∨ s.tell = some s.fpos

theorem srvWrite_noappend (s : Srv) (off : Nat) (d : Bytes) (hc : Coherent s) (ha : s.append = false) :
    (srvWrite s off d).content = overlay s.content off d ∧ Coherent (srvWrite s off d) ∧
    (srvWrite s off d).append = false ∧ (srvWrite s off d).hopen = s.hopen ∧
    (srvWrite s off d).truncZero = s.truncZero ∧ (srvWrite s off d).didRead = s.didRead ∧
    (srvWrite s off d).stale = s.stale := by
  unfold srvWrite
  simp only [ha, Bool.false_eq_true, if_false]
  have ht : s.tell.getD s.fpos = s.fpos := by
    rcases hc with h | h <;> simp [h]
  rw [ht]
  by_cases h : off = s.fpos
  · subst h; simp [Coherent]
  · simp [h, Coherent]

theorem srvWrite_append (s : Srv) (off : Nat) (d : Bytes) (ha : s.append = true) :
    (srvWrite s off d).content = s.content ++ d ∧ Coherent (srvWrite s off d) ∧
    (srvWrite s off d).append = true ∧ (srvWrite s off d).hopen = s.hopen ∧
    (srvWrite s off d).truncZero = s.truncZero ∧ (srvWrite s off d).didRead = s.didRead ∧
    (srvWrite s off d).stale = s.stale := by
  unfold srvWrite
  simp [ha, Coherent]

end PV.SftpFile

namespace PV.SftpFile
open PV PV.BufFile

/-- server-side facts no write changes -/
def srvSame (a b : Srv) : Prop :=
  a.append = b.append ∧ a.hopen = b.hopen ∧ a.truncZero = b.truncZero ∧ a.didRead = b.didRead ∧ a.stale = b.stale

/-- client-side facts `_write_all` does not change -/
def cliSame (a b : BF Srv) : Prop :=
  a.rd = b.rd ∧ a.wr = b.wr ∧ a.app = b.app ∧ a.bin = b.bin ∧ a.buffered = b.buffered ∧ a.lineBuf = b.lineBuf ∧
  a.bufsize = b.bufsize ∧ a.dflt = b.dflt ∧ a.rbuf = b.rbuf ∧ a.wbuf = b.wbuf ∧ a.closed = b.closed

theorem sftpOps_write (maxReq : Nat) (s : Srv) (p : Int) (d : Bytes) :
    (sftpOps maxReq).write s p d =
      if p < 0 then (s, .error (.stream eStruct))
      else (srvWrite s p.toNat (d.take (min d.length maxReq)), .ok (min d.length maxReq)) := rfl

theorem writeAllLoop_sftp_noapp (maxReq : Nat) (hm : 1 ≤ maxReq) (fuel : Nat) (f : BF Srv) (data : Bytes)
    (hf : data.length < fuel) (h0 : 0 ≤ f.realpos) (hc : Coherent f.s) (ha : f.app = false) (hsa : f.s.append = false) :
    (writeAllLoop (sftpOps maxReq) fuel f data).2 = .ok () ∧
    (writeAllLoop (sftpOps maxReq) fuel f data).1.s.content = overlay f.s.content f.realpos.toNat data ∧
    (writeAllLoop (sftpOps maxReq) fuel f data).1.pos = f.pos + data.length ∧
    (writeAllLoop (sftpOps maxReq) fuel f data).1.realpos = f.realpos + data.length ∧
    (writeAllLoop (sftpOps maxReq) fuel f data).1.size = f.size ∧
    Coherent (writeAllLoop (sftpOps maxReq) fuel f data).1.s ∧
    srvSame (writeAllLoop (sftpOps maxReq) fuel f data).1.s f.s ∧
    cliSame (writeAllLoop (sftpOps maxReq) fuel f data).1 f := by
  induction fuel generalizing f data with
  | zero => omega
  | succ fuel ih =>
    rw [writeAllLoop]
    by_cases he : data.isEmpty = true
    · have : data = [] := by simpa using he
      subst this
      simp [overlay_nil, hc, srvSame, cliSame]
    · have hne : data ≠ [] := by simpa using he
      have hlen : 0 < data.length := List.length_pos_iff.2 hne
      have hk : 1 ≤ min data.length maxReq := by omega
      have hk0 : (min data.length maxReq == 0) = false := beq_false_of_ne (by omega)
      have hneg : ¬ f.realpos < 0 := by omega
      obtain ⟨w1, w2, w3, w4, w5, w6, w7⟩ := srvWrite_noappend f.s f.realpos.toNat (data.take (min data.length maxReq)) hc hsa
      simp only [he, Bool.false_eq_true, if_false, sftpOps_write, hneg, hk0]
      have hr : (f.realpos + (min data.length maxReq : Nat)).toNat = f.realpos.toNat + (data.take (min data.length maxReq)).length := by
        simp only [List.length_take]; omega
      have hd : (data.drop (min data.length maxReq)).length < fuel := by
        simp only [List.length_drop]; omega
      split
      · rename_i happ
        exact absurd happ (by simp [ha])
      · have := ih
          { f with s := srvWrite f.s f.realpos.toNat (data.take (min data.length maxReq)),
                   pos := f.pos + (min data.length maxReq : Nat),
                   realpos := f.realpos + (min data.length maxReq : Nat) }
          (data.drop (min data.length maxReq)) hd (by simp only; omega) w2 ha w3
        obtain ⟨i1, i2, i3, i4, i5, i6, i7, i8⟩ := this
        refine ⟨i1, ?_, ?_, ?_, i5, i6, ?_, i8⟩
        · rw [i2]; simp only; rw [w1, hr, overlay_append, List.take_append_drop]
        · rw [i3]; simp only [List.length_drop]; omega
        · rw [i4]; simp only [List.length_drop]; omega
        · obtain ⟨a, b, c, d, e⟩ := i7
          exact ⟨by rw [a, w3, hsa], b.trans w4, c.trans w5, d.trans w6, e.trans w7⟩

end PV.SftpFile

namespace PV.SftpFile
open PV PV.BufFile

theorem dropReadAhead_nil {σ : Type} (o : Ops σ) (f : BF σ) (d : Bytes) (h : f.rbuf = [] ∨ d = []) :
    dropReadAhead o f d = f := by
  rcases h with h | h <;> simp [dropReadAhead, h]

theorem flush_nil {σ : Type} (o : Ops σ) (f : BF σ) (h : f.wbuf = []) : flush o f = ({ f with wbuf := [] }, .ok ()) := by
  unfold flush writeAll
  rw [h, dropReadAhead_nil o f [] (Or.inr rfl)]
  simp [writeAllLoop]

theorem writeAll_sftp_noapp (maxReq : Nat) (hm : 1 ≤ maxReq) (f : BF Srv) (data : Bytes)
    (h0 : 0 ≤ f.realpos) (hc : Coherent f.s) (ha : f.app = false) (hsa : f.s.append = false) (hrb : f.rbuf = []) :
    (writeAll (sftpOps maxReq) f data).2 = .ok () ∧
    (writeAll (sftpOps maxReq) f data).1.s.content = overlay f.s.content f.realpos.toNat data ∧
    (writeAll (sftpOps maxReq) f data).1.pos = f.pos + data.length ∧
    (writeAll (sftpOps maxReq) f data).1.realpos = f.realpos + data.length ∧
    (writeAll (sftpOps maxReq) f data).1.size = f.size ∧
    Coherent (writeAll (sftpOps maxReq) f data).1.s ∧
    srvSame (writeAll (sftpOps maxReq) f data).1.s f.s ∧
    cliSame (writeAll (sftpOps maxReq) f data).1 f := by
  unfold writeAll
  rw [dropReadAhead_nil _ f data (Or.inl hrb)]
  exact writeAllLoop_sftp_noapp maxReq hm (data.length + 1) f data (by omega) h0 hc ha hsa

theorem flush_sftp_noapp (maxReq : Nat) (hm : 1 ≤ maxReq) (f : BF Srv)
    (h0 : 0 ≤ f.realpos) (hc : Coherent f.s) (ha : f.app = false) (hsa : f.s.append = false) (hrb : f.rbuf = []) :
    (flush (sftpOps maxReq) f).2 = .ok () ∧
    (flush (sftpOps maxReq) f).1.s.content = overlay f.s.content f.realpos.toNat f.wbuf ∧
    (flush (sftpOps maxReq) f).1.pos = f.pos + f.wbuf.length ∧
    (flush (sftpOps maxReq) f).1.realpos = f.realpos + f.wbuf.length ∧
    (flush (sftpOps maxReq) f).1.size = f.size ∧
    Coherent (flush (sftpOps maxReq) f).1.s ∧
    srvSame (flush (sftpOps maxReq) f).1.s f.s ∧
    (flush (sftpOps maxReq) f).1.wbuf = [] ∧
    cliSame (flush (sftpOps maxReq) f).1 { f with wbuf := [] } := by
  unfold flush
  obtain ⟨h1, h2, h3, h4, h5, h6, h7, h8⟩ := writeAll_sftp_noapp maxReq hm f f.wbuf h0 hc ha hsa hrb
  rcases hres : writeAll (sftpOps maxReq) f f.wbuf with ⟨f1, r1⟩
  rw [hres] at h1 h2 h3 h4 h5 h6 h7 h8
  simp only at h1 h2 h3 h4 h5 h6 h7 h8
  subst h1
  obtain ⟨a, b, c, d, e, g, h, i, j, _, l⟩ := h8
  exact ⟨by triv, h2, h3, h4, h5, h6, h7, by triv, ⟨a, b, c, d, e, g, h, i, j, by triv, l⟩⟩

end PV.SftpFile
