/-
  PV.Model.PacketRoundtrip — lemmas for C01/C02: pairing of a sender with a receiver, single-packet round trip
  for the four receive paths, `runBuf` stepping, `ctEq`, fragmentation independence of `read_all`.
-/
import PV.Model.PacketLemmas
namespace PV.Packet
open PV

/-! ## stepping `runBuf` -/

theorem runBuf_read {α : Type} (n : Int) (k : Bytes → Rd α) (a rest : Bytes) (h : n = (a.length : Int)) :
    runBuf (.read n k) (a ++ rest) = runBuf (k a) rest := by
  conv => lhs; unfold runBuf
  by_cases h0 : n ≤ 0
  · have : a = [] := by
      cases a with
      | nil => rfl
      | cons x xs => simp at h; omega
    subst this
    simp [h0]
  · have hn : n.toNat = a.length := by omega
    simp only [h0, if_false, hn, List.length_append]
    have : a.length ≤ a.length + rest.length := by omega
    simp only [this, if_true, List.take_left', List.drop_left']

/-! ## `constant_time_bytes_eq` is equality -/

private theorem foldl_or_zero (l : List UInt8) (acc : UInt8) :
    l.foldl (fun r x => r ||| x) acc = 0 ↔ acc = 0 ∧ ∀ x ∈ l, x = 0 := by
  induction l generalizing acc with
  | nil => simp
  | cons x xs ih =>
    simp only [List.foldl_cons, ih, List.mem_cons, forall_eq_or_imp, UInt8.or_eq_zero_iff]
    constructor
    · rintro ⟨⟨h1, h2⟩, h3⟩; exact ⟨h1, h2, h3⟩
    · rintro ⟨h1, h2, h3⟩; exact ⟨⟨h1, h2⟩, h3⟩

private theorem zipWith_xor_zero (a b : Bytes) (hl : a.length = b.length) :
    (∀ x ∈ List.zipWith (fun x y => x ^^^ y) a b, x = 0) ↔ a = b := by
  induction a generalizing b with
  | nil => cases b with
    | nil => simp
    | cons y ys => simp at hl
  | cons x xs ih =>
    cases b with
    | nil => simp at hl
    | cons y ys =>
      simp only [List.length_cons, Nat.add_right_cancel_iff] at hl
      simp only [List.zipWith_cons_cons, List.mem_cons, forall_eq_or_imp, ih ys hl, List.cons.injEq,
        UInt8.xor_eq_zero_iff]

theorem ctEq_iff (a b : Bytes) : ctEq a b = true ↔ a = b := by
  unfold ctEq
  by_cases hl : a.length = b.length
  · simp only [hl, ne_eq, not_true_eq_false, if_false, beq_iff_eq]
    rw [foldl_or_zero, zipWith_xor_zero a b hl]
    simp
  · simp only [ne_eq, hl, not_false_eq_true, if_true]
    constructor
    · intro h; cases h
    · intro h; exact absurd (congrArg List.length h) hl

theorem ctEq_refl (a : Bytes) : ctEq a a = true := (ctEq_iff a a).2 rfl

/-! ## pairing of a sender with a receiver -/

/-- the laws of all primitives, bundled -/
structure Laws (p : Prims) where
  blk : p.CSt → Nat
  Paired : p.CSt → p.CSt → Prop
  ZPaired : p.ZSt → p.ZSt → Prop
  tagLen : Nat
  ciph : CipherLaws p blk Paired
  aead : AeadLaws p tagLen
  comp : CompLaws p ZPaired

def CiphPaired {p : Prims} (W : Laws p) (block macLen : Nat) : OutC p → InC p → Prop
  | .plain, .plain => macLen = 0
  | .classic se mk, .classic sd mk' => mk = mk' ∧ W.Paired se sd ∧ W.blk se = block ∧ MacOk p mk macLen
  | .etm se mk, .etm sd mk' => mk = mk' ∧ W.Paired se sd ∧ W.blk se = block ∧ MacOk p mk macLen
  | .aead k iv, .aead k' iv' => k = k' ∧ iv = iv' ∧ macLen = W.tagLen
  | _, _ => False

def ZP {p : Prims} (W : Laws p) : Option p.ZSt → Option p.ZSt → Prop
  | none, none => True
  | some a, some b => W.ZPaired a b
  | _, _ => False

/-- a sender and a receiver "keyed alike": same framing parameters and sequence number, engines in
corresponding states, compressor and decompressor in corresponding states -/
structure PairedSt {p : Prims} (W : Laws p) (s : Sender p) (r : Receiver p) : Prop where
  block : s.block = r.block
  macLen : s.macLen = r.macLen
  seq : s.seq = r.seq
  kex : s.kexDone = r.kexDone
  blk4 : 4 ≤ s.block
  ciph : CiphPaired W s.block s.macLen s.ciph r.ciph
  comp : ZP W s.comp r.decomp

/-! ## the tail of `read_message` on an honest packet -/

theorem uint8_ofNat_toNat (n : Nat) (h : n < 256) : (UInt8.ofNat n).toNat = n := by
  simp [UInt8.toNat_ofNat', Nat.mod_eq_of_lt h]

theorem pySlice1_body (payload padding : Bytes) (h : padding.length < 256) :
    pySlice1 (UInt8.ofNat padding.length :: (payload ++ padding))
      (((payload.length + padding.length + 1 : Nat) : Int) - ((UInt8.ofNat padding.length).toNat : Int)) = payload := by
  rw [uint8_ofNat_toNat _ h]
  unfold pySlice1
  have h1 : ¬ (((payload.length + padding.length + 1 : Nat) : Int) - (padding.length : Int) < 0) := by omega
  have h2 : (((payload.length + padding.length + 1 : Nat) : Int) - (padding.length : Int)).toNat = payload.length + 1 := by
    omega
  simp only [h1, if_false, h2, List.take_succ_cons, List.drop_succ_cons, List.drop_zero, List.take_left']

theorem compOut_decompIn {p : Prims} (W : Laws p) (zs zr : Option p.ZSt) (h : ZP W zs zr) (d : Bytes) :
    ∃ z', decompIn zr (compOut zs d).2 = .ok (z', d) ∧ ZP W (compOut zs d).1 z' := by
  cases zs with
  | none =>
    cases zr with
    | none => exact ⟨none, rfl, trivial⟩
    | some b => exact absurd h (by simp [ZP])
  | some a =>
    cases zr with
    | none => exact absurd h (by simp [ZP])
    | some b =>
      obtain ⟨zd', h1, h2⟩ := W.comp.decomp_comp a b d h
      refine ⟨some zd', ?_, h2⟩
      simp only [compOut, decompIn, h1]

theorem finish_roundtrip {p : Prims} (W : Laws p) {s : Sender p} {r : Receiver p}
    (hz : ZP W s.comp r.decomp) (hseq : s.seq = r.seq) (hk : s.kexDone = r.kexDone)
    (c : UInt8) (body : Bytes) (hroll : ¬ (nextSeq s.seq = 0 ∧ ¬ s.kexDone))
    (padding : Bytes) (hpad : padding.length < 256) (c' : InC p) (a : Option Auth) :
    ∃ z', finish r c' ((compOut s.comp (c :: body)).2.length + padding.length + 1)
        (UInt8.ofNat padding.length :: ((compOut s.comp (c :: body)).2 ++ padding)) a
        = .ok { st := { r with ciph := c', decomp := z', seq := nextSeq r.seq },
                msg := ⟨c, body, r.seq⟩, auth := a }
      ∧ ZP W (compOut s.comp (c :: body)).1 z' := by
  obtain ⟨z', h1, h2⟩ := compOut_decompIn W s.comp r.decomp hz (c :: body)
  refine ⟨z', ?_, h2⟩
  unfold finish
  simp only
  rw [pySlice1_body _ _ hpad, h1]
  simp only
  rw [← hseq, ← hk, if_neg hroll]

/-! ## the receive paths on an honest packet -/

theorem be32_beVal (h : Bytes) (hl : h.length = 4) : be32 (beVal h) = h := by
  have := beBytes_beVal h
  rw [hl] at this
  exact this

theorem take4_be32_append (n : Nat) (x : Bytes) : (be32 n ++ x).take 4 = be32 n := by
  rw [List.take_append_of_le_length (by simp [be32]), List.take_of_length_le (by simp [be32])]

theorem drop4_be32_append (n : Nat) (x : Bytes) : (be32 n ++ x).drop 4 = x := by
  rw [List.drop_append_of_le_length (by simp [be32]), List.drop_of_length_le (by simp [be32])]
  rfl

theorem read_etm {p : Prims} (W : Laws p) (r : Receiver p) (se sd : p.CSt) (mk : p.MKey)
    (hr : r.ciph = .etm sd mk) (hP : W.Paired se sd) (hblk : W.blk se = r.block) (hmac : MacOk p mk r.macLen)
    (h4 : 4 ≤ r.block) (bodyB : Bytes) (hps : bodyB.length < 4294967296) (hal : bodyB.length % r.block = 0)
    (hpos : 0 < bodyB.length) (t : Bytes) :
    runBuf (readMessage r)
      ((be32 bodyB.length ++ (p.enc se bodyB).2
        ++ (p.mac mk (be32 r.seq ++ (be32 bodyB.length ++ (p.enc se bodyB).2))).take r.macLen) ++ t)
    = runBuf (liftE (finish r (.etm (p.dec sd (p.enc se bodyB).2).1 mk) bodyB.length bodyB
        (some ⟨r.seq, [], be32 bodyB.length ++ (p.enc se bodyB).2⟩))) t := by
  generalize hct : (p.enc se bodyB).2 = ct
  have hctl : ct.length = bodyB.length := by
    rw [← hct]; exact W.ciph.enc_len se bodyB (by rw [hblk]; exact hal)
  have hge : r.block ≤ bodyB.length := Nat.le_of_dvd hpos (Nat.dvd_of_mod_eq_zero hal)
  generalize htag : (p.mac mk (be32 r.seq ++ (be32 bodyB.length ++ ct))).take r.macLen = tag
  have htl : tag.length = r.macLen := by
    rw [← htag, List.length_take]; exact Nat.min_eq_left (hmac _)
  have hsplit : (be32 bodyB.length ++ ct ++ tag) ++ t
      = (be32 bodyB.length ++ ct.take (r.block - 4)) ++ (ct.drop (r.block - 4) ++ (tag ++ t)) := by
    simp only [List.append_assoc]
    rw [← List.append_assoc (ct.take _), List.take_append_drop]
  rw [hsplit]
  unfold readMessage
  rw [runBuf_read _ _ _ _ (by simp [be32, List.length_take]; omega)]
  trace_state
  have hhl : ¬ (be32 bodyB.length ++ ct.take (r.block - 4)).length < 4 := by simp [be32]
  rw [if_neg hhl, take4_be32_append, beVal_be32 _ hps, hr]
  simp only
  rw [runBuf_read _ _ _ _ (by unfold remainingEtm; simp [List.length_drop]; omega)]
  simp only
  rw [runBuf_read _ _ _ _ (by rw [htl])]
  simp only
  rw [drop4_be32_append, List.take_append_drop, ← List.append_assoc, htag, ctEq_refl]
  simp only [if_true]
  have hd := (W.ciph.dec_enc se sd bodyB hP (by rw [hblk]; exact hal)).1
  rw [hct] at hd
  rw [hd]

end PV.Packet
