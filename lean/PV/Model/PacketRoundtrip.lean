/-
  PV.Model.PacketRoundtrip — lemmas for C01/C02: pairing of a sender with a receiver, single-packet round trip
  for the four receive paths, `runBuf` stepping, `ctEq`, fragmentation independence of `read_all`.
-/
import PV.Model.PacketLemmas
namespace PV.Packet
open PV

/-! ## stepping `runBuf` -/

theorem runBuf_read {α : Type} {cr : Bool} (n : Int) (k : Bytes → Rd α) (a rest : Bytes) (h : n = (a.length : Int)) :
    runBuf (.read n cr k) (a ++ rest) = runBuf (k a) rest := by
  conv => lhs; unfold runBuf
  by_cases h0 : n ≤ 0
  · have : a = [] := by
      cases a with
      | nil => rfl
      | cons x xs => simp at h; omega
    subst this
    simp [h0]
  · have hn : n.toNat = a.length := by omega
    simp only [h0, if_false, hn, List.length_append]
    have : a.length ≤ a.length + rest.length := by omega
    simp only [this, if_true, List.take_left', List.drop_left']

/-! ## `constant_time_bytes_eq` is equality -/

private theorem foldl_or_zero (l : List UInt8) (acc : UInt8) :
    l.foldl (fun r x => r ||| x) acc = 0 ↔ acc = 0 ∧ ∀ x ∈ l, x = 0 := by
  induction l generalizing acc with
  | nil => simp
  | cons x xs ih =>
    simp only [List.foldl_cons, ih, List.mem_cons, forall_eq_or_imp, UInt8.or_eq_zero_iff]
    constructor
    · rintro ⟨⟨h1, h2⟩, h3⟩; exact ⟨h1, h2, h3⟩
    · rintro ⟨h1, h2, h3⟩; exact ⟨⟨h1, h2⟩, h3⟩

private theorem zipWith_xor_zero (a b : Bytes) (hl : a.length = b.length) :
    (∀ x ∈ List.zipWith (fun x y => x ^^^ y) a b, x = 0) ↔ a = b := by
  induction a generalizing b with
  | nil => cases b with
    | nil => simp
    | cons y ys => simp at hl
  | cons x xs ih =>
    cases b with
    | nil => simp at hl
    | cons y ys =>
      simp only [List.length_cons, Nat.add_right_cancel_iff] at hl
      simp only [List.zipWith_cons_cons, List.mem_cons, forall_eq_or_imp, ih ys hl, List.cons.injEq,
        UInt8.xor_eq_zero_iff]

theorem ctEq_iff (a b : Bytes) : ctEq a b = true ↔ a = b := by
  unfold ctEq
  by_cases hl : a.length = b.length
  · simp only [hl, ne_eq, not_true_eq_false, if_false, beq_iff_eq]
    rw [foldl_or_zero, zipWith_xor_zero a b hl]
    simp
  · simp only [ne_eq, hl, not_false_eq_true, if_true]
    constructor
    · intro h; cases h
    · intro h; exact absurd (congrArg List.length h) hl

theorem ctEq_refl (a : Bytes) : ctEq a a = true := (ctEq_iff a a).2 rfl

/-! ## pairing of a sender with a receiver -/

/-- the laws of all primitives, bundled -/
structure Laws (p : Prims) where
  blk : p.CSt → Nat
  Paired : p.CSt → p.CSt → Prop
  ZPaired : p.ZSt → p.ZSt → Prop
  tagLen : Nat
  ciph : CipherLaws p blk Paired
  aead : AeadLaws p tagLen
  comp : CompLaws p ZPaired

def CiphPaired {p : Prims} (W : Laws p) (block macLen : Nat) : OutC p → InC p → Prop
  | .plain, .plain => macLen = 0
  | .classic se mk, .classic sd mk' => mk = mk' ∧ W.Paired se sd ∧ W.blk se = block ∧ MacOk p mk macLen
  | .etm se mk, .etm sd mk' => mk = mk' ∧ W.Paired se sd ∧ W.blk se = block ∧ MacOk p mk macLen
  | .aead k iv, .aead k' iv' => k = k' ∧ iv = iv' ∧ macLen = W.tagLen
  | _, _ => False

def ZP {p : Prims} (W : Laws p) : Option p.ZSt → Option p.ZSt → Prop
  | none, none => True
  | some a, some b => W.ZPaired a b
  | _, _ => False

/-- a sender and a receiver "keyed alike": same framing parameters and sequence number, engines in
corresponding states, compressor and decompressor in corresponding states -/
structure PairedSt {p : Prims} (W : Laws p) (s : Sender p) (r : Receiver p) : Prop where
  block : s.block = r.block
  macLen : s.macLen = r.macLen
  seq : s.seq = r.seq
  kex : s.kexDone = r.kexDone
  blk4 : 4 ≤ s.block
  ciph : CiphPaired W s.block s.macLen s.ciph r.ciph
  comp : ZP W s.comp r.decomp

/-! ## the tail of `read_message` on an honest packet -/

theorem uint8_ofNat_toNat (n : Nat) (h : n < 256) : (UInt8.ofNat n).toNat = n := by
  simp [UInt8.toNat_ofNat', Nat.mod_eq_of_lt h]

theorem pySlice1_body (payload padding : Bytes) (h : padding.length < 256) :
    pySlice1 (UInt8.ofNat padding.length :: (payload ++ padding))
      (((payload.length + padding.length + 1 : Nat) : Int) - ((UInt8.ofNat padding.length).toNat : Int)) = payload := by
  rw [uint8_ofNat_toNat _ h]
  unfold pySlice1
  have h1 : ¬ (((payload.length + padding.length + 1 : Nat) : Int) - (padding.length : Int) < 0) := by omega
  have h2 : (((payload.length + padding.length + 1 : Nat) : Int) - (padding.length : Int)).toNat = payload.length + 1 := by
    omega
  simp only [h1, if_false, h2, List.take_succ_cons, List.drop_succ_cons, List.drop_zero, List.take_left']

theorem compOut_decompIn {p : Prims} (W : Laws p) (zs zr : Option p.ZSt) (h : ZP W zs zr) (d : Bytes) :
    ∃ z', decompIn zr (compOut zs d).2 = .ok (z', d) ∧ ZP W (compOut zs d).1 z' := by
  cases zs with
  | none =>
    cases zr with
    | none => exact ⟨none, rfl, trivial⟩
    | some b => exact absurd h (by simp [ZP])
  | some a =>
    cases zr with
    | none => exact absurd h (by simp [ZP])
    | some b =>
      obtain ⟨zd', h1, h2⟩ := W.comp.decomp_comp a b d h
      refine ⟨some zd', ?_, h2⟩
      simp only [compOut, decompIn, h1]

theorem finish_roundtrip {p : Prims} (W : Laws p) {s : Sender p} {r : Receiver p}
    (hz : ZP W s.comp r.decomp) (hseq : s.seq = r.seq) (hk : s.kexDone = r.kexDone)
    (c : UInt8) (body : Bytes) (hroll : ¬ (nextSeq s.seq = 0 ∧ ¬ s.kexDone))
    (padding : Bytes) (hpad : padding.length < 256) (c' : InC p) (a : Option Auth) :
    ∃ z', finish r c' ((compOut s.comp (c :: body)).2.length + padding.length + 1)
        (UInt8.ofNat padding.length :: ((compOut s.comp (c :: body)).2 ++ padding)) a
        = .ok { st := { r with ciph := c', decomp := z', seq := nextSeq r.seq },
                msg := ⟨c, body, r.seq⟩, auth := a,
                raw := (compOut s.comp (c :: body)).2.length + padding.length + 1 + r.macLen + 4 }
      ∧ ZP W (compOut s.comp (c :: body)).1 z' := by
  obtain ⟨z', h1, h2⟩ := compOut_decompIn W s.comp r.decomp hz (c :: body)
  refine ⟨z', ?_, h2⟩
  unfold finish
  simp only
  rw [pySlice1_body _ _ hpad, h1]
  simp only
  rw [← hseq, ← hk, if_neg hroll]

/-! ## the receive paths on an honest packet -/

theorem be32_beVal (h : Bytes) (hl : h.length = 4) : be32 (beVal h) = h := by
  have := beBytes_beVal h
  rw [hl] at this
  exact this

theorem take4_be32_append (n : Nat) (x : Bytes) : (be32 n ++ x).take 4 = be32 n := by
  rw [List.take_append_of_le_length (by simp [be32]), List.take_of_length_le (by simp [be32])]

theorem drop4_be32_append (n : Nat) (x : Bytes) : (be32 n ++ x).drop 4 = x := by
  rw [List.drop_append_of_le_length (by simp [be32]), List.drop_of_length_le (by simp [be32])]
  rfl

theorem read_etm {p : Prims} (W : Laws p) (r : Receiver p) (se sd : p.CSt) (mk : p.MKey)
    (hP : W.Paired se sd) (hblk : W.blk se = r.block) (hmac : MacOk p mk r.macLen)
    (h4 : 4 ≤ r.block) (bodyB : Bytes) (hps : bodyB.length < 4294967296) (hal : bodyB.length % r.block = 0)
    (hpos : 0 < bodyB.length) (t : Bytes) :
    ∃ hdr rest, hdr.length = r.block ∧
      (be32 bodyB.length ++ (p.enc se bodyB).2
        ++ (p.mac mk (be32 r.seq ++ (be32 bodyB.length ++ (p.enc se bodyB).2))).take r.macLen) ++ t = hdr ++ rest ∧
      runBuf (readEtm r sd mk hdr) rest
        = runBuf (liftE (finish r (.etm (p.dec sd (p.enc se bodyB).2).1 mk) bodyB.length bodyB
            (some ⟨r.seq, [], be32 bodyB.length ++ (p.enc se bodyB).2⟩))) t := by
  generalize hct : (p.enc se bodyB).2 = ct
  have hctl : ct.length = bodyB.length := by
    rw [← hct]; exact W.ciph.enc_len se bodyB (by rw [hblk]; exact hal)
  have hge : r.block ≤ bodyB.length := Nat.le_of_dvd hpos (Nat.dvd_of_mod_eq_zero hal)
  generalize htag : (p.mac mk (be32 r.seq ++ (be32 bodyB.length ++ ct))).take r.macLen = tag
  have htl : tag.length = r.macLen := by
    rw [← htag, List.length_take]; exact Nat.min_eq_left (hmac _)
  refine ⟨be32 bodyB.length ++ ct.take (r.block - 4), ct.drop (r.block - 4) ++ (tag ++ t), ?_, ?_, ?_⟩
  · simp [be32, List.length_take]; omega
  · simp only [List.append_assoc]
    rw [← List.append_assoc (ct.take _), List.take_append_drop]
  · unfold readEtm
    have hhl : ¬ (be32 bodyB.length ++ ct.take (r.block - 4)).length < 4 := by simp [be32]
    rw [if_neg hhl]
    simp only
    rw [take4_be32_append, beVal_be32 _ hps]
    rw [runBuf_read _ _ _ _ (by unfold remainingEtm; simp [List.length_drop]; omega)]
    rw [runBuf_read _ _ _ _ (by rw [htl])]
    rw [drop4_be32_append, List.take_append_drop, List.append_assoc, htag, ctEq_refl]
    simp only [if_true]
    have hd := (W.ciph.dec_enc se sd bodyB hP (by rw [hblk]; exact hal)).1
    rw [hct] at hd
    rw [hd]

theorem read_aead {p : Prims} (W : Laws p) (r : Receiver p) (k : p.AKey) (iv iv' : Bytes)
    (hml : r.macLen = W.tagLen) (h4 : 4 ≤ r.block) (bodyB : Bytes) (hps : bodyB.length < 4294967296)
    (hal : bodyB.length % r.block = 0) (hpos : 0 < bodyB.length) (hiv : incIv iv = .ok iv') (t : Bytes) :
    ∃ hdr rest, hdr.length = r.block ∧
      (be32 bodyB.length ++ p.aenc k iv bodyB (be32 bodyB.length)) ++ t = hdr ++ rest ∧
      runBuf (readAead r k iv hdr) rest
        = runBuf (liftE (finish r (.aead k iv') bodyB.length bodyB
            (some ⟨r.seq, iv, be32 bodyB.length ++ p.aenc k iv bodyB (be32 bodyB.length)⟩))) t := by
  generalize hct : p.aenc k iv bodyB (be32 bodyB.length) = ct
  have hctl : ct.length = bodyB.length + W.tagLen := by rw [← hct]; exact W.aead.aenc_len _ _ _ _
  have hge : r.block ≤ bodyB.length := Nat.le_of_dvd hpos (Nat.dvd_of_mod_eq_zero hal)
  refine ⟨be32 bodyB.length ++ ct.take (r.block - 4), ct.drop (r.block - 4) ++ t, ?_, ?_, ?_⟩
  · simp [be32, List.length_take]; omega
  · simp only [List.append_assoc]
    rw [← List.append_assoc (ct.take _), List.take_append_drop]
  · unfold readAead
    have hhl : ¬ (be32 bodyB.length ++ ct.take (r.block - 4)).length < 4 := by simp [be32]
    rw [if_neg hhl]
    simp only
    rw [take4_be32_append, beVal_be32 _ hps]
    rw [runBuf_read _ _ _ _ (by unfold remainingAead; simp [List.length_drop]; omega)]
    rw [drop4_be32_append, List.take_append_drop]
    have hd := W.aead.adec_aenc k iv bodyB (be32 bodyB.length)
    rw [hct] at hd
    rw [hd]
    simp only
    rw [hiv]

theorem badBlocking_false (len block : Nat) (hal : (4 + len) % block = 0) (hge : block - 4 ≤ len) (h4 : 4 ≤ block) :
    badBlocking len (block - 4) block = false := by
  unfold badBlocking
  have h1 : ((len : Int) - ((block - 4 : Nat) : Int)) = ((4 + len - block : Nat) : Int) := by
    have : block ≤ 4 + len := by omega
    omega
  have h2 : (4 + len - block) % block = 0 := by
    have hd : block ∣ 4 + len - block := Nat.dvd_sub (Nat.dvd_of_mod_eq_zero hal) (Nat.dvd_refl block)
    exact Nat.mod_eq_zero_of_dvd hd
  rw [h1, ← Int.natCast_emod, h2]
  simp

theorem read_plain {p : Prims} (r : Receiver p) (hml : r.macLen = 0) (h4 : 4 ≤ r.block) (bodyB : Bytes)
    (hps : bodyB.length < 4294967296) (hal : (4 + bodyB.length) % r.block = 0) (t : Bytes) :
    ∃ hdr rest, hdr.length = r.block ∧ (be32 bodyB.length ++ bodyB) ++ t = hdr ++ rest ∧
      runBuf (readPlain r hdr) rest = runBuf (liftE (finish r .plain bodyB.length bodyB none)) t := by
  have hge : r.block ≤ 4 + bodyB.length := Nat.le_of_dvd (by omega) (Nat.dvd_of_mod_eq_zero hal)
  refine ⟨be32 bodyB.length ++ bodyB.take (r.block - 4), bodyB.drop (r.block - 4) ++ t, ?_, ?_, ?_⟩
  · simp [be32, List.length_take]; omega
  · simp only [List.append_assoc]
    rw [← List.append_assoc (bodyB.take _), List.take_append_drop]
  · unfold readPlain
    have hhl : ¬ (be32 bodyB.length ++ bodyB.take (r.block - 4)).length < 4 := by simp [be32]
    rw [if_neg hhl]
    simp only
    rw [take4_be32_append, beVal_be32 _ hps, drop4_be32_append]
    have hll : (bodyB.take (r.block - 4)).length = r.block - 4 := by rw [List.length_take]; omega
    rw [hll, badBlocking_false _ _ hal (by omega) h4]
    simp only [Bool.false_eq_true, if_false]
    rw [runBuf_read _ _ _ _ (by unfold classicSize; rw [hml]; simp [List.length_drop]; omega)]
    have : bodyB.length - (r.block - 4) = (bodyB.drop (r.block - 4)).length := by simp
    rw [this, List.take_length, List.take_append_drop]

theorem read_classic {p : Prims} (W : Laws p) (r : Receiver p) (se sd : p.CSt) (mk : p.MKey)
    (hP : W.Paired se sd) (hblk : W.blk se = r.block) (hmac : MacOk p mk r.macLen)
    (h4 : 4 ≤ r.block) (bodyB : Bytes) (hps : bodyB.length < 4294967296)
    (hal : (4 + bodyB.length) % r.block = 0) (t : Bytes) :
    ∃ hdr rest sd', hdr.length = r.block ∧
      ((p.enc se (be32 bodyB.length ++ bodyB)).2
        ++ (p.mac mk (be32 r.seq ++ (be32 bodyB.length ++ bodyB))).take r.macLen) ++ t = hdr ++ rest ∧
      W.Paired (p.enc se (be32 bodyB.length ++ bodyB)).1 sd' ∧
      runBuf (readClassic r sd mk hdr) rest
        = runBuf (liftE (finish r (.classic sd' mk) bodyB.length bodyB
            (if r.macLen > 0 then some ⟨r.seq, [], be32 bodyB.length ++ bodyB⟩ else none))) t := by
  have hbpos : 0 < r.block := by omega
  have hge : r.block ≤ 4 + bodyB.length := Nat.le_of_dvd (by omega) (Nat.dvd_of_mod_eq_zero hal)
  generalize htag : (p.mac mk (be32 r.seq ++ (be32 bodyB.length ++ bodyB))).take r.macLen = tag
  have htl : tag.length = r.macLen := by
    rw [← htag, List.length_take]; exact Nat.min_eq_left (hmac _)
  -- split the plaintext packet at the first block
  have hsplit : be32 bodyB.length ++ bodyB
      = (be32 bodyB.length ++ bodyB.take (r.block - 4)) ++ bodyB.drop (r.block - 4) := by
    rw [List.append_assoc, List.take_append_drop]
  generalize hA : be32 bodyB.length ++ bodyB.take (r.block - 4) = A at hsplit
  generalize hB : bodyB.drop (r.block - 4) = B at hsplit
  have hAl : A.length = r.block := by rw [← hA]; simp [be32, List.length_take]; omega
  have hBl : B.length = 4 + bodyB.length - r.block := by rw [← hB]; simp; omega
  have hAal : A.length % W.blk se = 0 := by rw [hAl, hblk]; exact Nat.mod_self _
  have hBal : B.length % r.block = 0 := by
    rw [hBl]
    exact Nat.mod_eq_zero_of_dvd (Nat.dvd_sub (Nat.dvd_of_mod_eq_zero hal) (Nat.dvd_refl _))
  have henc : p.enc se (be32 bodyB.length ++ bodyB)
      = ((p.enc (p.enc se A).1 B).1, (p.enc se A).2 ++ (p.enc (p.enc se A).1 B).2) := by
    rw [hsplit]; exact W.ciph.enc_app se A B hAal
  rw [henc]
  generalize heA : p.enc se A = eA at *
  have hblk1 : W.blk eA.1 = r.block := by rw [← heA, W.ciph.blk_enc]; exact hblk
  generalize heB : p.enc eA.1 B = eB at *
  have heAl : eA.2.length = r.block := by rw [← heA, W.ciph.enc_len se A hAal]; exact hAl
  have heBl : eB.2.length = B.length := by
    rw [← heB]; exact W.ciph.enc_len eA.1 B (by rw [hblk1]; exact hBal)
  have hd1 := W.ciph.dec_enc se sd A hP hAal
  rw [heA] at hd1
  obtain ⟨hd1v, hd1p⟩ := hd1
  have hd2 := W.ciph.dec_enc eA.1 (p.dec sd eA.2).1 B hd1p (by rw [hblk1]; exact hBal)
  rw [heB] at hd2
  obtain ⟨hd2v, hd2p⟩ := hd2
  refine ⟨eA.2, eB.2 ++ (tag ++ t), (p.dec (p.dec sd eA.2).1 eB.2).1, heAl, ?_, hd2p, ?_⟩
  · simp only [List.append_assoc]
  · unfold readClassic
    simp only
    rw [hd1v]
    have hhl : ¬ A.length < 4 := by omega
    rw [if_neg hhl]
    have hA4 : A.take 4 = be32 bodyB.length := by rw [← hA]; exact take4_be32_append _ _
    have hAd : A.drop 4 = bodyB.take (r.block - 4) := by rw [← hA]; exact drop4_be32_append _ _
    rw [hA4, beVal_be32 _ hps, hAd]
    have hll : (bodyB.take (r.block - 4)).length = r.block - 4 := by rw [List.length_take]; omega
    rw [hll, badBlocking_false _ _ hal (by omega) h4]
    simp only [Bool.false_eq_true, if_false]
    rw [← List.append_assoc]
    rw [runBuf_read _ _ _ _ (by unfold classicSize; simp [heBl, hBl, htl]; omega)]
    have hx : bodyB.length - (r.block - 4) = eB.2.length := by rw [heBl, hBl]; omega
    rw [hx, List.take_left, List.drop_left, hd2v, ← hB, List.take_append_drop]
    by_cases hm : r.macLen > 0
    · simp only [hm, if_true]
      rw [List.append_assoc, htag]
      have : tag.take r.macLen = tag := by rw [← htl]; exact List.take_length
      rw [this, ctEq_refl]
      simp only [if_true]
    · simp only [hm, if_false]

/-! ## one message: what the paired receiver makes of the sender's packet -/

theorem readMessage_step {p : Prims} (r : Receiver p) (hdr rest : Bytes) (h : hdr.length = r.block) :
    runBuf (readMessage r) (hdr ++ rest)
      = runBuf (match r.ciph with
          | .etm st mk => readEtm r st mk hdr
          | .aead k iv => readAead r k iv hdr
          | .plain => readPlain r hdr
          | .classic st mk => readClassic r st mk hdr) rest := by
  unfold readMessage
  rw [runBuf_read _ _ _ _ (by rw [h])]
  rfl

theorem roundtrip1 {p : Prims} (W : Laws p) {s : Sender p} {r : Receiver p} (hp : PairedSt W s r)
    {d rnd : Bytes} {o : SendOut p} (hs : sendMessage s d rnd = .ok o) (t : Bytes) :
    ∃ o' c body, d = c :: body ∧ runBuf (readMessage r) (o.wire ++ t) = .ok o' t ∧
      o'.msg = ⟨c, body, s.seq⟩ ∧ o'.auth = o.auth ∧ PairedSt W o.st o'.st ∧ o'.raw = o.wire.length := by
  obtain ⟨hd, hroll, P, cc, a, hb, hen, hauth, hst⟩ := sendMessage_ok hs
  obtain ⟨hb0, hB⟩ := buildPacket_ok hb
  obtain ⟨padding, hpl, hsh⟩ := hB.shape
  obtain ⟨c, body, rfl⟩ : ∃ c body, d = c :: body := by
    cases d with
    | nil => exact absurd rfl hd
    | cons c body => exact ⟨c, body, rfl⟩
  have hpad : padding.length < 256 := by rw [hpl]; have := hB.pad_le; omega
  -- the plaintext packet is `be32 |bodyB| ++ bodyB`
  generalize hbb : UInt8.ofNat padding.length :: ((compOut s.comp (c :: body)).2 ++ padding) = bodyB
  have hbl : bodyB.length = (compOut s.comp (c :: body)).2.length + padding.length + 1 := by
    rw [← hbb]; simp only [List.length_cons, List.length_append]
  have hPeq : P = be32 bodyB.length ++ bodyB := by
    rw [hsh, hbl, ← hbb, ← hpl]; simp
  have hps : bodyB.length < 4294967296 := by rw [hbl, hpl]; exact hB.psize_lt
  have hpos : 0 < bodyB.length := by omega
  have h4 : 4 ≤ r.block := by rw [← hp.block]; exact hp.blk4
  have hfin := fun (c' : InC p) (a' : Option Auth) =>
    finish_roundtrip W hp.comp hp.seq hp.kex c body hroll padding hpad c' a'
  rw [hbb, ← hbl] at hfin
  have hpc := hp.ciph
  unfold encrypt at hen
  cases hsc : s.ciph with
  | plain =>
    cases hrc : r.ciph with
    | plain =>
      rw [hsc, hrc] at hpc
      rw [hsc] at hen hpl
      simp only [OutC.addlen] at hpl
      simp only at hen
      have hw : o.wire = P := by
        have := Except.ok.inj hen; simp only [Prod.mk.injEq] at this; exact this.2.1.symm
      have hcc : cc = .plain := by
        have := Except.ok.inj hen; simp only [Prod.mk.injEq] at this; exact this.1.symm
      have ha : a = none := by
        have := Except.ok.inj hen; simp only [Prod.mk.injEq] at this; exact this.2.2.symm
      have hal : (4 + bodyB.length) % r.block = 0 := by
        rw [hbl, hpl, ← hp.block]; exact classic_total_mod _ _ hb0
      obtain ⟨hdr, rest, hhl, hsp, hrun⟩ := read_plain r (by rw [← hp.macLen]; exact hpc) h4 bodyB hps hal t
      obtain ⟨z', hf, hz⟩ := hfin .plain none
      refine ⟨{ st := { r with ciph := .plain, decomp := z', seq := nextSeq r.seq },
                msg := ⟨c, body, r.seq⟩, auth := none, raw := bodyB.length + r.macLen + 4 }, c, body, rfl, ?_, ?_, ?_, ?_, ?_⟩
      · rw [hw, hPeq, hsp, readMessage_step r hdr rest hhl, hrc]
        simp only
        rw [hrun, hf]; rfl
      · simp only; rw [hp.seq]
      · simp only; rw [hauth, ha]
      · rw [hst, hcc]
        exact ⟨hp.block, hp.macLen, by simp only; rw [hp.seq], hp.kex, hp.blk4, by simp only; exact hpc, hz⟩
      · simp only
        rw [hw, hPeq, List.length_append, be32_length, ← hp.macLen, hpc]; omega
    | classic _ _ => rw [hsc, hrc] at hpc; exact absurd hpc (by simp [CiphPaired])
    | etm _ _ => rw [hsc, hrc] at hpc; exact absurd hpc (by simp [CiphPaired])
    | aead _ _ => rw [hsc, hrc] at hpc; exact absurd hpc (by simp [CiphPaired])
  | classic se mk =>
    cases hrc : r.ciph with
    | classic sd mk' =>
      rw [hsc, hrc] at hpc
      simp only [CiphPaired] at hpc
      obtain ⟨hmk, hPd, hblk, hmac⟩ := hpc
      subst hmk
      rw [hsc] at hen hpl
      simp only [OutC.addlen] at hpl
      simp only at hen
      have hinj := Except.ok.inj hen
      simp only [Prod.mk.injEq] at hinj
      obtain ⟨hcc, hw, ha⟩ := hinj
      have hal : (4 + bodyB.length) % r.block = 0 := by
        rw [hbl, hpl, ← hp.block]; exact classic_total_mod _ _ hb0
      obtain ⟨hdr, rest, sd', hhl, hsp, hPd', hrun⟩ := read_classic W r se sd mk hPd
        (by rw [← hp.block]; exact hblk) (by rw [← hp.macLen]; exact hmac) h4 bodyB hps hal t
      obtain ⟨z', hf, hz⟩ := hfin (.classic sd' mk)
        (if r.macLen > 0 then some ⟨r.seq, [], be32 bodyB.length ++ bodyB⟩ else none)
      refine ⟨{ st := { r with ciph := .classic sd' mk, decomp := z', seq := nextSeq r.seq },
                msg := ⟨c, body, r.seq⟩,
                auth := if r.macLen > 0 then some ⟨r.seq, [], be32 bodyB.length ++ bodyB⟩ else none,
                raw := bodyB.length + r.macLen + 4 },
              c, body, rfl, ?_, ?_, ?_, ?_, ?_⟩
      · rw [← hw, hPeq, hp.seq, hp.macLen, hsp, readMessage_step r hdr rest hhl, hrc]
        simp only
        rw [hrun, hf]; rfl
      · simp only; rw [hp.seq]
      · simp only; rw [hauth, ← ha, hPeq, hp.seq, hp.macLen]
      · rw [hst, ← hcc]
        refine ⟨hp.block, hp.macLen, by simp only; rw [hp.seq], hp.kex, hp.blk4, ?_, hz⟩
        simp only [CiphPaired]
        exact ⟨trivial, by rw [hPeq]; exact hPd', by rw [W.ciph.blk_enc]; exact hblk, hmac⟩
      · simp only
        have hPl : P.length = 4 + bodyB.length := by rw [hPeq, List.length_append, be32_length]
        rw [← hw, List.length_append, W.ciph.enc_len se P (by rw [hblk, hp.block, hPl]; exact hal), hPl,
          List.length_take, Nat.min_eq_left (hmac _), hp.macLen]; omega
    | plain => rw [hsc, hrc] at hpc; exact absurd hpc (by simp [CiphPaired])
    | etm _ _ => rw [hsc, hrc] at hpc; exact absurd hpc (by simp [CiphPaired])
    | aead _ _ => rw [hsc, hrc] at hpc; exact absurd hpc (by simp [CiphPaired])
  | etm se mk =>
    cases hrc : r.ciph with
    | etm sd mk' =>
      rw [hsc, hrc] at hpc
      simp only [CiphPaired] at hpc
      obtain ⟨hmk, hPd, hblk, hmac⟩ := hpc
      subst hmk
      rw [hsc] at hen hpl
      simp only [OutC.addlen] at hpl
      simp only at hen
      have hinj := Except.ok.inj hen
      simp only [Prod.mk.injEq] at hinj
      obtain ⟨hcc, hw, ha⟩ := hinj
      simp only [hPeq, take4_be32_append, drop4_be32_append] at hcc hw ha
      have hal : bodyB.length % r.block = 0 := by
        rw [hbl, hpl, ← hp.block]; exact etm_body_mod _ _ hb0
      have hbal : bodyB.length % W.blk se = 0 := by rw [hblk, hp.block]; exact hal
      obtain ⟨hdr, rest, hhl, hsp, hrun⟩ := read_etm W r se sd mk hPd
        (by rw [← hp.block]; exact hblk) (by rw [← hp.macLen]; exact hmac) h4 bodyB hps hal hpos t
      obtain ⟨z', hf, hz⟩ := hfin (.etm (p.dec sd (p.enc se bodyB).2).1 mk)
        (some ⟨r.seq, [], be32 bodyB.length ++ (p.enc se bodyB).2⟩)
      refine ⟨{ st := { r with ciph := .etm (p.dec sd (p.enc se bodyB).2).1 mk, decomp := z', seq := nextSeq r.seq },
                msg := ⟨c, body, r.seq⟩,
                auth := some ⟨r.seq, [], be32 bodyB.length ++ (p.enc se bodyB).2⟩,
                raw := bodyB.length + r.macLen + 4 },
              c, body, rfl, ?_, ?_, ?_, ?_, ?_⟩
      · rw [← hw, hp.seq, hp.macLen, hsp, readMessage_step r hdr rest hhl, hrc]
        simp only
        rw [hrun, hf]; rfl
      · simp only; rw [hp.seq]
      · simp only; rw [hauth, ← ha, hp.seq]
      · rw [hst, ← hcc]
        refine ⟨hp.block, hp.macLen, by simp only; rw [hp.seq], hp.kex, hp.blk4, ?_, hz⟩
        simp only [CiphPaired]
        exact ⟨trivial, (W.ciph.dec_enc se sd bodyB hPd hbal).2, by rw [W.ciph.blk_enc]; exact hblk, hmac⟩
      · simp only
        rw [← hw, List.length_append, List.length_append, be32_length, W.ciph.enc_len se bodyB hbal,
          List.length_take, Nat.min_eq_left (hmac _), hp.macLen]; omega
    | plain => rw [hsc, hrc] at hpc; exact absurd hpc (by simp [CiphPaired])
    | classic _ _ => rw [hsc, hrc] at hpc; exact absurd hpc (by simp [CiphPaired])
    | aead _ _ => rw [hsc, hrc] at hpc; exact absurd hpc (by simp [CiphPaired])
  | aead k iv =>
    cases hrc : r.ciph with
    | aead k' iv0 =>
      rw [hsc, hrc] at hpc
      simp only [CiphPaired] at hpc
      obtain ⟨hk, hiv0, hml⟩ := hpc
      subst hk; subst hiv0
      rw [hsc] at hen hpl
      simp only [OutC.addlen] at hpl
      simp only at hen
      cases hi : incIv iv with
      | error e => rw [hi] at hen; cases hen
      | ok iv' =>
        rw [hi] at hen
        simp only at hen
        have hinj := Except.ok.inj hen
        simp only [Prod.mk.injEq] at hinj
        obtain ⟨hcc, hw, ha⟩ := hinj
        simp only [hPeq, take4_be32_append, drop4_be32_append] at hw ha
        have hal : bodyB.length % r.block = 0 := by
          rw [hbl, hpl, ← hp.block]; exact etm_body_mod _ _ hb0
        obtain ⟨hdr, rest, hhl, hsp, hrun⟩ := read_aead W r k iv iv' (by rw [← hp.macLen]; exact hml) h4 bodyB hps hal hpos hi t
        obtain ⟨z', hf, hz⟩ := hfin (.aead k iv')
          (some ⟨r.seq, iv, be32 bodyB.length ++ p.aenc k iv bodyB (be32 bodyB.length)⟩)
        refine ⟨{ st := { r with ciph := .aead k iv', decomp := z', seq := nextSeq r.seq },
                  msg := ⟨c, body, r.seq⟩,
                  auth := some ⟨r.seq, iv, be32 bodyB.length ++ p.aenc k iv bodyB (be32 bodyB.length)⟩,
                  raw := bodyB.length + r.macLen + 4 },
                c, body, rfl, ?_, ?_, ?_, ?_, ?_⟩
        · rw [← hw, hsp, readMessage_step r hdr rest hhl, hrc]
          simp only
          rw [hrun, hf]; rfl
        · simp only; rw [hp.seq]
        · simp only; rw [hauth, ← ha, hp.seq]
        · rw [hst, ← hcc]
          refine ⟨hp.block, hp.macLen, by simp only; rw [hp.seq], hp.kex, hp.blk4, ?_, hz⟩
          simp only [CiphPaired]
          exact ⟨trivial, trivial, hml⟩
        · simp only
          rw [← hw, List.length_append, be32_length, W.aead.aenc_len, ← hp.macLen, hml]; omega
    | plain => rw [hsc, hrc] at hpc; exact absurd hpc (by simp [CiphPaired])
    | classic _ _ => rw [hsc, hrc] at hpc; exact absurd hpc (by simp [CiphPaired])
    | etm _ _ => rw [hsc, hrc] at hpc; exact absurd hpc (by simp [CiphPaired])

/-! ## message sequences with key / compressor switches -/

/-- the two halves of a switch operation are keyed alike -/
def OpOk {p : Prims} (W : Laws p) : Op p → Prop
  | .setCipher b m _ co ci => 4 ≤ b ∧ CiphPaired W b m co ci
  | .setComp zo zi => ZP W zo zi
  | _ => True

theorem roundtrip_seq {p : Prims} (W : Laws p) (ops : List (Op p)) :
    ∀ (s : Sender p) (r : Receiver p), PairedSt W s r → (∀ op ∈ ops, OpOk W op) →
    ∀ s' w log, sendAll s ops = .ok (s', w, log) → ∀ t : Bytes,
      (recvAll r ops (w ++ t)).msgs = msgsOf s.seq ops ∧ (recvAll r ops (w ++ t)).stop = none ∧
      (recvAll r ops (w ++ t)).rest = t ∧ (recvAll r ops (w ++ t)).auths = log ∧
      ∃ r', (recvAll r ops (w ++ t)).st = some r' ∧ PairedSt W s' r' := by
  induction ops with
  | nil =>
    intro s r hp _ s' w log hs t
    simp only [sendAll] at hs
    have := Except.ok.inj hs
    simp only [Prod.mk.injEq] at this
    obtain ⟨h1, h2, h3⟩ := this
    subst h1; subst h2; subst h3
    exact ⟨rfl, rfl, rfl, rfl, r, rfl, hp⟩
  | cons op ops ih =>
    intro s r hp hok s' w log hs t
    have hok' : ∀ op ∈ ops, OpOk W op := fun o ho => hok o (List.mem_cons_of_mem _ ho)
    have hop : OpOk W op := hok op (List.mem_cons_self ..)
    cases op with
    | msg d rnd =>
      simp only [sendAll] at hs
      cases hsm : sendMessage s d rnd with
      | error e => rw [hsm] at hs; cases hs
      | ok o =>
        rw [hsm] at hs
        simp only at hs
        cases hsa : sendAll o.st ops with
        | error e => rw [hsa] at hs; cases hs
        | ok res =>
          obtain ⟨s1, w1, l1⟩ := res
          rw [hsa] at hs
          simp only at hs
          have := Except.ok.inj hs
          simp only [Prod.mk.injEq] at this
          obtain ⟨h1, h2, h3⟩ := this
          subst h1; subst h2; subst h3
          obtain ⟨o', c, body, hd, hrun, hmsg, hauth, hp', hraw⟩ := roundtrip1 W hp hsm (w1 ++ t)
          have hseq' : o.st.seq = nextSeq s.seq := by
            obtain ⟨_, _, _, _, _, _, _, _, hst⟩ := sendMessage_ok hsm
            rw [hst]
          obtain ⟨i1, i2, i3, i4, r', i5, i6⟩ := ih o.st o'.st hp' hok' s1 w1 l1 hsa t
          rw [hseq'] at i1
          simp only [recvAll, List.append_assoc, hrun]
          refine ⟨?_, i2, i3, ?_, r', i5, i6⟩
          · rw [i1, hmsg, hd]; simp [msgsOf]
          · rw [i4, hauth]
    | setCipher b m sd co ci =>
      simp only [sendAll] at hs
      simp only [recvAll]
      have hp' : PairedSt W (s.setCipher b m sd co) (r.setCipher b m ci) :=
        ⟨rfl, rfl, hp.seq, hp.kex, hop.1, hop.2, hp.comp⟩
      exact ih _ _ hp' hok' s' w log hs t
    | setComp zo zi =>
      simp only [sendAll] at hs
      simp only [recvAll]
      have hp' : PairedSt W { s with comp := zo } { r with decomp := zi } :=
        ⟨hp.block, hp.macLen, hp.seq, hp.kex, hp.blk4, hp.ciph, hop⟩
      exact ih _ _ hp' hok' s' w log hs t
    | resetSeq =>
      simp only [sendAll] at hs
      simp only [recvAll]
      have hp' : PairedSt W { s with seq := 0 } { r with seq := 0 } :=
        ⟨hp.block, hp.macLen, rfl, hp.kex, hp.blk4, hp.ciph, hp.comp⟩
      have := ih _ _ hp' hok' s' w log hs t
      simpa [msgsOf] using this
    | kexDone =>
      simp only [sendAll] at hs
      simp only [recvAll]
      have hp' : PairedSt W { s with kexDone := true } { r with kexDone := true } :=
        ⟨hp.block, hp.macLen, hp.seq, rfl, hp.blk4, hp.ciph, hp.comp⟩
      have := ih _ _ hp' hok' s' w log hs t
      simpa [msgsOf] using this

end PV.Packet
