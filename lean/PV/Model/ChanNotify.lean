/-
  PV.Model.ChanNotify — who gets woken.  The base model (PV.Model.ChanWindow) lets a sender asleep in
  `out_buffer_cv.wait` run again at any time (spurious wake-ups are within Condition's contract), which is right
  for safety but says nothing about lost wake-ups.  Here the base state is paired with the set of sleepers the code
  has actually NOTIFIED; a sleeper runs again only if it is in that set or its timeout expires.  Which call sites
  use `notify_all` and which `notify` comes from the table generated from the AST of channel.py
  (PV/Generated/ChanLock.lean): `_window_adjust` and `_set_closed`.
-/
import PV.Model.ChanWindow
namespace PV.Chan

/-- how the two `out_buffer_cv.notify…` call sites wake sleepers -/
structure NCfg where
  adjustAll : Bool      -- _window_adjust uses notify_all
  closeAll  : Bool      -- _set_closed uses notify_all
  deriving Repr, DecidableEq

structure NSt where
  base : St
  sig  : List Nat       -- sleepers that have been notified and have not run since
  deriving Repr

def TSt.isWaiting : TSt → Bool
  | .waiting _ _ _ _ => true
  | _ => false

def isWaitingAt (s : St) (t : Nat) : Bool :=
  match s.thr[t]? with
  | some x => x.isWaiting
  | none => false

def waitingIds (s : St) : List Nat := (List.range s.thr.length).filter (isWaitingAt s)

/-- `notify()`: one sleeper that is not yet notified (the first in thread order) -/
def notifyOne (s : St) (sig : List Nat) : List Nat :=
  match (waitingIds s).filter (fun t => !sig.contains t) with
  | [] => sig
  | t :: _ => t :: sig

def notifyAll (s : St) (sig : List Nat) : List Nat := waitingIds s ++ sig

def timesOut (s : St) (t dt : Nat) : Bool :=
  match s.thr[t]? with
  | some (.waiting _ _ (some l) _) => decide (l ≤ dt)
  | _ => false

def nstep (n : NCfg) (cfg : Cfg) (z : NSt) : Act → NSt
  | .wake t dt =>
    if z.sig.contains t || timesOut z.base t dt then
      { base := step cfg z.base (.wake t dt), sig := z.sig.filter (fun u => u != t) }
    else z                                    -- an un-notified sleeper whose timeout has not expired stays asleep
  | .adjust k =>
    { base := step cfg z.base (.adjust k),
      sig := if n.adjustAll then notifyAll z.base z.sig else notifyOne z.base z.sig }
  | x =>
    let b := step cfg z.base x
    { base := b,
      sig := if !z.base.closed && b.closed then            -- _set_closed ran
               (if n.closeAll then notifyAll z.base z.sig else notifyOne z.base z.sig)
             else z.sig }

def nrun (n : NCfg) (cfg : Cfg) (z : NSt) (as : List Act) : NSt := as.foldl (nstep n cfg) z

def ninit (s : St) : NSt := { base := s, sig := [] }

end PV.Chan
