/-
  PV.Model.ChanFile — the BufferedFile subclasses of paramiko/channel.py: `ChannelFile`, `ChannelStderrFile`
  (`_read` = recv / recv_stderr, `_write` = sendall / sendall_stderr, which takes everything) and
  `ChannelStdinFile`, whose `close()` is `super().close()` (flush, mark closed) and THEN
  `channel.shutdown_write()` (EOF to the peer).  The stream side is what the channel received, in order:
  `f.s.out` (bytes) plus, for the EOF, the number of `shutdown_write()` calls and a snapshot of the bytes the
  channel had received when the first one was made.  Mathlib-free, total.
-/
import PV.Model.BufFile
namespace PV.BufFile
open PV

structure CF where
  f : BF Chan
  stdin : Bool := false            -- ChannelStdinFile
  eofs : Nat := 0                  -- `shutdown_write()` calls so far
  atEof : Option Bytes := none     -- bytes the channel had received when the first EOF went out

/-- `close()` of the channel file classes -/
def closeC (c : CF) : CF × Except Err Unit :=
  match close chanOps c.f with
  | (f, .error e) => ({ c with f := f }, .error e)
  | (f, .ok ()) =>
    if c.stdin then
      ({ c with f := f, eofs := c.eofs + 1,
                atEof := match c.atEof with | some x => some x | none => some f.s.out }, .ok ())
    else ({ c with f := f }, .ok ())

def stepC (c : CF) : Op → CF × Out
  | .close => match closeC c with
    | (c, .ok ()) => (c, .unit)
    | (c, .error e) => (c, .err e)
  | op => ({ c with f := (step chanOps c.f op).1 }, (step chanOps c.f op).2)

def runC : CF → List Op → CF × List Out
  | c, [] => (c, [])
  | c, op :: ops =>
    let r := stepC c op
    let rs := runC r.1 ops
    (rs.1, r.2 :: rs.2)

end PV.BufFile
