/-
  Helper lemmas for PV.Model.AeadNonce (kept apart from the property theorems in PV/Props/C04.lean).
-/
import PV.Model.AeadNonce
namespace PV.AeadNonce
open PV

theorem iv_split (iv : Bytes) (h : iv.length = 12) : iv = iv.take 4 ++ beBytes 8 (beVal (iv.drop 4)) := by
  have h8 : (iv.drop 4).length = 8 := by simp [h]
  have := beBytes_beVal (iv.drop 4)
  rw [h8] at this
  rw [this, List.take_append_drop]

theorem incIv_facts (iv : Bytes) (h : iv.length = 12) (hc : beVal (iv.drop 4) + 1 < 18446744073709551616) :
    ∃ iv', incIv iv = some iv' ∧ iv'.length = 12 ∧ iv'.take 4 = iv.take 4 ∧
      beVal (iv'.drop 4) = beVal (iv.drop 4) + 1 := by
  refine ⟨iv.take 4 ++ beBytes 8 (beVal (iv.drop 4) + 1), ?_, ?_, ?_, ?_⟩
  · simp [incIv, hc]
  · simp [h]
  · have h4 : (iv.take 4).length = 4 := by simp [h]
    rw [List.take_append_of_le_length (by omega)]
    exact List.take_take.trans (by simp)
  · have h4 : (iv.take 4).length = 4 := by simp [h]
    have : (iv.take 4 ++ beBytes 8 (beVal (iv.drop 4) + 1)).drop 4 = beBytes 8 (beVal (iv.drop 4) + 1) := by
      rw [List.drop_append_of_le_length (by omega)]
      simp
    rw [this, beVal_beBytes_of_lt 8 _ (by simpa using hc)]

theorem trace_rfc (n : Nat) : ∀ (iv : Bytes), iv.length = 12 → beVal (iv.drop 4) + n < 18446744073709551616 →
    trace true n iv = (List.range n).map fun k => some (rfcNonce iv k) := by
  induction n with
  | zero => intro iv _ _; rfl
  | succ n ih =>
    intro iv h hc
    obtain ⟨iv', e1, e2, e3, e4⟩ := incIv_facts iv h (by omega)
    have hrec := ih iv' e2 (by omega)
    simp only [trace, aeadStep, e1, if_true, hrec, List.range_succ_eq_map, List.map_cons, List.map_map]
    congr 1
    · congr 1
      simp only [rfcNonce, Nat.add_zero]
      exact iv_split iv h
    · apply List.map_congr_left
      intro k _
      simp only [Function.comp, rfcNonce, e3, e4]
      congr 3
      omega
end PV.AeadNonce
