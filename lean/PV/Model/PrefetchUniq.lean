/-
  Request-number uniqueness for the prefetch model: request numbers are fresh, every number is in flight at most
  once, and an answer to a prefetch request whose extent is not registered yet belongs to a thread that is between
  "packet sent" and "extent registered".  This is what makes the reader's spin in `_async_response` end.
-/
import PV.Model.PrefetchLive
namespace PV.Prefetch
open PV

def heldNum : Pc → Option Nat
  | .sendSync _ n => some n
  | _ => none

def dCnt (d : Option Nat) (n : Nat) : Nat := if d = some n then 1 else 0

/-- how many times request number `n` is in flight: on the wire to the server, in the response queue, or being
    dispatched by the reader -/
def cnt (c2s : List Nat) (s2c : List (Nat × Resp)) (d : Option Nat) (n : Nat) : Nat :=
  c2s.count n + (s2c.map (·.1)).count n + dCnt d n

structure UniqF (info : List Info) (c2s : List Nat) (s2c : List (Nat × Resp)) (threads : List Thread)
    (ext : List (Nat × Chunk)) (d h : Option Nat) : Prop where
  uniq : ∀ n, cnt c2s s2c d n ≤ 1
  bound : ∀ n, 0 < cnt c2s s2c d n → n < info.length
  freshT : ∀ (i : Nat) (t : Thread) (n o l : Nat) (r : List Chunk), threads[i]? = some t → t.st = TSt.allocd n o l r →
    cnt c2s s2c d n = 0
  freshR : ∀ n, h = some n → cnt c2s s2c d n = 0
  owner : ∀ n i, PfOwned info n i → 0 < cnt c2s s2c d n → dictHas ext n = false →
    ∃ t : Thread, threads[i]? = some t ∧ ∃ o l r, t.st = TSt.sent n o l r
  dispW : ∀ n, d = some n → ∃ i, PfOwned info n i

def Uniq (s : St) : Prop := UniqF s.info s.c2s s.s2c s.threads s.extents (dispNum s.pc) (heldNum s.pc)

/-! ## counting -/

theorem count_cons' (a b : Nat) (l : List Nat) : (a :: l).count b = l.count b + (if a = b then 1 else 0) := by
  rw [List.count_cons]; simp

theorem count_snoc (a b : Nat) (l : List Nat) : (l ++ [a]).count b = l.count b + (if a = b then 1 else 0) := by
  rw [List.count_append, List.count_cons]; simp

theorem cnt_send (c2s : List Nat) (s2c : List (Nat × Resp)) (d : Option Nat) (n m : Nat) :
    cnt (c2s ++ [n]) s2c d m = cnt c2s s2c d m + (if n = m then 1 else 0) := by
  unfold cnt; rw [count_snoc]; omega

theorem cnt_serve (num : Nat) (rest : List Nat) (s2c : List (Nat × Resp)) (r : Resp) (d : Option Nat) (m : Nat) :
    cnt rest (s2c ++ [(num, r)]) d m = cnt (num :: rest) s2c d m := by
  unfold cnt
  rw [count_cons', List.map_append, List.map_cons, List.map_nil, count_snoc]
  show _ + (_ + (if num = m then 1 else 0)) + _ = _
  omega

theorem cnt_pop_disp (c2s : List Nat) (num : Nat) (r : Resp) (rest : List (Nat × Resp)) (m : Nat) :
    cnt c2s rest (some num) m = cnt c2s ((num, r) :: rest) none m := by
  unfold cnt dCnt
  rw [List.map_cons, count_cons']
  show _ + _ + (if some num = some m then 1 else 0) = _ + (_ + (if num = m then 1 else 0)) + (if none = some m then 1 else 0)
  by_cases h : num = m <;> simp [h] <;> omega

theorem cnt_pop_drop (c2s : List Nat) (num : Nat) (r : Resp) (rest : List (Nat × Resp)) (m : Nat) :
    cnt c2s rest none m ≤ cnt c2s ((num, r) :: rest) none m := by
  unfold cnt
  rw [List.map_cons, count_cons']; omega

theorem cnt_undisp (c2s : List Nat) (s2c : List (Nat × Resp)) (n m : Nat) :
    cnt c2s s2c none m + (if n = m then 1 else 0) = cnt c2s s2c (some n) m := by
  unfold cnt dCnt; simp

theorem cnt_pos_inflight {c2s : List Nat} {s2c : List (Nat × Resp)} {pc : Pc} {n : Nat}
    (h : InFlight c2s s2c pc n) : 0 < cnt c2s s2c (dispNum pc) n := by
  unfold cnt dCnt
  rcases h with (h | h) | h
  · have := List.count_pos_iff.mpr h; omega
  · have := List.count_pos_iff.mpr h; omega
  · simp [h]

/-! ## monotone transfer: nothing but the in-flight counters (which may only shrink) and the reader's pc changes -/

theorem uniqF_mono {info c2s s2c threads ext d h} {c2s' : List Nat} {s2c' : List (Nat × Resp)} {d' h' : Option Nat}
    (hu : UniqF info c2s s2c threads ext d h) (hle : ∀ n, cnt c2s' s2c' d' n ≤ cnt c2s s2c d n)
    (hd : ∀ n, d' = some n → ∃ i, PfOwned info n i) (hh : ∀ n, h' = some n → h = some n) :
    UniqF info c2s' s2c' threads ext d' h' := by
  refine ⟨?_, ?_, ?_, ?_, ?_, hd⟩
  · intro n; exact Nat.le_trans (hle n) (hu.uniq n)
  · intro n hn; exact hu.bound n (Nat.lt_of_lt_of_le hn (hle n))
  · intro i t n o l r ht hs
    have := hu.freshT i t n o l r ht hs
    have := hle n; omega
  · intro n hn
    have := hu.freshR n (hh n hn)
    have := hle n; omega
  · intro n i ho hp hx
    exact hu.owner n i ho (Nat.lt_of_lt_of_le hp (hle n)) hx

theorem heldNum_inert {done pf : Bool} {pc : Pc} (h : Inert done pf pc) : heldNum pc = none := by
  rcases h with h | ⟨c, h⟩ | ⟨c, h, _⟩ | ⟨c, h⟩ <;> subst h <;> rfl

theorem uniq_advance {s : St} (fuel : Nat) (c : RCtx)
    (hu : UniqF s.info s.c2s s.s2c s.threads s.extents none none) : Uniq (advance fuel s c) := by
  obtain ⟨h1, h2, h3, h4, h5, _, _, h8⟩ := advance_shape fuel s c
  unfold Uniq
  rw [h1, h2, h3, h4, h5, (inert_disp h8).1, heldNum_inert h8]
  exact hu

theorem uniq_raise {s : St} (c : RCtx) (code : Nat)
    (hu : UniqF s.info s.c2s s.s2c s.threads s.extents none none) : Uniq (raiseRead s c code) := hu

theorem uniq_afterCheck {s : St} (c : RCtx)
    (hu : UniqF s.info s.c2s s.s2c s.threads s.extents none none) : Uniq (afterCheck s c) := by
  unfold afterCheck
  split
  · exact uniq_raise (s := { s with saved := none }) c _ hu
  · exact uniq_advance _ _ hu

theorem uniq_finish {s : St} (c : RCtx)
    (hu : UniqF s.info s.c2s s.s2c s.threads s.extents none none) : Uniq (finish s c) := hu

/-! ## list plumbing -/

theorem get_set_ne {α : Type} {l : List α} {i j : Nat} {a : α} (h : i ≠ j) : (l.set i a)[j]? = l[j]? := by
  rw [List.getElem?_set, if_neg h]

theorem get_set_self {α : Type} {l : List α} {i : Nat} {a : α} (h : i < l.length) : (l.set i a)[i]? = some a := by
  rw [List.getElem?_set]; simp [h]

theorem pfOwned_of_append {info m : List Info} {n i : Nat} (h : PfOwned (info ++ m) n i) (hlt : n < info.length) :
    PfOwned info n i := by
  obtain ⟨o, l, hh⟩ := h
  rw [List.getElem?_append_left hlt] at hh
  exact ⟨o, l, hh⟩

theorem dictHas_dictSet_inv {α : Type} {d : List (Nat × α)} {k m : Nat} {v : α}
    (h : dictHas (dictSet d k v) m = false) : m ≠ k ∧ dictHas d m = false := by
  have hall := dictHas_false_mem h
  constructor
  · intro hc
    subst hc
    unfold dictSet at hall
    by_cases hk : dictHas d m = true
    · simp only [hk, if_true] at hall
      unfold dictHas at hk
      rw [List.any_eq_true] at hk
      obtain ⟨e, he, hek⟩ := hk
      have := hall (if e.1 == m then (m, v) else e) (List.mem_map.mpr ⟨e, he, rfl⟩)
      simp [hek] at this
    · simp only [hk] at hall
      exact hall (m, v) (by simp) rfl
  · apply dictHas_false_of
    intro e he hem
    unfold dictSet at hall
    by_cases hk : dictHas d k = true
    · simp only [hk, if_true] at hall
      have := hall (if e.1 == k then (k, v) else e) (List.mem_map.mpr ⟨e, he, rfl⟩)
      by_cases hek : e.1 = k
      · simp [hek] at this
        -- then m = e.1 = k and (k, v) has key k = m
        exact this (by rw [← hem, hek])
      · simp [hek] at this
        exact this hem
    · simp only [hk] at hall
      exact hall e (List.mem_append_left _ he) hem

theorem dictHas_dictDel_inv {α : Type} {d : List (Nat × α)} {k m : Nat}
    (h : dictHas (dictDel d k) m = false) (hne : m ≠ k) : dictHas d m = false := by
  apply dictHas_false_of
  intro e he hem
  have hall := dictHas_false_mem h
  apply hall e ?_ hem
  unfold dictDel
  apply List.mem_filter.mpr
  refine ⟨he, ?_⟩
  have : e.1 ≠ k := by rw [hem]; exact hne
  simpa using this


/-! ## the non-reader actions -/

theorem uniq_serve {s s' : St} {k : Nat} (hu : Uniq s) (h : step s (.serve k) = some s') : Uniq s' := by
  simp only [step] at h
  cases hc : s.c2s with
  | nil => simp [hc] at h
  | cons num rest =>
    simp only [hc] at h
    cases hinf : s.info[num]? with
    | none => simp [hinf] at h
    | some inf =>
      simp only [hinf] at h
      cases h
      unfold Uniq at hu ⊢
      rw [hc] at hu
      exact uniqF_mono hu (fun n => Nat.le_of_eq (cnt_serve num rest s.s2c _ _ n)) hu.dispW (fun _ x => x)

theorem uniq_serveFail {s s' : St} {k : Nat} (hu : Uniq s) (h : step s (.serveFail k) = some s') : Uniq s' := by
  simp only [step] at h
  cases hc : s.c2s with
  | nil => simp [hc] at h
  | cons num rest =>
    simp only [hc] at h
    cases hinf : s.info[num]? with
    | none => simp [hinf] at h
    | some inf =>
      simp only [hinf] at h
      cases h
      unfold Uniq at hu ⊢
      rw [hc] at hu
      exact uniqF_mono hu (fun n => Nat.le_of_eq (cnt_serve num rest s.s2c _ _ n)) hu.dispW (fun _ x => x)

/-- changing the state of thread `i` from something that is neither `allocd` nor `sent` to something that is
    not `allocd` -/
theorem uniq_thread_quiet {info c2s s2c threads ext d h} {i : Nat} {old new : Thread}
    (hu : UniqF info c2s s2c threads ext d h) (hth : threads[i]? = some old)
    (hold : ∀ n o l r, old.st ≠ .sent n o l r) (hnew : ∀ n o l r, new.st ≠ .allocd n o l r) :
    UniqF info c2s s2c (threads.set i new) ext d h := by
  refine ⟨hu.uniq, hu.bound, ?_, hu.freshR, ?_, hu.dispW⟩
  · intro j t n o l r ht hs
    rcases get_set ht with ⟨_, ht'⟩ | ⟨_, ht'⟩
    · subst ht'; exact absurd hs (hnew n o l r)
    · exact hu.freshT j t n o l r ht' hs
  · intro n j ho hp hx
    obtain ⟨t, ht, o, l, r, hs⟩ := hu.owner n j ho hp hx
    by_cases hij : i = j
    · subst hij
      rw [hth] at ht
      cases ht
      exact absurd hs (hold n o l r)
    · exact ⟨t, by rw [get_set_ne hij]; exact ht, o, l, r, hs⟩

theorem uniq_tCheck {s s' : St} {i : Nat} (hu : Uniq s) (h : step s (.tCheck i) = some s') : Uniq s' := by
  simp only [step] at h
  split at h
  · rename_i c rest cap hth
    split at h
    · cases h
      exact uniq_thread_quiet hu hth (by intro n o l r hc; cases hc) (by intro n o l r hc; cases hc)
    · cases h
  · cases h

theorem uniq_tAlloc {s s' : St} {i : Nat} (hu : Uniq s) (h : step s (.tAlloc i) = some s') : Uniq s' := by
  simp only [step] at h
  split at h
  · rename_i c rest cap hth
    cases h
    unfold Uniq at hu ⊢
    simp only [setThread]
    refine ⟨hu.uniq, ?_, ?_, hu.freshR, ?_, ?_⟩
    · intro n hn
      have := hu.bound n hn
      simp only [List.length_append, List.length_singleton]; omega
    · intro j t n o l r ht hs
      rcases get_set ht with ⟨_, ht'⟩ | ⟨_, ht'⟩
      · subst ht'
        cases hs
        rcases Nat.eq_zero_or_pos (cnt s.c2s s.s2c (dispNum s.pc) s.info.length) with h0 | h0
        · exact h0
        · have := hu.bound _ h0; omega
      · exact hu.freshT j t n o l r ht' hs
    · intro n j ho hp hx
      have hlt := hu.bound n hp
      obtain ⟨t, ht, o, l, r, hs⟩ := hu.owner n j (pfOwned_of_append ho hlt) hp hx
      by_cases hij : i = j
      · subst hij
        rw [hth] at ht
        cases ht
        cases hs
      · exact ⟨t, by rw [get_set_ne hij]; exact ht, o, l, r, hs⟩
    · intro n hn
      obtain ⟨j, hj⟩ := hu.dispW n hn
      exact ⟨j, pfOwned_append hj _⟩
  · cases h

theorem uniq_tSend {s s' : St} {i : Nat} (hl : Live s) (hu : Uniq s) (h : step s (.tSend i) = some s') : Uniq s' := by
  simp only [step] at h
  split at h
  · rename_i num off len rest cap hth
    cases h
    unfold Uniq at hu ⊢
    unfold Live at hl
    simp only [setThread]
    have hme : PfOwned s.info num i := (hl.thrs _ _ hth).1.1
    have hfresh := hu.freshT i _ num off len rest hth rfl
    refine ⟨?_, ?_, ?_, ?_, ?_, hu.dispW⟩
    · intro m
      rw [cnt_send]
      by_cases hm : num = m
      · subst hm; simp [hfresh]
      · simp only [hm, if_false]; exact hu.uniq m
    · intro m hp
      rw [cnt_send] at hp
      by_cases hm : num = m
      · subst hm; exact pfOwned_lt hme
      · simp only [hm, if_false] at hp; exact hu.bound m hp
    · intro j t m o l r ht hs
      rcases get_set ht with ⟨_, ht'⟩ | ⟨hj, ht'⟩
      · subst ht'; cases hs
      · rw [cnt_send]
        have hold := hu.freshT j t m o l r ht' hs
        have hmj : PfOwned s.info m j := by
          have := (hl.thrs j t ht').1
          rw [hs] at this
          exact this.1
        have hne : num ≠ m := by
          intro hc; subst hc
          exact hj (pfOwned_inj hmj hme)
        simp [hne, hold]
    · intro m hm
      rw [cnt_send]
      have hold := hu.freshR m hm
      have hne : num ≠ m := by
        intro hc; subst hc
        have hsync : SyncOwned s.info num := by
          cases hpc : s.pc with
          | sendSync c n =>
            rw [hpc] at hm
            simp [heldNum] at hm
            subst hm
            exact hl.heldW c n hpc
          | _ => rw [hpc] at hm; simp [heldNum] at hm
        exact pf_not_sync hme hsync
      simp [hne, hold]
    · intro m j ho hp hx
      rw [cnt_send] at hp
      by_cases hm : num = m
      · subst hm
        have : j = i := pfOwned_inj ho hme
        subst this
        exact ⟨_, get_set_self (lt_of_get hth), off, len, rest, rfl⟩
      · simp only [hm, if_false] at hp
        obtain ⟨t, ht, o, l, r, hs⟩ := hu.owner m j ho hp hx
        by_cases hij : i = j
        · subst hij
          rw [hth] at ht
          cases ht
          cases hs
        · exact ⟨t, by rw [get_set_ne hij]; exact ht, o, l, r, hs⟩
  · cases h

theorem uniq_tReg {s s' : St} {i : Nat} (hu : Uniq s) (h : step s (.tReg i) = some s') : Uniq s' := by
  simp only [step] at h
  split at h
  · rename_i num off len rest cap hth
    cases h
    unfold Uniq at hu ⊢
    simp only [setThread]
    refine ⟨hu.uniq, hu.bound, ?_, hu.freshR, ?_, hu.dispW⟩
    · intro j t n o l r ht hs
      rcases get_set ht with ⟨_, ht'⟩ | ⟨_, ht'⟩
      · subst ht'; cases hs
      · exact hu.freshT j t n o l r ht' hs
    · intro m j ho hp hx
      obtain ⟨hne, hx'⟩ := dictHas_dictSet_inv hx
      obtain ⟨t, ht, o, l, r, hs⟩ := hu.owner m j ho hp hx'
      by_cases hij : i = j
      · subst hij
        rw [hth] at ht
        cases ht
        cases hs
        exact absurd rfl hne
      · exact ⟨t, by rw [get_set_ne hij]; exact ht, o, l, r, hs⟩
  · cases h


/-! ## the reader's actions -/

theorem uniq_startPrefetch {s : St} (hu : Uniq s) (hpc : s.pc = .idle) (ch : List Chunk) (cap : Option Nat) :
    Uniq (startPrefetch s ch cap) := by
  unfold Uniq at hu ⊢
  simp only [startPrefetch]
  refine ⟨hu.uniq, hu.bound, ?_, hu.freshR, ?_, hu.dispW⟩
  · intro j t n o l r ht hs
    by_cases hj : j < s.threads.length
    · rw [List.getElem?_append_left hj] at ht
      exact hu.freshT j t n o l r ht hs
    · rw [List.getElem?_append_right (by omega)] at ht
      have hlen := lt_of_get ht
      simp at hlen
      have : j - s.threads.length = 0 := by omega
      rw [this] at ht
      simp at ht
      subst ht
      cases hs
  · intro n j ho hp hx
    obtain ⟨t, ht, rest⟩ := hu.owner n j ho hp hx
    exact ⟨t, by rw [List.getElem?_append_left (lt_of_get ht)]; exact ht, rest⟩

theorem uniq_rOp {s s' : St} {op : Op} (hu : Uniq s) (h : step s (.rOp op) = some s') : Uniq s' := by
  simp only [step] at h
  cases hpc : s.pc with
  | idle =>
    simp only [hpc] at h
    have hq : UniqF s.info s.c2s s.s2c s.threads s.extents none none := by
      unfold Uniq at hu; rw [hpc] at hu; exact hu
    cases op with
    | seek off => simp only at h; cases h; exact hq
    | read want => simp only at h; cases h; exact uniq_advance _ _ hq
    | readAt off want =>
      simp only at h; cases h
      apply uniq_advance
      exact hq
    | prefetch fs cap =>
      simp only at h
      split at h
      · cases h; exact hu
      · cases h; exact uniq_startPrefetch hu hpc _ _
    | readv ch cap =>
      simp only at h
      split at h
      · cases h; exact hu
      · cases h; exact uniq_startPrefetch hu hpc _ _
  | _ => simp [hpc] at h

/-- after the locked region of `_async_response` for the request being dispatched -/
theorem uniq_asyncResponse {s s1 : St} {n : Nat} {r : Resp} (hu : Uniq s) (hd : dispNum s.pc = some n)
    (h : asyncResponse s n r = some s1) : UniqF s1.info s1.c2s s1.s2c s1.threads s1.extents none none := by
  obtain ⟨_, h1, h2, h3, h4, h5, _, _⟩ := asyncResponse_shape h
  rw [h1, h2, h3, h4, h5]
  unfold Uniq at hu
  rw [hd] at hu
  have hle : ∀ m, cnt s.c2s s.s2c none m + (if n = m then 1 else 0) = cnt s.c2s s.s2c (some n) m :=
    fun m => cnt_undisp _ _ n m
  refine ⟨?_, ?_, ?_, ?_, ?_, ?_⟩
  · intro m; have := hu.uniq m; have := hle m; omega
  · intro m hp; exact hu.bound m (by have := hle m; omega)
  · intro j t m o l r' ht hs
    have := hu.freshT j t m o l r' ht hs
    have := hle m; omega
  · intro m hm; cases hm
  · intro m j ho hp hx
    by_cases hmn : m = n
    · subst hmn
      exfalso
      have := hu.uniq m
      have := hle m
      simp at this
      omega
    · exact hu.owner m j ho (by have := hle m; omega) (dictHas_dictDel_inv hx hmn)
  · intro m hm; cases hm

theorem uniq_rStep {s s' : St} (hl : Live s) (hu : Uniq s) (h : step s .rStep = some s') : Uniq s' := by
  simp only [step] at h
  have hu0 := hu
  unfold Uniq at hu
  unfold Live at hl
  cases hpc : s.pc with
  | idle => simp [hpc] at h
  | cont c =>
    simp only [hpc] at h; cases h
    rw [hpc] at hu
    exact uniq_advance _ _ hu
  | recvPf c =>
    simp only [hpc] at h
    rw [hpc] at hu
    cases hq : s.s2c with
    | nil => simp [hq] at h
    | cons e rest =>
      obtain ⟨num, r⟩ := e
      simp only [hq] at h
      rw [hq] at hu
      split at h
      · rename_i o l j hinfo
        cases h
        unfold Uniq
        exact uniqF_mono hu (fun m => Nat.le_of_eq (cnt_pop_disp s.c2s num r rest m))
          (by intro m hm; simp [dispNum] at hm; subst hm; exact ⟨j, o, l, hinfo⟩)
          (by intro m hm; simp [heldNum] at hm)
      · cases h
        apply uniq_afterCheck
        exact uniqF_mono hu (fun m => cnt_pop_drop s.c2s num r rest m) (by intro m hm; cases hm)
          (by intro m hm; cases hm)
  | dispPf c num r =>
    simp only [hpc] at h
    cases ha : asyncResponse s num r with
    | none => simp [ha] at h
    | some s1 =>
      simp only [ha] at h; cases h
      exact uniq_afterCheck _ (uniq_asyncResponse hu0 (by rw [hpc]; rfl) ha)
  | allocSync c =>
    simp only [hpc] at h; cases h
    rw [hpc] at hu
    unfold Uniq
    simp only
    refine ⟨hu.uniq, ?_, hu.freshT, ?_, ?_, ?_⟩
    · intro n hn
      have := hu.bound n hn
      simp only [List.length_append, List.length_singleton]; omega
    · intro n hn
      simp [heldNum] at hn
      subst hn
      rcases Nat.eq_zero_or_pos (cnt s.c2s s.s2c (dispNum (Pc.allocSync c)) s.info.length) with h0 | h0
      · exact h0
      · have := hu.bound _ h0; omega
    · intro n j ho hp hx
      exact hu.owner n j (pfOwned_of_append ho (hu.bound n hp)) hp hx
    · intro n hn; simp [dispNum] at hn
  | sendSync c num =>
    simp only [hpc] at h; cases h
    rw [hpc] at hu
    have hsync := hl.heldW c num hpc
    have hfresh := hu.freshR num rfl
    unfold Uniq
    simp only
    refine ⟨?_, ?_, ?_, ?_, ?_, ?_⟩
    · intro m
      show cnt (s.c2s ++ [num]) s.s2c none m ≤ 1
      rw [cnt_send]
      by_cases hm : num = m
      · subst hm
        have : cnt s.c2s s.s2c none num = 0 := hfresh
        simp [this]
      · simp only [hm, if_false]; exact hu.uniq m
    · intro m hp
      have hp' : 0 < cnt (s.c2s ++ [num]) s.s2c none m := hp
      rw [cnt_send] at hp'
      by_cases hm : num = m
      · subst hm
        obtain ⟨o, l, ho⟩ := hsync
        exact lt_of_get ho
      · simp only [hm, if_false] at hp'; exact hu.bound m hp'
    · intro j t m o l r ht hs
      show cnt (s.c2s ++ [num]) s.s2c none m = 0
      rw [cnt_send]
      have hold : cnt s.c2s s.s2c none m = 0 := hu.freshT j t m o l r ht hs
      have hmj : PfOwned s.info m j := by
        have := (hl.thrs j t ht).1
        rw [hs] at this
        exact this.1
      have hne : num ≠ m := by
        intro hc; subst hc; exact pf_not_sync hmj hsync
      simp [hne, hold]
    · intro m hm; simp [heldNum] at hm
    · intro m j ho hp hx
      have hp' : 0 < cnt (s.c2s ++ [num]) s.s2c none m := hp
      rw [cnt_send] at hp'
      have hne : num ≠ m := by
        intro hc; subst hc; exact pf_not_sync ho hsync
      simp only [hne, if_false] at hp'
      exact hu.owner m j ho hp' hx
    · intro m hm; simp [dispNum] at hm
  | recvSync c num =>
    simp only [hpc] at h
    rw [hpc] at hu
    cases hq : s.s2c with
    | nil => simp [hq] at h
    | cons e rest =>
      obtain ⟨n', r⟩ := e
      simp only [hq] at h
      rw [hq] at hu
      have hdrop : UniqF s.info s.c2s rest s.threads s.extents none none :=
        uniqF_mono hu (fun m => cnt_pop_drop s.c2s n' r rest m) (by intro m hm; cases hm) (by intro m hm; cases hm)
      by_cases hn : n' = num
      · simp only [hn, if_true] at h
        cases r with
        | data d =>
          simp only at h
          split at h
          · cases h; exact uniq_finish _ hdrop
          · cases h; exact uniq_advance _ _ hdrop
        | eof =>
          simp only at h; cases h
          exact uniq_finish _ hdrop
        | err code =>
          simp only at h; cases h
          exact uniq_raise _ _ hdrop
      · simp only [hn, if_false] at h
        split at h
        · rename_i o l j hinfo
          cases h
          unfold Uniq
          exact uniqF_mono hu (fun m => Nat.le_of_eq (cnt_pop_disp s.c2s n' r rest m))
            (by intro m hm; simp [dispNum] at hm; subst hm; exact ⟨j, o, l, hinfo⟩)
            (by intro m hm; simp [heldNum] at hm)
        · cases h
          unfold Uniq
          exact hdrop
  | dispSync c num n' r =>
    simp only [hpc] at h
    cases ha : asyncResponse s n' r with
    | none => simp [ha] at h
    | some s1 =>
      simp only [ha] at h; cases h
      have := uniq_asyncResponse (s1 := s1) hu0 (by rw [hpc]; rfl) ha
      unfold Uniq
      exact this

theorem step_uniq {s s' : St} {a : Act} (hl : Live s) (hu : Uniq s) (h : step s a = some s') : Uniq s' := by
  cases a with
  | serve k => exact uniq_serve hu h
  | serveFail k => exact uniq_serveFail hu h
  | tCheck i => exact uniq_tCheck hu h
  | tAlloc i => exact uniq_tAlloc hu h
  | tSend i => exact uniq_tSend hl hu h
  | tReg i => exact uniq_tReg hu h
  | rOp op => exact uniq_rOp hu h
  | rStep => exact uniq_rStep hl hu h

theorem init_uniq (file : Bytes) (maxReq : Nat) (bufsize : Nat := 0) : Uniq (init file maxReq bufsize) := by
  unfold Uniq init
  refine ⟨?_, ?_, ?_, ?_, ?_, ?_⟩ <;> simp [cnt, dCnt, dispNum, heldNum]

theorem run_live_uniq {s : St} (hl : Live s) (hu : Uniq s) (as : List Act) (ha : ∀ a ∈ as, actOK a) :
    Live (run s as) ∧ Uniq (run s as) := by
  induction as generalizing s with
  | nil => exact ⟨hl, hu⟩
  | cons a as ih =>
    simp only [run]
    have ha' : ∀ b ∈ as, actOK b := fun b hb => ha b (List.mem_cons_of_mem _ hb)
    cases hs : step s a with
    | none => simpa using ih hl hu ha'
    | some s' =>
      simp only [Option.getD_some]
      exact ih (step_live hl (ha a (List.mem_cons_self ..)) hs) (step_uniq hl hu hs) ha'


/-! ## a blocked reader is never stuck -/

/-- the reader is in the middle of a call and cannot take its next step: it waits for a response with none
    queued, or it spins in `_async_response` because the extent of the answer in hand is not registered yet -/
def ReaderBlocked (s : St) : Prop := s.pc ≠ .idle ∧ step s .rStep = none

theorem dictHas_false_of_get_none {α : Type} {d : List (Nat × α)} {k : Nat} (h : dictGet? d k = none) :
    dictHas d k = false := by
  unfold dictGet? at h
  unfold dictHas
  rw [Option.map_eq_none_iff] at h
  rw [Bool.eq_false_iff]
  intro hc
  rw [List.any_eq_true] at hc
  obtain ⟨e, he, hk⟩ := hc
  have := List.find?_eq_none.mp h e he
  exact this hk

theorem spin_not_stuck {s : St} {n : Nat} {r : Resp} (hu : Uniq s) (hd : dispNum s.pc = some n)
    (ha : asyncResponse s n r = none) : ∃ a, nonReader a ∧ (step s a).isSome = true := by
  unfold Uniq at hu
  have hx : dictHas s.extents n = false := by
    apply dictHas_false_of_get_none
    unfold asyncResponse at ha
    cases hg : dictGet? s.extents n with
    | none => rfl
    | some v =>
      simp only [hg] at ha
      obtain ⟨o, l⟩ := v
      cases r <;> simp at ha
  obtain ⟨i, hi⟩ := hu.dispW n hd
  have hp : 0 < cnt s.c2s s.s2c (dispNum s.pc) n := by
    unfold cnt dCnt; simp [hd]
  obtain ⟨t, ht, o, l, rest, hs⟩ := hu.owner n i hi hp hx
  obtain ⟨st, cap⟩ := t
  simp only at hs
  subst hs
  exact ⟨.tReg i, trivial, by simp [step, ht]⟩

theorem blocked_not_stuck {s : St} (hl : Live s) (hu : Uniq s) (hb : ReaderBlocked s) :
    ∃ a, nonReader a ∧ (step s a).isSome = true := by
  obtain ⟨hne, hstep⟩ := hb
  simp only [step] at hstep
  cases hpc : s.pc with
  | idle => exact absurd hpc hne
  | cont c => simp [hpc] at hstep
  | allocSync c => simp [hpc] at hstep
  | sendSync c n => simp [hpc] at hstep
  | recvPf c =>
    simp only [hpc] at hstep
    cases hq : s.s2c with
    | nil => exact waiting_not_stuck hl ⟨hq, Or.inl ⟨c, hpc⟩⟩
    | cons e rest =>
      obtain ⟨num, r⟩ := e
      simp only [hq] at hstep
      split at hstep <;> cases hstep
  | recvSync c n =>
    simp only [hpc] at hstep
    cases hq : s.s2c with
    | nil => exact waiting_not_stuck hl ⟨hq, Or.inr ⟨c, n, hpc⟩⟩
    | cons e rest =>
      obtain ⟨n', r⟩ := e
      simp only [hq] at hstep
      by_cases hn : n' = n
      · simp only [hn, if_true] at hstep
        cases r with
        | data d => simp only at hstep; split at hstep <;> cases hstep
        | eof => simp only at hstep; cases hstep
        | err code => simp only at hstep; cases hstep
      · simp only [hn, if_false] at hstep
        split at hstep <;> cases hstep
  | dispPf c n r =>
    simp only [hpc] at hstep
    cases ha : asyncResponse s n r with
    | none => exact spin_not_stuck hu (by rw [hpc]; rfl) ha
    | some s1 => simp [ha] at hstep
  | dispSync c n n' r =>
    simp only [hpc] at hstep
    cases ha : asyncResponse s n' r with
    | none => exact spin_not_stuck hu (by rw [hpc]; rfl) ha
    | some s1 => simp [ha] at hstep

theorem runStrict_live_uniq {s s' : St} {as : List Act} (hl : Live s) (hu : Uniq s) (ha : ∀ a ∈ as, actOK a)
    (h : runStrict s as = some s') : Live s' ∧ Uniq s' := by
  induction as generalizing s with
  | nil => simp [runStrict] at h; subst h; exact ⟨hl, hu⟩
  | cons a as ih =>
    simp only [runStrict] at h
    cases hs : step s a with
    | none => simp [hs] at h
    | some s1 =>
      simp only [hs] at h
      exact ih (step_live hl (ha a (List.mem_cons_self ..)) hs) (step_uniq hl hu hs)
        (fun b hb => ha b (List.mem_cons_of_mem _ hb)) h

end PV.Prefetch
