/-
  PV.Model.SigAlgo — executable model of signature-ALGORITHM enforcement in paramiko:

    Transport.preferred_keys / preferred_pubkeys         (`preferredKeys`, `filterAlgos`)
    the host-key choice of Transport._parse_kex_init     (`agreeClient`)
    Transport._check_sig_algorithm                       (`checkSigAlgorithm`)
    Transport._verify_key                                (`verifyKey`)
    RSAKey / ECDSAKey / Ed25519Key .verify_ssh_sig       (`verifySshSig`)
    the `publickey` branch of AuthHandler._parse_userauth_request, with
    AuthHandler._generate_key_from_request               (`authPublickey`)

  Algorithm names are the UTF-8 bytes of the Python strings (the blob's name is compared as bytes:
  a name that is not valid UTF-8 equals no Python string).  The cryptographic verification itself
  (`rawVerify`: key, hash id, data, signature → Bool), key-blob parsing (`parseKey`) and the
  server's `check_auth_publickey` callback are parameters.  Mathlib-free.
-/
import PV.Base.Wire
namespace PV.SigAlgo
open PV PV.Wire

abbrev Name := Bytes

/-- `"-cert-v01@openssh.com"` -/
def certSuffix : Name :=
  [45, 99, 101, 114, 116, 45, 118, 48, 49, 64, 111, 112, 101, 110, 115, 115, 104, 46, 99, 111, 109]

/-- Python `s.replace(pat, "")`: non-overlapping occurrences removed left to right -/
def removeAllAux (pat : Bytes) : Nat → Bytes → Bytes
  | 0, _ => []
  | _, [] => []
  | fuel + 1, c :: cs =>
    if pat ≠ [] ∧ pat.isPrefixOf (c :: cs) then removeAllAux pat fuel ((c :: cs).drop pat.length)
    else c :: removeAllAux pat fuel cs

def removeAll (pat s : Bytes) : Bytes := removeAllAux pat s.length s

/-- `name.replace("-cert-v01@openssh.com", "")` -/
def stripCert (n : Name) : Name := removeAll certSuffix n

/-- `Transport._filter_algorithm`: defaults minus `disabled_algorithms[kind]`, order kept -/
def filterAlgos (defaults disabled : List Name) : List Name := defaults.filter (fun x => !disabled.contains x)

/-- `Transport.preferred_keys`: the enabled names, then their cert variants (unless disabled themselves) -/
def preferredKeys (defaults disabled : List Name) : List Name :=
  let f := filterAlgos defaults disabled
  f ++ (f.map (· ++ certSuffix)).filter (fun x => !disabled.contains x)

/-- client side of `_parse_kex_init`: first of OUR list the server also offers -/
def agreeClient (preferred serverList : List Name) : Option Name :=
  (preferred.filter (fun x => serverList.contains x)).head?

def rd (m : Bytes) : Rd := { content := m, pos := 0 }

/-- the algorithm name a signature blob carries (its first string) -/
def sigAlgoOf (sig : Bytes) : Name := (rd sig).getString.1
/-- the signature proper (second string) -/
def sigBodyOf (sig : Bytes) : Bytes := (rd sig).getString.2.getString.1

/-- `Transport._check_sig_algorithm(expected, sig)`: does not raise iff the blob names exactly
    `expected` without its certificate suffix -/
def checkSigAlgorithm (expected : Name) (sig : Bytes) : Bool := sigAlgoOf sig == stripCert expected

inductive KeyClass | rsa | ecdsa | ed25519
  deriving DecidableEq, Repr

/-- a public key object: its class and the one signature-algorithm name it answers to apart from
    the RSA family (`ecdsa_curve.key_format_identifier`, `"ssh-ed25519"`) -/
structure Key where
  cls : KeyClass
  ident : Name
  pub : Bytes
  deriving DecidableEq, Repr

inductive Err
  | ssh        -- SSHException
  | keyError   -- KeyError (`_key_info[...]`)
  | other      -- anything else a key constructor raises
  deriving DecidableEq, Repr

structure Prims where
  /-- `Transport._key_info` -/
  keyInfo : Name → Option KeyClass
  /-- `RSAKey.HASHES`: algorithm name ↦ hash id -/
  rsaHashes : Name → Option Nat
  /-- key class constructor on `Message(blob)` -/
  parseKey : KeyClass → Bytes → Except Err Key
  /-- the library's verification: key, hash id (0 = the key type's fixed hash), data, signature -/
  rawVerify : Key → Nat → Bytes → Bytes → Bool

def ed25519Name : Name := [115, 115, 104, 45, 101, 100, 50, 53, 53, 49, 57]

/-- `key.verify_ssh_sig(data, Message(sig))` for the three key classes -/
def verifySshSig (P : Prims) (key : Key) (data sig : Bytes) : Bool :=
  match key.cls with
  | .rsa =>
    match P.rsaHashes (sigAlgoOf sig) with
    | none => false
    | some h => P.rawVerify key h data (sigBodyOf sig)
  | .ecdsa => if sigAlgoOf sig ≠ key.ident then false else P.rawVerify key 0 data (sigBodyOf sig)
  | .ed25519 => if sigAlgoOf sig ≠ ed25519Name then false else P.rawVerify key 0 data (sigBodyOf sig)

/-- `Transport._verify_key(host_key, sig)` with `self.host_key_type`, `self.H`;
    `.ok key` = returns normally and sets `self.host_key = key` -/
def verifyKey (P : Prims) (hostKeyType : Name) (H hostKey sig : Bytes) : Except Err Key :=
  match P.keyInfo hostKeyType with
  | none => .error .keyError
  | some cls =>
    match P.parseKey cls hostKey with
    | .error e => .error e
    | .ok key =>
      if ¬ checkSigAlgorithm hostKeyType sig then .error .ssh
      else if ¬ verifySshSig P key H sig then .error .ssh
      else .ok key

/-- the same function WITHOUT the algorithm comparison (the code before the repair) -/
def verifyKeyUnchecked (P : Prims) (hostKeyType : Name) (H hostKey sig : Bytes) : Except Err Key :=
  match P.keyInfo hostKeyType with
  | none => .error .keyError
  | some cls =>
    match P.parseKey cls hostKey with
    | .error e => .error e
    | .ok key => if ¬ verifySshSig P key H sig then .error .ssh else .ok key

/-- client: negotiation then verification -/
def clientKex (P : Prims) (defaults disabled serverList : List Name) (H hostKey sig : Bytes) :
    Except Err (Name × Key) :=
  match agreeClient (preferredKeys defaults disabled) serverList with
  | none => .error .ssh      -- IncompatiblePeer
  | some t => match verifyKey P t H hostKey sig with
    | .ok k => .ok (t, k)
    | .error e => .error e

/-! ## server: the `publickey` method of USERAUTH_REQUEST -/

inductive AuthOut
  | disconnect     -- _disconnect_no_more_auth (key unusable / algorithm unsupported or disabled)
  | pkOk           -- MSG_USERAUTH_PK_OK (no signature attached)
  | failure        -- the request is answered as failed
  | success        -- the callback's non-failed result stands (successful / partial)
  deriving DecidableEq, Repr

/-- `_generate_key_from_request(algorithm, keyblob)`: `none` = key is None / exception swallowed -/
def generateKeyFromRequest (P : Prims) (pubkeys : List Name) (algorithm : Name) (keyblob : Bytes) : Option Key :=
  if ¬ pubkeys.contains (stripCert algorithm) then none
  else match P.keyInfo algorithm with
    | none => none
    | some cls => match P.parseKey cls keyblob with
      | .error _ => none
      | .ok k => some k

/-- publickey branch.  `pubkeys` = `transport.preferred_pubkeys`; `callbackOk` = the server's
    `check_auth_publickey(username, key) != AUTH_FAILED`; `sig` = the attached signature if any;
    `blob` = `_get_session_blob(key, service, username, algorithm)` -/
def authPublickey (P : Prims) (pubkeys : List Name) (callbackOk : Key → Bool)
    (algorithm : Name) (keyblob : Bytes) (sig : Option Bytes) (blob : Bytes) : AuthOut :=
  match generateKeyFromRequest P pubkeys algorithm keyblob with
  | none => .disconnect
  | some key =>
    if ¬ callbackOk key then .failure
    else match sig with
      | none => .pkOk
      | some sg =>
        if ¬ checkSigAlgorithm algorithm sg then .failure
        else if ¬ verifySshSig P key blob sg then .failure
        else .success

/-- one USERAUTH_REQUEST (method publickey) as the branch sees it; `P` carries the library's verdict
    on this request's signature -/
structure Req where
  P : Prims
  algorithm : Name
  keyblob : Bytes
  sig : Option Bytes
  blob : Bytes

/-- a connection ends with the first disconnect; after a success further requests are ignored -/
def truncateSession : List AuthOut → List AuthOut
  | [] => []
  | o :: r => if o = .disconnect ∨ o = .success then [o] else o :: truncateSession r

/-- a whole sequence of publickey requests on ONE connection (unsigned queries and signed
    requests in any order): each one is judged on its own — nothing learnt from an earlier request
    (e.g. a key that was answered with PK_OK) is carried over -/
def authSession (pubkeys : List Name) (callbackOk : Key → Bool) (reqs : List Req) : List AuthOut :=
  truncateSession (reqs.map fun r => authPublickey r.P pubkeys callbackOk r.algorithm r.keyblob r.sig r.blob)

/-! ## paramiko's tables (compared with the source by the harness on every run) -/

def nm (s : String) : Name := s.toUTF8.toList

def defaultKeys : List Name :=
  [ed25519Name,
   [101, 99, 100, 115, 97, 45, 115, 104, 97, 50, 45, 110, 105, 115, 116, 112, 50, 53, 54],
   [101, 99, 100, 115, 97, 45, 115, 104, 97, 50, 45, 110, 105, 115, 116, 112, 51, 56, 52],
   [101, 99, 100, 115, 97, 45, 115, 104, 97, 50, 45, 110, 105, 115, 116, 112, 53, 50, 49],
   [114, 115, 97, 45, 115, 104, 97, 50, 45, 53, 49, 50],
   [114, 115, 97, 45, 115, 104, 97, 50, 45, 50, 53, 54],
   [115, 115, 104, 45, 114, 115, 97]]

def classOf (base : Name) : Option KeyClass :=
  if base = ed25519Name then some .ed25519
  else if base.take 6 = [101, 99, 100, 115, 97, 45] ∧ defaultKeys.contains base then some .ecdsa
  else if defaultKeys.contains base then some .rsa
  else none

/-- `Transport._key_info`: the seven names and their cert variants -/
def realKeyInfo (n : Name) : Option KeyClass :=
  if defaultKeys.contains n then classOf n
  else if (defaultKeys.map (· ++ certSuffix)).contains n then classOf (n.take (n.length - certSuffix.length))
  else none

/-- `RSAKey.HASHES` (hash ids: 1 = SHA-1, 2 = SHA-256, 4 = SHA-512) -/
def realRsaHashes (n : Name) : Option Nat :=
  let b := if (defaultKeys.map (· ++ certSuffix)).contains n then n.take (n.length - certSuffix.length) else n
  if b = [115, 115, 104, 45, 114, 115, 97] then some 1
  else if b = [114, 115, 97, 45, 115, 104, 97, 50, 45, 50, 53, 54] then some 2
  else if b = [114, 115, 97, 45, 115, 104, 97, 50, 45, 53, 49, 50] then some 4
  else none

end PV.SigAlgo
