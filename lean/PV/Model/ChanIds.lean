/-
  PV.Model.ChanIds — channel-id allocation of a Transport (paramiko/transport.py):
  `Transport._next_channel` (24-bit counter, scan over the live ids of `ChannelMap`) and the places that
  call it: `open_channel` (allocation and `ChannelMap.put` in ONE `with self.lock` region) and
  `_parse_channel_open` (allocation in one lock region, the server callback with no lock held, then
  `put` in a second lock region — only the transport thread runs it, so at most one such id is pending),
  `ChannelMap.delete` (peer CLOSE, OPEN_FAILURE, `_unlink`, or the weak reference dying).
  Mathlib-free, executable.
-/
namespace PV.ChanIds

/-- size of the id space: `& 0xFFFFFF` -/
def M : Nat := 16777216

/-- the `while self._channels.get(chanid) is not None` loop with fuel; the loop variable is both
    `self._channel_counter` and `chanid` (they are equal at every loop head after the first assignment) -/
def scan (live : Nat → Bool) : Nat → Nat → Option Nat
  | 0, _ => none
  | fuel + 1, c => if live c then scan live fuel ((c + 1) % M) else some c

/-- `_next_channel`: `some (chanid, new counter)`; `none` = the loop did not end within `M` iterations
    (every id is live: the real code spins forever) -/
def nextChannel (live : Nat → Bool) (counter : Nat) : Option (Nat × Nat) :=
  match scan live M counter with
  | none => none
  | some id => some (id, (id + 1) % M)

structure St where
  counter    : Nat                    -- Transport._channel_counter
  live       : List Nat               -- keys of Transport._channels (ChannelMap)
  pending    : Option (Nat × Nat)     -- id allocated by _parse_channel_open, not yet put (id, tick stamp)
  hung       : Bool                   -- an allocation found every id live (real code: endless loop)
  ticks      : Nat                    -- ghost: total number of counter advances (never reduced mod M)
  late       : Bool                   -- ghost: a pending id was registered after more than M counter advances
  collisions : Nat                    -- ghost: `put` calls that overwrote a live entry
  openIds    : List Nat               -- ghost: ids of the Channel objects that are open (registered, not yet closed)
  deriving Repr

def init (c : Nat) : St :=
  { counter := c, live := [], pending := none, hung := false, ticks := c, late := false, collisions := 0, openIds := [] }

inductive Act where
  | openLocal            -- open_channel: _next_channel + put, one lock region
  | peerAlloc            -- _parse_channel_open, first lock region: _next_channel
  | peerPut              -- _parse_channel_open, second lock region: put
  | peerReject           -- _parse_channel_open: the server callback refused; the id is dropped
  | delete (id : Nat)    -- ChannelMap.delete / weak reference died
  | peerFailure (id : Nat) (pending : Bool)
                         -- _parse_channel_open_failure naming `id`; `pending` = our open of `id` is still waiting
                         -- (`id in self.channel_events`): only then is the entry removed (the channel never opened)
  | peerSuccess (id : Nat)   -- _parse_channel_open_success naming `id`: no effect on the map, whatever `id` is
  deriving Repr

def isLive (s : St) (i : Nat) : Bool := s.live.contains i

/-- ghost: how far the counter moved for an allocation that returned `id` -/
def advance (counter id : Nat) : Nat := (id + M - counter % M) % M + 1

def put (s : St) (id : Nat) : St :=
  if s.live.contains id then { s with collisions := s.collisions + 1, openIds := id :: s.openIds }
  else { s with live := id :: s.live, openIds := id :: s.openIds }

/-- the entry is removed and the Channel object it named is closed / gone -/
def remove (s : St) (id : Nat) : St :=
  { s with live := s.live.erase id, openIds := s.openIds.filter (fun x => x != id) }

def step (s : St) : Act → St
  | .openLocal =>
    match nextChannel (isLive s) s.counter with
    | none => { s with hung := true }
    | some (id, c') => put { s with counter := c', ticks := s.ticks + advance s.counter id } id
  | .peerAlloc =>
    match s.pending with
    | some _ => s
    | none =>
      match nextChannel (isLive s) s.counter with
      | none => { s with hung := true }
      | some (id, c') =>
        let t := s.ticks + advance s.counter id
        { s with counter := c', ticks := t, pending := some (id, t - 1) }
  | .peerPut =>
    match s.pending with
    | none => s
    | some (p, tp) =>
      put { s with pending := none, late := s.late || decide (s.ticks - tp > M) } p
  | .peerReject => { s with pending := none }
  | .delete id => remove s id
  | .peerFailure id pending => if pending then remove s id else s
  | .peerSuccess _ => s

def run (s : St) (h : List Act) : St := h.foldl step s

end PV.ChanIds

/-! ## statement granularity: is `_next_channel` really called with the transport lock held?

  `_next_channel` is documented "you are holding the lock".  A caller that holds `self.lock` runs the map
  lookup, the counter increment and (in `open_channel`) the registration as ONE region; a caller that does not
  runs "look the id up" and "advance the counter / register" as two steps, with anything in between.  Which
  call sites hold the lock is generated from the AST of transport.py (PV/Generated/C23.lean). -/
namespace PV.ChanIds

inductive APc where
  | ready (locked : Bool)
  | looked (id : Nat)        -- (unlocked caller) has chosen `id`, has not advanced the counter / registered yet
  | got (id : Nat)
  deriving Repr, DecidableEq

structure ASt where
  counter : Nat
  live : List Nat
  thr : List APc
  deriving Repr, DecidableEq

def astep (s : ASt) (t : Nat) : ASt :=
  match s.thr[t]? with
  | some (.ready true) =>
    match nextChannel (fun i => s.live.contains i) s.counter with
    | some (id, c') => { counter := c', live := id :: s.live, thr := s.thr.set t (.got id) }
    | none => s
  | some (.ready false) =>
    match scan (fun i => s.live.contains i) M s.counter with
    | some id => { s with thr := s.thr.set t (.looked id) }
    | none => s
  | some (.looked id) => { counter := (id + 1) % M, live := id :: s.live, thr := s.thr.set t (.got id) }
  | _ => s

def arun (s : ASt) (sched : List Nat) : ASt := sched.foldl astep s

def gotIds : List APc → List Nat
  | [] => []
  | .got id :: r => id :: gotIds r
  | _ :: r => gotIds r

end PV.ChanIds
