/-
  PV.Model.KeyDerive — executable model of `Transport._compute_key` and of the key letter /
  length selection in `Transport._activate_inbound` / `_activate_outbound`
  (paramiko/transport.py), plus the RFC 4253 section 7.2 specification it is compared with.

  The hash is a *parameter* (`Hash`), its only law is a fixed positive digest length (`HashLaws`).
  `toyHash L` is an executable instance for which the law is proved (driver + hypotheses
  satisfiable).  Mathlib-free.
-/
import PV.Base.Wire
namespace PV.KeyDerive
open PV PV.Wire

/-! ## the hash primitive -/

structure Hash where
  /-- `hash_algo(data).digest()` -/
  digest : Bytes → Bytes
  /-- `hash_algo().digest_size` -/
  size : Nat

structure HashLaws (h : Hash) : Prop where
  size_pos : 0 < h.size
  digest_len : ∀ x, (h.digest x).length = h.size

/-! ## `Transport._compute_key` -/

/-- The `while len(out) < nbytes:` loop.  `out` and `sofar` are the two Python variables (they are
    updated in lock step by the code; that they stay equal is a theorem, not built in).
    `kh` is the re-built message prefix `mpint(K) ‖ H`.  Fuel: one unit per iteration. -/
def extend (h : Hash) (kh : Bytes) : Nat → Bytes → Bytes → Nat → Bytes × Bytes
  | 0, out, sofar, _ => (out, sofar)
  | f + 1, out, sofar, n =>
    if out.length < n then
      let digest := h.digest (kh ++ sofar)
      extend h kh f (out ++ digest) (sofar ++ digest) n
    else (out, sofar)

/-- `m = Message(); m.add_mpint(K); m.add_bytes(H)` -/
def prefixKH (K : Int) (H : Bytes) : Bytes := encMpint K ++ H

/-- the message hashed for the first block: `mpint(K) ‖ H ‖ id ‖ session_id` -/
def firstInput (K : Int) (H sid : Bytes) (letter : UInt8) : Bytes :=
  prefixKH K H ++ [letter] ++ sid

/-- `Transport._compute_key(id, nbytes)` (fuel `nbytes` always suffices: `extend_enough`). -/
def computeKey (h : Hash) (K : Int) (H sid : Bytes) (letter : UInt8) (n : Nat) : Bytes :=
  let first := h.digest (firstInput K H sid letter)
  (extend h (prefixKH K H) n first first n).1.take n

/-! ## RFC 4253 section 7.2 (specification)

    K1 = HASH(K ‖ H ‖ X ‖ session_id), K(i+1) = HASH(K ‖ H ‖ K1 ‖ … ‖ Ki),
    key = K1 ‖ K2 ‖ K3 ‖ …  (as many bytes as needed); K is encoded as mpint. -/

/-- `[K1, …, Kk]` -/
def rfcBlocks (h : Hash) (K : Int) (H sid : Bytes) (X : UInt8) : Nat → List Bytes
  | 0 => []
  | 1 => [h.digest (encMpint K ++ H ++ [X] ++ sid)]
  | k + 2 =>
    let prev := rfcBlocks h K H sid X (k + 1)
    prev ++ [h.digest (encMpint K ++ H ++ prev.flatten)]

/-- `K1 ‖ … ‖ Kk` -/
def rfcStream (h : Hash) (K : Int) (H sid : Bytes) (X : UInt8) (k : Nat) : Bytes :=
  (rfcBlocks h K H sid X k).flatten

/-- the first `n` bytes of `K1 ‖ K2 ‖ …` (`n + 1` blocks are always enough; any larger number of
    blocks gives the same bytes: `PV.Props.C04.rfcKey_blocks_irrelevant`). -/
def rfcKey (h : Hash) (K : Int) (H sid : Bytes) (X : UInt8) (n : Nat) : Bytes :=
  (rfcStream h K H sid X (n + 1)).take n

/-! ## `_activate_inbound` / `_activate_outbound`: which letter, how many bytes -/

inductive Dir | inbound | outbound
  deriving Repr, DecidableEq

/-- `(iv letter, key letter, mac letter)` exactly as the four `if self.server_mode:` branches say. -/
def letters (serverMode : Bool) : Dir → UInt8 × UInt8 × UInt8
  | .inbound => if serverMode then (65, 67, 69) else (66, 68, 70)   -- A C E / B D F
  | .outbound => if serverMode then (66, 68, 70) else (65, 67, 69)  -- B D F / A C E

/-- one row of `Transport._cipher_info` (`ivSize` = `info.get("iv-size", block_size)`) -/
structure CipherInfo where
  name : String
  blockSize : Nat
  keySize : Nat
  ivSize : Nat
  aead : Bool
  deriving Repr, DecidableEq

/-- one row of `Transport._mac_info` (`digestSize` = `info["class"]().digest_size`) -/
structure MacInfo where
  name : String
  digestSize : Nat
  size : Nat
  deriving Repr, DecidableEq

/-- what `_activate_*` derives and hands to `_get_engine` / `Packetizer.set_*_cipher` -/
structure Keys where
  iv : Bytes
  key : Bytes
  macKey : Bytes
  /-- `mac_key=None if aead else mac_key` -/
  macKeyArg : Option Bytes
  /-- `iv_in/iv_out = iv if aead else None` -/
  ivArg : Option Bytes
  /-- `mac_size=16 if aead else mac_size` -/
  macSizeArg : Nat
  blockSizeArg : Nat
  deriving Repr, DecidableEq

def activate (h : Hash) (K : Int) (H sid : Bytes) (serverMode : Bool) (d : Dir)
    (ci : CipherInfo) (mi : MacInfo) : Keys :=
  let (li, lk, lm) := letters serverMode d
  let iv := computeKey h K H sid li ci.ivSize
  let key := computeKey h K H sid lk ci.keySize
  let macKey := computeKey h K H sid lm mi.digestSize
  { iv := iv, key := key, macKey := macKey,
    macKeyArg := if ci.aead then none else some macKey,
    ivArg := if ci.aead then some iv else none,
    macSizeArg := if ci.aead then 16 else mi.size,
    blockSizeArg := ci.blockSize }

/-- what `_parse_kex_init` left on the transport: the two directions are negotiated independently
    (RFC 4253 section 7.1), so `local_*` and `remote_*` may name different algorithms -/
structure Negotiated where
  localCipher : CipherInfo
  remoteCipher : CipherInfo
  localMac : MacInfo
  remoteMac : MacInfo
  deriving Repr, DecidableEq

/-- `_activate_inbound` reads `self._cipher_info[self.remote_cipher]` / `self._mac_info[self.remote_mac]`,
    `_activate_outbound` the `local_*` ones: every size comes from the algorithm of *that* direction. -/
def activateDir (h : Hash) (K : Int) (H sid : Bytes) (serverMode : Bool) (d : Dir) (n : Negotiated) : Keys :=
  match d with
  | .inbound => activate h K H sid serverMode .inbound n.remoteCipher n.remoteMac
  | .outbound => activate h K H sid serverMode .outbound n.localCipher n.localMac

/-! ## `Transport._set_K_H`: the session identifier is pinned by the first key exchange -/

/-- `self.K`, `self.H`, `self.session_id` (`none` = Python `None`, the value `__init__` stores) -/
structure KexState where
  K : Option Int
  H : Option Bytes
  sessionId : Option Bytes
  deriving Repr, DecidableEq

def KexState.init : KexState := { K := none, H := none, sessionId := none }

/-- `_set_K_H(k, h)`.  `guarded` is the AST fact "the only assignment to `self.session_id` outside
    `__init__` is `self.session_id = h` directly under `if self.session_id is None:`" (regenerated from
    the source, `PV.Generated.C04.sessionIdGuarded`); without the guard every exchange would overwrite it. -/
def setKH (guarded : Bool) (s : KexState) (k : Int) (h : Bytes) : KexState :=
  { K := some k, H := some h,
    sessionId := if guarded then (match s.sessionId with | none => some h | some x => some x) else some h }

/-- a connection's key exchanges (initial kex, then every re-key), oldest first -/
def runExchanges (guarded : Bool) (s : KexState) : List (Int × Bytes) → KexState
  | [] => s
  | (k, h) :: rest => runExchanges guarded (setKH guarded s k h) rest

/-- `_compute_key(id, n)` on the transport's current `K`, `H`, `session_id` -/
def stateKey (hf : Hash) (s : KexState) (letter : UInt8) (n : Nat) : Option Bytes :=
  match s.K, s.H, s.sessionId with
  | some k, some h, some sid => some (computeKey hf k h sid letter n)
  | _, _, _ => none

/-! ## toy hash (executable instance; identical to `pv/lib_kex.py: ToyHash`) -/

def toyAcc (x : Bytes) : Nat :=
  x.foldl (fun s b => (s * 31 + b.toNat + 7) % 65521) 158

/-- `L` bytes; byte `i` = `(acc * (i + 3) + i * i + len(x)) % 251` -/
def toyDigest (L : Nat) (x : Bytes) : Bytes :=
  let s := toyAcc x
  (List.range L).map fun i => UInt8.ofNat ((s * (i + 3) + i * i + x.length) % 251)

def toyHash (L : Nat) : Hash := { digest := toyDigest L, size := L }

theorem toyHash_laws (L : Nat) (hL : 0 < L) : HashLaws (toyHash L) :=
  ⟨hL, fun x => by simp [toyHash, toyDigest]⟩

end PV.KeyDerive
