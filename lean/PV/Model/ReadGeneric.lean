/-
  PV.Model.ReadGeneric — the read-side lemmas of PV.Model.BufFileLemmas, redone for ANY underlying stream that
  satisfies `ReadLaws` (every `_read(n)` with n ≥ 1 returns a non-empty prefix of the bytes still to come, or
  nothing at EOF), and with the bookkeeping of `_pos` / `_realpos` that the SFTP refinement (C27) needs.
-/
import PV.Model.BufFileLemmas
namespace PV.BufFile
open PV

/-- Laws of a readable stream.  `rest s rp`: the bytes the stream will deliver from position `rp` on;
    `ok`: what must hold for reads to behave; `fr`: what reads leave unchanged in the stream state. -/
structure ReadLaws {σ : Type} (o : Ops σ) where
  rest : σ → Int → Bytes
  ok : σ → Int → Prop
  fr : σ → σ → Prop
  fr_refl : ∀ s, fr s s
  fr_trans : ∀ a b c, fr a b → fr b c → fr a c
  read_spec : ∀ s rp n, ok s rp → 1 ≤ n →
    ∃ k, 1 ≤ k ∧ k ≤ n ∧ (o.read s rp n).2 = .ok ((rest s rp).take k) ∧
      ok (o.read s rp n).1 (rp + ((rest s rp).take k).length) ∧
      rest (o.read s rp n).1 (rp + ((rest s rp).take k).length) = (rest s rp).drop k ∧
      fr s (o.read s rp n).1
  bound_spec : ∀ s rp, ok s rp → (rest s rp).length ≤ o.bound s rp

variable {σ : Type} {o : Ops σ}

/-- client-side fields no read touches -/
def sameCli (a b : BF σ) : Prop :=
  a.rd = b.rd ∧ a.wr = b.wr ∧ a.app = b.app ∧ a.bin = b.bin ∧ a.buffered = b.buffered ∧ a.lineBuf = b.lineBuf ∧
  a.bufsize = b.bufsize ∧ a.dflt = b.dflt ∧ a.wbuf = b.wbuf ∧ a.size = b.size ∧ a.closed = b.closed

theorem sameCli_refl (a : BF σ) : sameCli a a := ⟨rfl, rfl, rfl, rfl, rfl, rfl, rfl, rfl, rfl, rfl, rfl⟩

theorem sameCli_trans {a b c : BF σ} (h1 : sameCli a b) (h2 : sameCli b c) : sameCli a c := by
  obtain ⟨a1, a2, a3, a4, a5, a6, a7, a8, a9, a10, a11⟩ := h1
  obtain ⟨b1, b2, b3, b4, b5, b6, b7, b8, b9, b10, b11⟩ := h2
  exact ⟨a1.trans b1, a2.trans b2, a3.trans b3, a4.trans b4, a5.trans b5, a6.trans b6, a7.trans b7, a8.trans b8,
    a9.trans b9, a10.trans b10, a11.trans b11⟩

/-- bytes the caller has still to receive -/
def pendG (L : ReadLaws o) (f : BF σ) : Bytes := f.rbuf ++ L.rest f.s f.realpos

/-- one raw read, unpacked -/
theorem read_step (L : ReadLaws o) (f : BF σ) (n : Nat) (hok : L.ok f.s f.realpos) (hn : 1 ≤ n) :
    ∃ d s', o.read f.s f.realpos n = (s', .ok d) ∧ (d.isEmpty = true ↔ L.rest f.s f.realpos = []) ∧
      d ++ L.rest s' (f.realpos + d.length) = L.rest f.s f.realpos ∧
      L.ok s' (f.realpos + d.length) ∧ L.fr f.s s' ∧
      (L.rest f.s f.realpos ≠ [] → (L.rest s' (f.realpos + d.length)).length < (L.rest f.s f.realpos).length) := by
  obtain ⟨k, hk1, _, h2, h3, h4, h5⟩ := L.read_spec f.s f.realpos n hok hn
  refine ⟨(L.rest f.s f.realpos).take k, (o.read f.s f.realpos n).1, ?_, take_isEmpty_iff _ _ hk1, ?_, h3, h5, ?_⟩
  · rw [← h2]
  · rw [h4]; exact List.take_append_drop k _
  · intro hne
    rw [h4, List.length_drop]
    have : 0 < (L.rest f.s f.realpos).length := List.length_pos_iff.2 hne
    omega

/-! ## read() -/

theorem readAllLoop_gen (L : ReadLaws o) (fuel : Nat) (f : BF σ) (acc : Bytes)
    (hok : L.ok f.s f.realpos) (hd : 1 ≤ f.dflt) (hf : (L.rest f.s f.realpos).length < fuel) :
    (readAllLoop o fuel f acc).2 = .ok (acc ++ L.rest f.s f.realpos) ∧
    L.rest (readAllLoop o fuel f acc).1.s (readAllLoop o fuel f acc).1.realpos = [] ∧
    L.ok (readAllLoop o fuel f acc).1.s (readAllLoop o fuel f acc).1.realpos ∧
    (readAllLoop o fuel f acc).1.rbuf = f.rbuf ∧
    (readAllLoop o fuel f acc).1.pos = f.pos + (L.rest f.s f.realpos).length ∧
    (readAllLoop o fuel f acc).1.realpos = f.realpos + (L.rest f.s f.realpos).length ∧
    L.fr f.s (readAllLoop o fuel f acc).1.s ∧
    sameCli (readAllLoop o fuel f acc).1 f := by
  induction fuel generalizing f acc with
  | zero => omega
  | succ fuel ih =>
    rw [readAllLoop]
    obtain ⟨d, s', h1, h2, h3, h4, h5, h6⟩ := read_step L f f.dflt hok hd
    rw [h1]
    simp only
    by_cases he : d.isEmpty = true
    · have hnil := h2.1 he
      have hd0 : d = [] := by simpa using he
      subst hd0
      rw [if_pos he]
      simp only [List.length_nil, Int.natCast_zero, Int.add_zero] at h3 h4
      simp only [List.nil_append] at h3
      refine ⟨by simp [hnil], by simp only; rw [h3, hnil], by simpa using h4, rfl, by simp [hnil], by simp [hnil], h5,
        sameCli_refl _⟩
    · rw [if_neg he]
      have hne : L.rest f.s f.realpos ≠ [] := fun h => he (h2.2 h)
      have := ih { f with s := s', realpos := f.realpos + d.length, pos := f.pos + d.length } (acc ++ d)
        h4 hd (by have := h6 hne; simp only; omega)
      obtain ⟨i1, i2, i3, i4, i5, i6, i7, i8⟩ := this
      simp only at i1 i2 i3 i4 i5 i6 i7 i8
      have hlen : (L.rest f.s f.realpos).length = d.length + (L.rest s' (f.realpos + d.length)).length := by
        rw [← h3, List.length_append]
      refine ⟨?_, i2, i3, i4, ?_, ?_, L.fr_trans _ _ _ h5 i7, i8⟩
      · rw [i1, List.append_assoc, h3]
      · rw [i5, hlen]; push_cast; omega
      · rw [i6, hlen]; push_cast; omega

/-! ## read(n) -/

theorem readFillLoop_gen (L : ReadLaws o) (n fuel : Nat) (f : BF σ)
    (hok : L.ok f.s f.realpos) (hb : 1 ≤ f.bufsize) (hf : (L.rest f.s f.realpos).length < fuel) :
    (readFillLoop o n fuel f).2 = .ok () ∧
    pendG L (readFillLoop o n fuel f).1 = pendG L f ∧
    (n ≤ (readFillLoop o n fuel f).1.rbuf.length ∨
      L.rest (readFillLoop o n fuel f).1.s (readFillLoop o n fuel f).1.realpos = []) ∧
    L.ok (readFillLoop o n fuel f).1.s (readFillLoop o n fuel f).1.realpos ∧
    (readFillLoop o n fuel f).1.pos = f.pos ∧
    (readFillLoop o n fuel f).1.realpos + f.rbuf.length = f.realpos + (readFillLoop o n fuel f).1.rbuf.length ∧
    L.fr f.s (readFillLoop o n fuel f).1.s ∧
    sameCli (readFillLoop o n fuel f).1 f := by
  induction fuel generalizing f with
  | zero => omega
  | succ fuel ih =>
    rw [readFillLoop]
    by_cases hlt : f.rbuf.length < n
    · rw [if_pos hlt]
      simp only
      generalize hw : (if f.buffered = true then max f.bufsize (n - f.rbuf.length) else n - f.rbuf.length) = want
      have hwant : 1 ≤ want := by subst hw; split <;> omega
      obtain ⟨d, s', h1, h2, h3, h4, h5, h6⟩ := read_step L f want hok hwant
      rw [h1]
      simp only
      by_cases he : d.isEmpty = true
      · have hnil := h2.1 he
        have hd0 : d = [] := by simpa using he
        subst hd0
        rw [if_pos he]
        simp only [List.length_nil, Int.natCast_zero, Int.add_zero, List.nil_append] at h3 h4
        refine ⟨rfl, by simp only [pendG]; rw [h3], Or.inr (by simp only; rw [h3, hnil]), by simpa using h4, rfl,
          rfl, h5, sameCli_refl _⟩
      · rw [if_neg he]
        have hne : L.rest f.s f.realpos ≠ [] := fun h => he (h2.2 h)
        have := ih { f with s := s', rbuf := f.rbuf ++ d, realpos := f.realpos + d.length }
          h4 hb (by have := h6 hne; simp only; omega)
        obtain ⟨i1, i2, i3, i4, i5, i6, i7, i8⟩ := this
        simp only at i1 i2 i3 i4 i5 i6 i7 i8
        refine ⟨i1, ?_, i3, i4, i5, ?_, L.fr_trans _ _ _ h5 i7, i8⟩
        · rw [i2]; simp only [pendG, List.append_assoc]; rw [h3]
        · simp only [List.length_append] at i6; push_cast at i6; omega
    · rw [if_neg hlt]
      exact ⟨rfl, rfl, Or.inl (by show n ≤ f.rbuf.length; omega), hok, rfl, rfl, L.fr_refl _, sameCli_refl _⟩

/-! ## readline -/

/-- what `readline` (from the point where `line` has been accumulated, `f.realpos = f.pos + line.length`)
    must deliver -/
def RLConcl (L : ReadLaws o) (size : Option Nat) (f : BF σ) (line : Bytes) (r : Res σ Bytes) : Prop :=
  r.2 = .ok (specLine size (line ++ L.rest f.s f.realpos)) ∧
  pendG L r.1 = (line ++ L.rest f.s f.realpos).drop (specLine size (line ++ L.rest f.s f.realpos)).length ∧
  L.ok r.1.s r.1.realpos ∧
  r.1.pos = f.pos + (specLine size (line ++ L.rest f.s f.realpos)).length ∧
  r.1.realpos = r.1.pos + r.1.rbuf.length ∧
  L.fr f.s r.1.s ∧ sameCli r.1 f

theorem rlPost_trunc_gen (L : ReadLaws o) (f : BF σ) (t d : Bytes) (hok : L.ok f.s f.realpos)
    (hrp : f.realpos = f.pos + (t ++ d).length) :
    let r : Res σ Bytes := readlinePost ({ f with rbuf := d }, .ok (.brk t true))
    r.2 = .ok (lineOf t) ∧
    pendG L r.1 = (t ++ d ++ L.rest f.s f.realpos).drop (lineOf t).length ∧
    L.ok r.1.s r.1.realpos ∧ r.1.pos = f.pos + (lineOf t).length ∧ r.1.realpos = r.1.pos + r.1.rbuf.length ∧
    L.fr f.s r.1.s ∧ sameCli r.1 f := by
  intro r
  by_cases hc : t.contains LF = true
  · have hlt := idxOf_lt_of_contains _ hc
    have hr : r = ({ f with rbuf := t.drop (t.idxOf LF + 1) ++ d,
                            pos := f.pos + ((t.take (t.idxOf LF) ++ [LF]).length : Nat) },
                   .ok (t.take (t.idxOf LF) ++ [LF])) := by
      simp only [r, readlinePost, hc, Bool.not_true, Bool.false_eq_true, if_false, if_true]
    have hlen : (t.take (t.idxOf LF + 1)).length = t.idxOf LF + 1 := by
      rw [List.length_take]; omega
    rw [hr, lineOf_of_contains _ hc, take_idx_snoc _ hc]
    refine ⟨rfl, ?_, hok, rfl, ?_, L.fr_refl _, sameCli_refl _⟩
    · simp only [pendG]
      rw [hlen, show t ++ d ++ L.rest f.s f.realpos = t ++ (d ++ L.rest f.s f.realpos) from List.append_assoc _ _ _,
        List.drop_append_of_le_length (by omega), List.append_assoc]
    · simp only [List.length_append, List.length_drop, hlen, hrp]; push_cast; omega
  · have hc' : t.contains LF = false := by simpa using hc
    have hr : r = ({ f with rbuf := d, pos := f.pos + (t.length : Nat) }, .ok t) := by
      simp only [r, readlinePost, hc', Bool.not_false, if_true]
    rw [hr, lineOf_of_not_contains _ hc']
    refine ⟨rfl, ?_, hok, rfl, ?_, L.fr_refl _, sameCli_refl _⟩
    · simp only [pendG]
      rw [show t ++ d ++ L.rest f.s f.realpos = t ++ (d ++ L.rest f.s f.realpos) from List.append_assoc _ _ _,
        List.drop_append_of_le_length (Nat.le_refl _)]
      simp
    · simp only [hrp, List.length_append]; push_cast; omega

theorem rlFrom_trunc_gen (L : ReadLaws o) (sz : Nat) (f : BF σ) (line : Bytes) (hok : L.ok f.s f.realpos)
    (hrp : f.realpos = f.pos + line.length) (hge : sz ≤ line.length) :
    RLConcl L (some sz) f line (readlinePost ({ f with rbuf := line.drop sz }, .ok (.brk (line.take sz) true))) := by
  have hspec : specLine (some sz) (line ++ L.rest f.s f.realpos) = lineOf (line.take sz) := by
    simp only [specLine]; rw [List.take_append_of_le_length hge]
  have h := rlPost_trunc_gen L f (line.take sz) (line.drop sz) hok (by rw [List.take_append_drop]; exact hrp)
  rw [List.take_append_drop] at h
  unfold RLConcl
  rw [hspec]
  exact h

/-- the non-truncating part of one loop iteration -/
theorem rlFrom_step_gen (L : ReadLaws o) (size : Option Nat) (n : Nat) (hn : 1 ≤ n) (f : BF σ) (line : Bytes)
    (hok : L.ok f.s f.realpos) (hrp : f.realpos = f.pos + line.length)
    (hnt : NoTrunc size line)
    (rest : BF σ → Bytes → Res σ Bytes)
    (hrest : ∀ d s', d ≠ [] → L.ok s' (f.realpos + d.length) →
      d ++ L.rest s' (f.realpos + d.length) = L.rest f.s f.realpos →
      RLConcl L size { f with s := s', realpos := f.realpos + d.length } (line ++ d)
        (rest { f with s := s', realpos := f.realpos + d.length } (line ++ d))) :
    RLConcl L size f line
      (if line.contains LF then readlinePost (f, .ok (.brk line false))
       else match o.read f.s f.realpos n with
        | (s', .error e) => readlinePost ({ f with s := s', rbuf := line }, .error e)
        | (s', .ok d) =>
          if d.isEmpty then
            readlinePost ({ f with s := s', rbuf := [], pos := f.pos + line.length }, .ok (.eof line))
          else rest { f with s := s', realpos := f.realpos + d.length } (line ++ d)) := by
  by_cases hc : line.contains LF = true
  · have hlt := idxOf_lt_of_contains _ hc
    rw [if_pos hc]
    have hr : readlinePost ((f, .ok (.brk line false)) : Res σ RL)
        = ({ f with rbuf := line.drop (line.idxOf LF + 1),
                    pos := f.pos + ((line.take (line.idxOf LF) ++ [LF]).length : Nat) },
           .ok (line.take (line.idxOf LF) ++ [LF])) := by
      simp only [readlinePost, hc, Bool.not_true, Bool.false_eq_true, if_false]
    have hlen : (line.take (line.idxOf LF + 1)).length = line.idxOf LF + 1 := by
      rw [List.length_take]; omega
    unfold RLConcl
    rw [hr, specLine_of_contains size line _ hnt hc, lineOf_of_contains _ hc, take_idx_snoc _ hc]
    refine ⟨rfl, ?_, hok, rfl, ?_, L.fr_refl _, sameCli_refl _⟩
    · simp only [pendG]
      rw [hlen, List.drop_append_of_le_length (by omega)]
    · simp only [List.length_drop, hlen, hrp]; push_cast; omega
  · have hc' : line.contains LF = false := by simpa using hc
    rw [if_neg hc]
    obtain ⟨d, s', h1, h2, h3, h4, h5, _⟩ := read_step L f n hok hn
    rw [h1]
    simp only
    by_cases he : d.isEmpty = true
    · have hnil := h2.1 he
      have hd0 : d = [] := by simpa using he
      subst hd0
      rw [if_pos he]
      simp only [List.length_nil, Int.natCast_zero, Int.add_zero, List.nil_append] at h3 h4
      unfold RLConcl
      simp only [readlinePost]
      rw [hnil, List.append_nil, specLine_eof size line hnt hc']
      refine ⟨rfl, ?_, h4, rfl, ?_, h5, sameCli_refl _⟩
      · simp only [pendG, List.nil_append]; rw [h3, hnil]; simp
      · simp only [List.length_nil, Int.natCast_zero, Int.add_zero]; exact hrp
    · rw [if_neg he]
      have hdne : d ≠ [] := by simpa using he
      have h := hrest d s' hdne h4 h3
      unfold RLConcl at h ⊢
      simp only [List.append_assoc] at h
      rw [h3] at h
      obtain ⟨a1, a2, a3, a4, a5, a6, a7⟩ := h
      exact ⟨a1, a2, a3, a4, a5, L.fr_trans _ _ _ h5 a6, a7⟩

/-- `readline` from the point where `line` has been accumulated (generic stream) -/
def rlFromG (o : Ops σ) (size : Option Nat) (fuel : Nat) (f : BF σ) (line : Bytes) : Res σ Bytes :=
  readlinePost (readlineLoop o size fuel f line)

theorem rlFromG_succ (o : Ops σ) (size : Option Nat) (fuel : Nat) (f : BF σ) (line : Bytes) (n : Nat)
   (hl : rlLimit size f.bufsize line = some n) :
   rlFromG o size (fuel+1) f line =
      if line.contains LF then readlinePost (f, .ok (.brk line false))
      else match o.read f.s f.realpos n with
        | (s', .error e) => readlinePost ({ f with s := s', rbuf := line }, .error e)
        | (s', .ok d) =>
          if d.isEmpty then
            readlinePost ({ f with s := s', rbuf := [], pos := f.pos + line.length }, .ok (.eof line))
          else rlFromG o size fuel { f with s := s', realpos := f.realpos + d.length } (line ++ d) := by
  unfold rlFromG
  rw [readlineLoop.eq_def]
  simp only [hl]
  by_cases hc : line.contains LF = true
  · simp only [hc, if_true]
  · simp only [hc, Bool.false_eq_true, if_false]
    rcases o.read f.s f.realpos n with ⟨s', r⟩
    cases r with
    | error e => rfl
    | ok d => simp only; split <;> rfl

theorem rlFrom_gen (L : ReadLaws o) (size : Option Nat) (fuel : Nat) (f : BF σ) (line : Bytes)
    (hok : L.ok f.s f.realpos) (hrp : f.realpos = f.pos + line.length)
    (hb : 1 ≤ f.bufsize) (hf : (L.rest f.s f.realpos).length < fuel) :
    RLConcl L size f line (rlFromG o size fuel f line) := by
  induction fuel generalizing f line with
  | zero => omega
  | succ fuel ih =>
    have hrest : ∀ d s', d ≠ [] → L.ok s' (f.realpos + d.length) →
        d ++ L.rest s' (f.realpos + d.length) = L.rest f.s f.realpos →
        RLConcl L size { f with s := s', realpos := f.realpos + d.length } (line ++ d)
          (rlFromG o size fuel { f with s := s', realpos := f.realpos + d.length } (line ++ d)) := by
      intro d s' hd hok' heq
      refine ih _ (line ++ d) hok' ?_ hb ?_
      · simp only [List.length_append, hrp]; push_cast; omega
      · have hl : 0 < d.length := List.length_pos_iff.2 hd
        have : (L.rest f.s f.realpos).length = d.length + (L.rest s' (f.realpos + d.length)).length := by
          rw [← heq, List.length_append]
        simp only; omega
    cases size with
    | none =>
      rw [rlFromG_succ o none fuel f line f.bufsize rfl]
      exact rlFrom_step_gen L none f.bufsize hb f line hok hrp trivial (rlFromG o none fuel) hrest
    | some sz =>
      by_cases hge : sz ≤ line.length
      · have hl : rlLimit (some sz) f.bufsize line = none := by simp [rlLimit, hge]
        have hu : rlFromG o (some sz) (fuel+1) f line
            = readlinePost ({ f with rbuf := line.drop sz }, .ok (.brk (line.take sz) true)) := by
          unfold rlFromG
          rw [readlineLoop.eq_def]
          simp only [hl, Option.getD_some]
        rw [hu]
        exact rlFrom_trunc_gen L sz f line hok hrp hge
      · have hl : rlLimit (some sz) f.bufsize line = some (sz - line.length) := by simp [rlLimit, hge]
        have hn : 1 ≤ sz - line.length := by omega
        rw [rlFromG_succ o (some sz) fuel f line _ hl]
        exact rlFrom_step_gen L (some sz) (sz - line.length) hn f line hok hrp (by simp only [NoTrunc]; omega)
          (rlFromG o (some sz) fuel) hrest

/-! ## the calls themselves (write buffer already empty, so the "flush before reading" step is a no-op) -/

/-- precondition of a read-type call -/
structure ReadPre (L : ReadLaws o) (f : BF σ) : Prop where
  ok : L.ok f.s f.realpos
  rp : f.realpos = f.pos + f.rbuf.length
  dflt : 1 ≤ f.dflt
  bs : 1 ≤ f.bufsize
  live : f.closed = false
  rd : f.rd = true
  wnil : f.wbuf = []

/-- what a read-type call that returned `out` guarantees -/
structure ReadPost (L : ReadLaws o) (f f' : BF σ) (out : Bytes) : Prop where
  pend : out ++ pendG L f' = pendG L f
  ok : L.ok f'.s f'.realpos
  pos : f'.pos = f.pos + out.length
  rp : f'.realpos = f'.pos + f'.rbuf.length
  fr : L.fr f.s f'.s
  cli : sameCli f' f

theorem ReadPre.next {L : ReadLaws o} {f f' : BF σ} {out : Bytes} (h : ReadPre L f) (p : ReadPost L f f' out) :
    ReadPre L f' := by
  obtain ⟨c1, c2, c3, c4, c5, c6, c7, c8, c9, c10, c11⟩ := p.cli
  exact ⟨p.ok, p.rp, by rw [c8]; exact h.dflt, by rw [c7]; exact h.bs, by rw [c11]; exact h.live,
    by rw [c1]; exact h.rd, by rw [c9]; exact h.wnil⟩

theorem syncForRead_wnil (f : BF σ) (hw : f.wbuf = []) : syncForRead o f = (f, .ok ()) := by
  simp [syncForRead, hw]

theorem read_some_gen (L : ReadLaws o) (f : BF σ) (n : Nat) (h : ReadPre L f) :
    (read o f (some n)).2 = .ok ((pendG L f).take n) ∧
    ReadPost L f (read o f (some n)).1 ((pendG L f).take n) := by
  unfold read
  rw [if_neg (by simp [h.live]), if_neg (by simp [h.rd]), syncForRead_wnil f h.wnil]
  simp only
  by_cases hle : n ≤ f.rbuf.length
  · rw [if_pos hle]
    have ht : (pendG L f).take n = f.rbuf.take n := by
      simp only [pendG]; exact take_append_or _ _ _ (Or.inl hle)
    rw [ht]
    refine ⟨rfl, ?_, h.ok, rfl, ?_, L.fr_refl _, sameCli_refl _⟩
    · simp only [pendG]; rw [← List.append_assoc, List.take_append_drop]
    · simp only [List.length_take, List.length_drop, h.rp]; push_cast; omega
  · rw [if_neg hle]
    obtain ⟨g1, g2, g3, g4, g5, g6, g7, g8⟩ :=
      readFillLoop_gen L n (o.bound f.s f.realpos + 1) f h.ok h.bs
        (by have := L.bound_spec f.s f.realpos h.ok; omega)
    rcases hres : readFillLoop o n (o.bound f.s f.realpos + 1) f with ⟨f1, r1⟩
    rw [hres] at g1 g2 g3 g4 g5 g6 g7 g8
    simp only at g1 g2 g3 g4 g5 g6 g7 g8
    subst g1
    simp only
    have ht : (pendG L f).take n = f1.rbuf.take n := by
      rw [← g2]; simp only [pendG]; exact take_append_or _ _ _ g3
    have hd : (pendG L f).drop n = f1.rbuf.drop n ++ L.rest f1.s f1.realpos := by
      rw [← g2]; simp only [pendG]; exact drop_append_or _ _ _ g3
    rw [ht]
    refine ⟨rfl, ?_, g4, ?_, ?_, g7, g8⟩
    · show f1.rbuf.take n ++ (f1.rbuf.drop n ++ L.rest f1.s f1.realpos) = pendG L f
      rw [← hd, ← ht, List.take_append_drop]
    · simp only; rw [g5]
    · simp only [List.length_take, List.length_drop]
      have := h.rp; rw [g5]; push_cast; omega

theorem read_none_gen (L : ReadLaws o) (f : BF σ) (h : ReadPre L f) :
    (read o f none).2 = .ok (pendG L f) ∧ ReadPost L f (read o f none).1 (pendG L f) ∧
    pendG L (read o f none).1 = [] := by
  unfold read
  rw [if_neg (by simp [h.live]), if_neg (by simp [h.rd]), syncForRead_wnil f h.wnil]
  simp only
  obtain ⟨g1, g2, g3, g4, g5, g6, g7, g8⟩ :=
    readAllLoop_gen L (o.bound f.s f.realpos + 1) { f with rbuf := [], pos := f.pos + f.rbuf.length } f.rbuf
      h.ok h.dflt (by have := L.bound_spec f.s f.realpos h.ok; simp only; omega)
  simp only at g1 g2 g3 g4 g5 g6 g7 g8
  refine ⟨g1, ⟨?_, g3, ?_, ?_, g7, g8⟩, ?_⟩
  · simp only [pendG]; rw [g4, g2]; simp
  · rw [g5]; simp only [pendG, List.length_append]; push_cast; omega
  · rw [g4, g5, g6, h.rp]; simp
  · simp only [pendG]; rw [g4, g2]; rfl

theorem readline_gen (L : ReadLaws o) (f : BF σ) (size : Option Nat) (h : ReadPre L f) :
    (readline o f size).2 = .ok (specLine size (pendG L f)) ∧
    ReadPost L f (readline o f size).1 (specLine size (pendG L f)) := by
  unfold readline
  rw [if_neg (by simp [h.live]), if_neg (by simp [h.rd]), syncForRead_wnil f h.wnil]
  simp only
  have hg := rlFrom_gen L size (o.bound f.s f.realpos + 1) f f.rbuf h.ok h.rp h.bs
    (by have := L.bound_spec f.s f.realpos h.ok; omega)
  unfold RLConcl rlFromG at hg
  obtain ⟨a1, a2, a3, a4, a5, a6, a7⟩ := hg
  refine ⟨a1, ⟨?_, a3, a4, a5, a6, a7⟩⟩
  rw [a2]
  exact prefix_append_drop _ _ (specLine_prefix size _)

/-- `readlines()` without a hint -/
theorem readlinesLoop_gen (L : ReadLaws o) (hint : Option Int) (fuel : Nat) (f : BF σ) (acc : List Bytes) (count : Nat)
    (h : ReadPre L f) (hf : (pendG L f).length < fuel) :
    ∃ new, (readlinesLoop o hint fuel f acc count).2 = .ok (acc ++ new) ∧
      LinesOf (pendG L f) new (pendG L (readlinesLoop o hint fuel f acc count).1) ∧
      ReadPost L f (readlinesLoop o hint fuel f acc count).1 new.flatten ∧
      (hint = none → pendG L (readlinesLoop o hint fuel f acc count).1 = []) := by
  induction fuel generalizing f acc count with
  | zero => omega
  | succ fuel ih =>
    rw [readlinesLoop]
    obtain ⟨h1, h2⟩ := readline_gen L f none h
    rcases hres : readline o f none with ⟨f1, r1⟩
    rw [hres] at h1 h2
    simp only [specLine] at h1 h2
    subst h1
    simp only
    have hpend1 : pendG L f1 = (pendG L f).drop (lineOf (pendG L f)).length := by
      have := h2.pend
      have hp := prefix_append_drop (pendG L f) (lineOf (pendG L f)) (lineOf_prefix _)
      exact List.append_cancel_left (this.trans hp.symm)
    by_cases he : (lineOf (pendG L f)).isEmpty = true
    · have hnil : lineOf (pendG L f) = [] := by simpa using he
      rw [if_pos he]
      refine ⟨[], by simp, ?_, ?_, fun _ => ?_⟩
      · simp only; rw [hpend1, hnil]; simp; exact LinesOf.nil _
      · simpa [hnil] using h2
      · simp only; rw [hpend1, hnil]; simpa using lineOf_eq_nil _ hnil
    · rw [if_neg he]
      have hne : lineOf (pendG L f) ≠ [] := by simpa using he
      have hlen : 0 < (lineOf (pendG L f)).length := List.length_pos_iff.2 hne
      have hle := lineOf_length_le (pendG L f)
      by_cases hs : rlStop hint (count + (lineOf (pendG L f)).length) = true
      · rw [if_pos hs]
        refine ⟨[lineOf (pendG L f)], rfl, ?_, by simpa using h2, fun hn => ?_⟩
        · exact LinesOf.cons _ _ _ _ rfl hne (by rw [hpend1]; exact LinesOf.nil _)
        · subst hn; simp [rlStop] at hs
      · rw [if_neg hs]
        obtain ⟨new, g1, g2, g3, g4⟩ := ih f1 (acc ++ [lineOf (pendG L f)]) (count + (lineOf (pendG L f)).length)
          (h.next h2) (by rw [hpend1, drop_lineOf_length]; omega)
        refine ⟨lineOf (pendG L f) :: new, by rw [g1]; simp, ?_, ?_, g4⟩
        · exact LinesOf.cons _ _ _ _ rfl hne (by rw [← hpend1]; exact g2)
        · exact {
            pend := (by rw [List.flatten_cons, List.append_assoc, g3.pend]; exact h2.pend)
            ok := g3.ok
            pos := (by rw [g3.pos, h2.pos, List.flatten_cons, List.length_append]; push_cast; omega)
            rp := g3.rp
            fr := L.fr_trans _ _ _ h2.fr g3.fr
            cli := sameCli_trans g3.cli h2.cli }

end PV.BufFile
