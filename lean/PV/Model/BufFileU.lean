/-
  PV.Model.BufFileU — universal-newline mode ('U' in the mode string) of paramiko/file.py `BufferedFile`.
  A U-mode file is a `BF` plus the two attributes only `readline` touches under FLAG_UNIVERSAL_NEWLINE:
  `_at_trailing_cr` (a line ended in a bare CR that was the last byte available: a following LF is the second half
  of a CRLF and must be eaten) and `newlines` (which line ends have been seen).  `read`, `write`, `flush`, `close`,
  `tell` are the plain `BF` operations; `readline` is re-done here statement by statement, and `__next__`,
  `readlines`, iteration run on top of it.  Mathlib-free, total.
-/
import PV.Model.BufFile
namespace PV.BufFile
open PV

def CR : UInt8 := 13

structure UF (σ : Type) where
  f : BF σ
  atCR : Bool := false           -- `_at_trailing_cr`
  nl : List Bytes := []          -- `newlines`: None = [], a bytes object = [x], a tuple = its elements

abbrev URes (σ : Type) (α : Type) := UF σ × Except Err α

/-- `_record_newline` (the flag test is implied: this model is only used in U mode) -/
def recordNL {σ : Type} (u : UF σ) (x : Bytes) : UF σ :=
  if u.nl.contains x then u else { u with nl := u.nl ++ [x] }

def isNL (b : UInt8) : Bool := b == LF || b == CR

/-- the "edge case" block at the top of the loop: a pending bare CR is resolved as soon as a byte is there -/
def resolveCR {σ : Type} (u : UF σ) (line : Bytes) : UF σ × Bytes :=
  if u.atCR && !line.isEmpty then
    if line.head? == some LF then ({ recordNL u [CR, LF] with atCR := false }, line.tail)
    else ({ recordNL u [CR] with atCR := false }, line)
  else (u, line)

def ruLoop {σ : Type} (o : Ops σ) (size : Option Nat) : Nat → UF σ → Bytes → URes σ RL
  | 0, u, _ => (u, .error .fuel)
  | fuel+1, u, line =>
    match resolveCR u line with
    | (u, line) =>
    match rlLimit size u.f.bufsize line with
    | none =>
      let sz := size.getD 0
      ({ u with f := { u.f with rbuf := line.drop sz } }, .ok (.brk (line.take sz) true))
    | some n =>
      if line.any isNL then (u, .ok (.brk line false))
      else match o.read u.f.s u.f.realpos n with
        | (s', .error e) => ({ u with f := { u.f with s := s', rbuf := line } }, .error e)
        | (s', .ok d) =>
          if d.isEmpty then
            ({ u with f := { u.f with s := s', rbuf := [], pos := u.f.pos + line.length } }, .ok (.eof line))
          else ruLoop o size fuel
            { u with f := { u.f with s := s', realpos := u.f.realpos + d.length } } (line ++ d)

/-- the code after the loop -/
def ruPost {σ : Type} (r : URes σ RL) : URes σ Bytes :=
  match r with
  | (u, .error e) => (u, .error e)
  | (u, .ok (.eof line)) => (u, .ok line)
  | (u, .ok (.brk line tr)) =>
    match line.findIdx? isNL with
    | none => ({ u with f := { u.f with pos := u.f.pos + line.length } }, .ok line)
    | some p =>
      let crlf := line[p]? == some CR && line[p + 1]? == some LF
      let xpos := if crlf then p + 2 else p + 1
      let rbuf := if tr then line.drop xpos ++ u.f.rbuf else line.drop xpos
      let lf := (line.drop p).take (xpos - p)
      let out := line.take p ++ [LF]
      let u := { u with f := { u.f with rbuf := rbuf, pos := u.f.pos + out.length } }
      let u := if rbuf.isEmpty && lf == [CR] then { u with atCR := true } else recordNL u lf
      (u, .ok out)

/-- `readline(size)` in U mode -/
def readlineU {σ : Type} (o : Ops σ) (u : UF σ) (size : Option Nat) : URes σ Bytes :=
  if u.f.closed then (u, .error .closed)
  else if !u.f.rd then (u, .error .notReadable)
  else match syncForRead o u.f with
  | (f, .error e) => ({ u with f := f }, .error e)
  | (f, .ok ()) =>
    let u := { u with f := f }
    ruPost (ruLoop o size (o.bound f.s f.realpos + 1) u f.rbuf)

def nextU {σ : Type} (o : Ops σ) (u : UF σ) : URes σ (Option Bytes) :=
  match readlineU o u none with
  | (u, .error e) => (u, .error e)
  | (u, .ok l) => (u, .ok (if l.isEmpty then none else some l))

def readlinesLoopU {σ : Type} (o : Ops σ) (hint : Option Int) : Nat → UF σ → List Bytes → Nat → URes σ (List Bytes)
  | 0, u, _, _ => (u, .error .fuel)
  | fuel+1, u, acc, count =>
    match readlineU o u none with
    | (u, .error e) => (u, .error e)
    | (u, .ok l) =>
      if l.isEmpty then (u, .ok acc)
      else if rlStop hint (count + l.length) then (u, .ok (acc ++ [l]))
      else readlinesLoopU o hint fuel u (acc ++ [l]) (count + l.length)

/-- every returned line consumes at least one byte of `_rbuffer` ++ stream, so this bound suffices -/
def linesFuel {σ : Type} (o : Ops σ) (f : BF σ) : Nat := f.rbuf.length + o.bound f.s f.realpos + 2

def readlinesU {σ : Type} (o : Ops σ) (u : UF σ) (hint : Option Int) : URes σ (List Bytes) :=
  readlinesLoopU o hint (linesFuel o u.f) u [] 0

def iterLoopU {σ : Type} (o : Ops σ) : Nat → UF σ → List Bytes → URes σ (List Bytes)
  | 0, u, _ => (u, .error .fuel)
  | fuel+1, u, acc =>
    match nextU o u with
    | (u, .error e) => (u, .error e)
    | (u, .ok none) => (u, .ok acc)
    | (u, .ok (some l)) => iterLoopU o fuel u (acc ++ [l])

def iterAllU {σ : Type} (o : Ops σ) (u : UF σ) : URes σ (List Bytes) :=
  if u.f.closed then (u, .error .closed) else iterLoopU o (linesFuel o u.f) u []

def liftU {σ α : Type} (u : UF σ) (k : α → Out) (r : Res σ α) : UF σ × Out :=
  match r with
  | (f, .ok a) => ({ u with f := f }, k a)
  | (f, .error e) => ({ u with f := f }, .err e)

def outOfU {σ α : Type} (k : α → Out) (r : URes σ α) : UF σ × Out :=
  match r with
  | (u, .ok a) => (u, k a)
  | (u, .error e) => (u, .err e)

def stepU {σ : Type} (o : Ops σ) (u : UF σ) : Op → UF σ × Out
  | .read n => liftU u .bytes (read o u.f n)
  | .readline n => outOfU .bytes (readlineU o u n)
  | .readlines h => outOfU .lines (readlinesU o u h)
  | .next => outOfU (fun x => match x with | none => .stop | some b => .bytes b) (nextU o u)
  | .iter => outOfU .lines (iterAllU o u)
  | .write d => liftU u (fun _ => .unit) (write o u.f d)
  | .writelines ds => liftU u (fun _ => .unit) (writelines o u.f ds)
  | .flush => liftU u (fun _ => .unit) (flush o u.f)
  | .close => liftU u (fun _ => .unit) (close o u.f)
  | .tell => (u, .pos (tell u.f))

def runU {σ : Type} (o : Ops σ) : UF σ → List Op → UF σ × List Out
  | u, [] => (u, [])
  | u, op :: ops =>
    let r := stepU o u op
    let rs := runU o r.1 ops
    (rs.1, r.2 :: rs.2)

end PV.BufFile
