/-
  PV.Model.Primes — executable model of paramiko/primes.py `ModulusPack`
  (`_parse_modulus`, `read_file`, `get_modulus`) and of the bit-range clamping of
  `KexGex._parse_kexdh_gex_request` / `_parse_kexdh_gex_request_old` (kex_gex.py).

  * text level: `str.strip`, `str.split()`, `int(tok)`, `int(tok, 16)` are modelled for ASCII input
    (sign, `0x` prefix for base 16, single underscores between digits);
  * `pack` is Python's insertion-ordered dict `bits -> [(generator, modulus), …]` as an association list;
  * `_roll_random` is a parameter (`roll : Nat → Nat`, law `roll n < n` for `n > 0`);
  * `pickSize` is the hand-written mirror of the selection in `get_modulus`; `PV.Props.C43.pickSize_eq_generated`
    proves it equal to the kernel generated from the source AST (PV/Generated/C43.lean).
  Mathlib-free.
-/
import PV.Generated.C43
namespace PV.Primes

/-! ## text: strip / split / int -/

/-- ASCII characters for which `str.isspace()` holds -/
def isSpace (c : Char) : Bool :=
  c == ' ' || (9 ≤ c.toNat && c.toNat ≤ 13) || (28 ≤ c.toNat && c.toNat ≤ 31)

/-- `str.strip()` -/
def strip (s : List Char) : List Char :=
  ((s.dropWhile isSpace).reverse.dropWhile isSpace).reverse

/-- `str.split()` (no argument: runs of whitespace separate, no empty tokens) -/
def splitWs (s : List Char) : List (List Char) :=
  go s [] []
where
  go : List Char → List Char → List (List Char) → List (List Char)
    | [], cur, acc => (if cur.isEmpty then acc else cur.reverse :: acc).reverse
    | c :: cs, cur, acc =>
      if isSpace c then go cs [] (if cur.isEmpty then acc else cur.reverse :: acc)
      else go cs (c :: cur) acc

def digitVal (base : Nat) (c : Char) : Option Nat :=
  let v :=
    if '0' ≤ c ∧ c ≤ '9' then some (c.toNat - 48)
    else if 'a' ≤ c ∧ c ≤ 'z' then some (c.toNat - 87)
    else if 'A' ≤ c ∧ c ≤ 'Z' then some (c.toNat - 55)
    else none
  v.bind fun d => if d < base then some d else none

/-- `digit ('_'? digit)*` -/
def parseDigits (base : Nat) : List Char → Nat → Bool → Option Nat
  | [], acc, prevDigit => if prevDigit then some acc else none
  | c :: cs, acc, prevDigit =>
    if c == '_' then (if prevDigit then parseDigits base cs acc false else none)
    else
      match digitVal base c with
      | some d => parseDigits base cs (acc * base + d) true
      | none => none

/-- `int(tok)` (base 10) / `int(tok, 16)` on an ASCII token without surrounding whitespace; `none` = ValueError -/
def parseInt (base : Nat) (s : List Char) : Option Int :=
  let (neg, s) := match s with
    | '-' :: r => (true, r)
    | '+' :: r => (false, r)
    | _ => (false, s)
  let s := if base == 16 then
      match s with
      | '0' :: 'x' :: '_' :: r => r
      | '0' :: 'X' :: '_' :: r => r
      | '0' :: 'x' :: r => r
      | '0' :: 'X' :: r => r
      | _ => s
    else s
  (parseDigits base s 0 false).map fun n => if neg then -(n : Int) else (n : Int)

/-! ## `_parse_modulus` -/

structure Fields where
  modType : Int
  tests : Int
  tries : Int
  size : Int
  generator : Int
  modulus : Int
  deriving Repr, DecidableEq

/-- the tuple unpacking of `line.split()` and the six `int(...)` conversions (the timestamp is not converted) -/
def parseFields (line : List Char) : Option Fields :=
  match splitWs line with
  | [_timestamp, modType, tests, tries, size, generator, modulus] =>
    match parseInt 10 modType, parseInt 10 tests, parseInt 10 tries, parseInt 10 size, parseInt 10 generator,
        parseInt 16 modulus with
    | some a, some b, some c, some d, some e, some f =>
      some { modType := a, tests := b, tries := c, size := d, generator := e, modulus := f }
    | _, _, _, _, _, _ => none
  | _ => none

/-- `util.bit_length(n)` = `n.bit_length()` (of the absolute value) -/
def bitLength (z : Int) : Nat :=
  let n := z.natAbs
  if n = 0 then 0 else Nat.log2 n + 1

inductive Reason | basic | bitlen
  deriving Repr, DecidableEq

/-- `mod_type < 2 or tests < 4 or (tests & 4 and tests < 8 and tries < 100)` -/
def failsBasic (f : Fields) : Bool :=
  f.modType < 2 || f.tests < 4 || (f.tests.toNat.testBit 2 && f.tests < 8 && f.tries < 100)

/-- `(bl != size) and (bl != size + 1)` -/
def failsBitLength (f : Fields) : Bool :=
  ((bitLength f.modulus : Int) != f.size) && ((bitLength f.modulus : Int) != f.size + 1)

inductive Verdict where
  | added (bl : Nat) (g p : Int)
  | discarded (p : Int) (why : Reason)
  deriving Repr, DecidableEq

def classify (f : Fields) : Verdict :=
  if failsBasic f then .discarded f.modulus .basic
  else if failsBitLength f then .discarded f.modulus .bitlen
  else .added (bitLength f.modulus) (if f.generator = 0 then 2 else f.generator) f.modulus

abbrev Group := Int × Int            -- (generator, modulus)
abbrev PackDict := List (Nat × List Group)

/-- `if bl not in self.pack: self.pack[bl] = []` then `self.pack[bl].append(x)` (insertion order kept) -/
def dictAppend : PackDict → Nat → Group → PackDict
  | [], bl, x => [(bl, [x])]
  | (k, v) :: rest, bl, x => if k = bl then (k, v ++ [x]) :: rest else (k, v) :: dictAppend rest bl x

structure Pack where
  pack : PackDict
  discarded : List (Int × Reason)
  deriving Repr, DecidableEq

def Pack.empty : Pack := { pack := [], discarded := [] }

/-- `_parse_modulus(line)` on successfully converted fields -/
def Pack.addFields (p : Pack) (f : Fields) : Pack :=
  match classify f with
  | .added bl g m => { p with pack := dictAppend p.pack bl (g, m) }
  | .discarded m why => { p with discarded := p.discarded ++ [(m, why)] }

/-- `_parse_modulus(line)`: `none` = it raised (ValueError: wrong token count / not an integer) -/
def Pack.parseModulus (p : Pack) (line : List Char) : Option Pack :=
  (parseFields line).map p.addFields

/-- one iteration of the `read_file` loop -/
def Pack.readLine (p : Pack) (line : List Char) : Pack :=
  let line := strip line
  match line with
  | [] => p
  | c :: _ =>
    if c == '#' then p
    else match p.parseModulus line with
      | some p' => p'
      | none => p            -- `except: continue`

/-- `read_file`: `self.pack = {}` (the `discarded` list is kept), then every line -/
def Pack.readFile (p : Pack) (lines : List (List Char)) : Pack :=
  lines.foldl Pack.readLine { p with pack := [] }

/-! ## `get_modulus` -/

inductive Err where
  | noModuli        -- SSHException("no moduli available")
  | internal        -- KeyError / IndexError inside get_modulus: unreachable (theorem)
  deriving Repr, DecidableEq

/-- first pass: nearest bitsize ≥ preferred inside [min, max] -/
def pass1 (min prefer max : Int) (good b : Int) : Int :=
  if b ≥ prefer ∧ b ≥ min ∧ b ≤ max ∧ (b < good ∨ good = -1) then b else good

/-- second pass: greatest bitsize inside [min, max] -/
def pass2 (min max : Int) (good b : Int) : Int :=
  if b ≥ min ∧ b ≤ max ∧ b > good then b else good

/-- the selection of `get_modulus` over `bitsizes = sorted(self.pack.keys())` -/
def pickSize (bitsizes : List Int) (min prefer max : Int) : Int :=
  let good := bitsizes.foldl (pass1 min prefer max) (-1)
  let good := if good = -1 then bitsizes.foldl (pass2 min max) good else good
  if good = -1 then
    let good := bitsizes.headD 0
    if min > good then bitsizes.getLastD 0 else good
  else good

/-- insertion sort (`sorted(...)` on the dict's integer keys) -/
def insertSorted (a : Nat) : List Nat → List Nat
  | [] => [a]
  | b :: l => if a ≤ b then a :: b :: l else b :: insertSorted a l

def sortNat (l : List Nat) : List Nat := l.foldr insertSorted []

def sortedKeys (d : PackDict) : List Nat := sortNat (d.map (·.1))

def dictGet (d : PackDict) (k : Int) : Option (List Group) :=
  (d.find? fun e => (e.1 : Int) = k).map (·.2)

/-- `ModulusPack.get_modulus(min, prefer, max)` with `_roll_random = roll` -/
def Pack.getModulus (roll : Nat → Nat) (p : Pack) (min prefer max : Int) : Except Err Group :=
  let bitsizes := sortedKeys p.pack
  if bitsizes.length = 0 then .error .noModuli
  else
    let good := PV.Generated.C43.getModulusGood (bitsizes.map Int.ofNat) min prefer max
    match dictGet p.pack good with
    | none => .error .internal
    | some l =>
      match l[roll l.length]? with
      | none => .error .internal
      | some x => .ok x

/-! ## KexGex: the triple handed to `get_modulus` -/

/-- `_parse_kexdh_gex_request`: wire triple ↦ (minbits, preferredbits, maxbits) passed on (instance defaults
`min_bits`/`max_bits` are the class attributes, generated) -/
def gexTriple (minbits preferredbits maxbits : Int) : Int × Int × Int :=
  PV.Generated.C43.gexClamp PV.Generated.C43.kexMinBits PV.Generated.C43.kexMaxBits minbits preferredbits maxbits

/-- `_parse_kexdh_gex_request_old`: wire preferred size ↦ triple passed on -/
def gexTripleOld (preferredbits : Int) : Int × Int × Int :=
  (PV.Generated.C43.kexMinBits,
   PV.Generated.C43.gexClampOld PV.Generated.C43.kexMinBits PV.Generated.C43.kexMaxBits preferredbits,
   PV.Generated.C43.kexMaxBits)

def Pack.gexRequest (roll : Nat → Nat) (p : Pack) (a b c : Int) : Except Err Group :=
  let t := gexTriple a b c
  p.getModulus roll t.1 t.2.1 t.2.2

def Pack.gexRequestOld (roll : Nat → Nat) (p : Pack) (b : Int) : Except Err Group :=
  let t := gexTripleOld b
  p.getModulus roll t.1 t.2.1 t.2.2

/-! ## several requests on one `ModulusPack` object

`get_modulus` reads `self.pack` and writes nothing: the object after the call is the object before it.  A request is
`(min, prefer, max, k)` with `_roll_random(n) = k % n` for that call. -/

abbrev Request := Int × Int × Int × Nat

/-- one call on the object: (object afterwards, answer) -/
def Pack.getStep (p : Pack) (r : Request) : Pack × Except Err Group :=
  (p, p.getModulus (fun n => r.2.2.2 % n) r.1 r.2.1 r.2.2.1)

/-- a history of calls on the same object -/
def Pack.getSession : Pack → List Request → Pack × List (Except Err Group)
  | p, [] => (p, [])
  | p, r :: rs =>
    let s := p.getStep r
    let rest := Pack.getSession s.1 rs
    (rest.1, s.2 :: rest.2)

end PV.Primes
