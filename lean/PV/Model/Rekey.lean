/-
  PV.Model.Rekey — the rekey bookkeeping of `Packetizer` (paramiko/packet.py: counters in `send_message` /
  `read_message`, `_trigger_rekey`, `need_rekey`, the resets in `set_outbound_cipher` / `set_inbound_cipher`)
  together with the transport's use of it (`Transport.run` loop top, `in_kex` handling in `_send_kex_init`,
  `_activate_outbound`, `_parse_newkeys`).  Thresholds are parameters.  Mathlib-free, executable.
-/
namespace PV.Rekey

/-- `REKEY_PACKETS`, `REKEY_BYTES`, `REKEY_PACKETS_OVERFLOW_MAX`, `REKEY_BYTES_OVERFLOW_MAX` -/
structure Limits where
  rp : Nat
  rb : Nat
  op : Nat
  ob : Nat
  deriving Repr, DecidableEq

structure St where
  sentBytes : Nat := 0
  sentPackets : Nat := 0
  recvBytes : Nat := 0
  recvPackets : Nat := 0
  ovBytes : Nat := 0          -- __received_bytes_overflow
  ovPackets : Nat := 0        -- __received_packets_overflow
  needRekey : Bool := false   -- __need_rekey
  initCount : Nat := 0        -- __init_count (bit 1: outbound switched, bit 2: inbound switched)
  err : Bool := false         -- SSHException("Remote transport is ignoring rekey requests") was raised
  inKex : Bool := false       -- Transport.in_kex
  kexInits : Nat := 0         -- ghost: KEXINITs sent because of `need_rekey()`
  deriving Repr, DecidableEq, Inhabited

inductive Op
  | send (len : Nat)     -- `send_message` wrote a packet of `len` bytes
  | recv (len : Nat)     -- `read_message` returned a packet of raw size `len`
  | setOut               -- `_activate_outbound`: `set_outbound_cipher`, then `if not need_rekey(): in_kex = False`
  | setIn                -- `_parse_newkeys`: `set_inbound_cipher`, then `if not need_rekey(): in_kex = False`
  | loopTop              -- `if need_rekey() and not in_kex: _send_kex_init()`
  | peerKexInit          -- the peer's KEXINIT: `_negotiate_keys` → `_send_kex_init()` if we have not sent ours
  deriving Repr, DecidableEq, Inhabited

def bothSwitched (s : St) (bit : Nat) : St :=
  let c := s.initCount ||| bit
  if c = 3 then { s with initCount := 0, needRekey := false } else { s with initCount := c }

def step (L : Limits) (s : St) : Op → St
  | .send len =>
    let s := { s with sentBytes := s.sentBytes + len, sentPackets := s.sentPackets + 1 }
    if (s.sentPackets ≥ L.rp ∨ s.sentBytes ≥ L.rb) ∧ ¬ s.needRekey then
      { s with ovBytes := 0, ovPackets := 0, needRekey := true }
    else s
  | .recv len =>
    let s := { s with recvBytes := s.recvBytes + len, recvPackets := s.recvPackets + 1 }
    if s.needRekey then
      let s := { s with ovBytes := s.ovBytes + len, ovPackets := s.ovPackets + 1 }
      if s.ovPackets ≥ L.op ∨ s.ovBytes ≥ L.ob then { s with err := true } else s
    else if s.recvPackets ≥ L.rp ∨ s.recvBytes ≥ L.rb then
      { s with ovBytes := 0, ovPackets := 0, needRekey := true }
    else s
  | .setOut =>
    let s := bothSwitched { s with sentBytes := 0, sentPackets := 0 } 1
    if ¬ s.needRekey then { s with inKex := false } else s
  | .setIn =>
    let s := bothSwitched { s with recvBytes := 0, recvPackets := 0, ovBytes := 0, ovPackets := 0 } 2
    if ¬ s.needRekey then { s with inKex := false } else s
  | .loopTop =>
    if s.needRekey ∧ ¬ s.inKex then { s with inKex := true, kexInits := s.kexInits + 1 } else s
  | .peerKexInit => { s with inKex := true }

/-- an exception ends the transport: nothing happens afterwards -/
def stepE (L : Limits) (s : St) (o : Op) : St := if s.err then s else step L s o

def run (L : Limits) (s : St) (ops : List Op) : St := ops.foldl (stepE L) s

/-! ## `Packetizer.read_all(n, check_rekey)` over a socket that delivers fragments and times out -/

inductive SockEv
  | data (k : Nat)     -- `recv(n)` returned `k` bytes (at most what was asked for; 0 = end of file)
  | timeout            -- `socket.timeout`
  | eagain             -- `socket.error` with errno EAGAIN (how some socket-likes report "nothing yet")
  deriving Repr, DecidableEq, Inhabited

inductive ReadResult
  | ok (events : Nat)          -- all `n` bytes were read, after this many socket events
  | needRekey (lost : Nat)     -- NeedRekeyException, with this many bytes of the packet already taken off the socket
  | eof (got : Nat)            -- EOFError (`recv` returned nothing, or the script of events ended)
  deriving Repr, DecidableEq, Inhabited

/-- `got` = bytes of this request read so far, `used` = socket events consumed -/
def readAll (need check : Bool) (n got used : Nat) : List SockEv → ReadResult
  | [] => if n = 0 then .ok used else .eof got
  | ev :: evs =>
    if n = 0 then .ok used else
    match ev with
    | .data k =>
      if k = 0 then .eof got
      else readAll need check (n - min k n) (got + min k n) (used + 1) evs
    | .timeout | .eagain =>      -- both set `got_timeout`: one and the same test follows
      if check ∧ got = 0 ∧ need then .needRekey got
      else readAll need check n got (used + 1) evs

/-! ## compression engines across key switches (`_activate_outbound`, `_activate_inbound`, `_auth_trigger`) -/

/-- negotiated compression: "none", "zlib", "zlib@openssh.com" (switched on only after authentication) -/
inductive Comp | none | zlib | delayed
  deriving Repr, DecidableEq, Inhabited

structure CSt where
  comp : Comp
  authenticated : Bool := false
  outGen : Nat := 0                   -- key sets taken into use outbound (NEWKEYS sent)
  inGen : Nat := 0                    -- … inbound (NEWKEYS received)
  compOutGen : Option Nat := none     -- the key generation the current compressor was created for
  compInGen : Option Nat := none      -- … the current decompressor
  installsOut : Nat := 0              -- calls of `set_outbound_compressor`
  installsIn : Nat := 0               -- calls of `set_inbound_compressor`
  deriving Repr, DecidableEq, Inhabited

inductive COp | newkeysOut | newkeysIn | auth
  deriving Repr, DecidableEq, Inhabited

/-- `compress_* is not None and (compression != "zlib@openssh.com" or self.authenticated)` -/
def CSt.switchOn (s : CSt) : Bool :=
  match s.comp with
  | .none => false
  | .zlib => true
  | .delayed => s.authenticated

def cstep (s : CSt) : COp → CSt
  | .newkeysOut =>
    let s := { s with outGen := s.outGen + 1 }
    if s.switchOn then { s with compOutGen := some s.outGen, installsOut := s.installsOut + 1 } else s
  | .newkeysIn =>
    let s := { s with inGen := s.inGen + 1 }
    if s.switchOn then { s with compInGen := some s.inGen, installsIn := s.installsIn + 1 } else s
  | .auth =>
    let s := { s with authenticated := true }
    if s.comp = .delayed then
      { s with compOutGen := some s.outGen, compInGen := some s.inGen,
               installsOut := s.installsOut + 1, installsIn := s.installsIn + 1 }
    else s

def crun (s : CSt) (ops : List COp) : CSt := ops.foldl cstep s

/-- which generation a direction's (de)compressor must belong to -/
def expectedCompGen (c : Comp) (authenticated : Bool) (gen : Nat) : Option Nat :=
  match c with
  | .none => none
  | .zlib => if gen = 0 then none else some gen
  | .delayed => if authenticated then some gen else none

end PV.Rekey
