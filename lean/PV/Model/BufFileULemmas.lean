/-
  PV.Model.BufFileULemmas — universal-newline `readline()` over the short-read stream: the returned line and
  what is left are functions of the pending bytes and the `_at_trailing_cr` flag only (not of the chunking).
-/
import PV.Model.BufFileU
import PV.Model.BufFileLemmas
namespace PV.BufFile
open PV

/-! ## specification vocabulary -/

/-- a pending bare CR makes a leading LF disappear (it is the second half of a CRLF) -/
def eff (atCR : Bool) (p : Bytes) : Bytes := if atCR && p.head? == some LF then p.tail else p

/-- first universal-newline line of `p` (terminator translated to LF) and the rest -/
def uSplit (p : Bytes) : Bytes × Bytes :=
  match p.findIdx? isNL with
  | none => (p, [])
  | some i => (p.take i ++ [LF],
               if p[i]? == some CR && p[i + 1]? == some LF then p.drop (i + 2) else p.drop (i + 1))

/-- bytes a U-mode caller has still to receive, as lines will see them -/
def upend (u : UF Chan) : Bytes := eff u.atCR (u.f.rbuf ++ u.f.s.inp)

theorem recordNL_f {σ : Type} (u : UF σ) (x : Bytes) : (recordNL u x).f = u.f ∧ (recordNL u x).atCR = u.atCR := by
  unfold recordNL; split <;> exact ⟨rfl, rfl⟩

/-- the "edge case" block: the effective pending bytes do not change, the file part does not change, and a flag
    that is still set afterwards means nothing has been accumulated yet -/
theorem resolveCR_spec (u : UF Chan) (line inp : Bytes) :
    eff (resolveCR u line).1.atCR ((resolveCR u line).2 ++ inp) = eff u.atCR (line ++ inp) ∧
    (resolveCR u line).1.f = u.f ∧
    ((resolveCR u line).1.atCR = true → (resolveCR u line).2 = []) := by
  unfold resolveCR
  by_cases ha : u.atCR = true
  · cases line with
    | nil => simp [ha]
    | cons b t =>
      by_cases hb : b = LF
      · subst hb
        simp [ha, eff, (recordNL_f u [CR, LF]).1]
      · have hb' : ¬ (some b == some LF) = true := by simpa using hb
        simp [ha, eff, hb, (recordNL_f u [CR]).1]
  · have ha' : u.atCR = false := by simpa using ha
    simp [ha']

theorem eff_false (p : Bytes) : eff false p = p := by simp [eff]

theorem eff_true_nil : eff true [] = [] := by simp [eff]

theorem uSplit_noNL (p : Bytes) (h : p.any isNL = false) : uSplit p = (p, []) := by
  have : p.findIdx? isNL = none := by
    rw [List.findIdx?_eq_none_iff]
    intro x hx
    cases hxx : isNL x with
    | false => rfl
    | true =>
      have : p.any isNL = true := List.any_eq_true.2 ⟨x, hx, hxx⟩
      rw [h] at this; cases this
  simp [uSplit, this]

/-- `findIdx?` of the accumulated line decides the split of line ++ inp -/
theorem findIdx_append_some (line inp : Bytes) (p : Nat) (h : line.findIdx? isNL = some p) :
    (line ++ inp).findIdx? isNL = some p ∧ p < line.length := by
  have hp : p < line.length := by
    obtain ⟨hlt, _⟩ := List.findIdx?_eq_some_iff_getElem.1 h
    exact hlt
  rw [List.findIdx?_append, h]
  exact ⟨rfl, hp⟩

/-- the code after the loop, for a `break` with a line end in `line` (flag already cleared, no truncation) -/
theorem ruPost_brk (u : UF Chan) (line : Bytes) (p : Nat) (ha : u.atCR = false)
    (hp : line.findIdx? isNL = some p) :
    let r := ruPost (σ := Chan) (u, .ok (.brk line false))
    r.2 = .ok (uSplit (line ++ u.f.s.inp)).1 ∧
    eff r.1.atCR (r.1.f.rbuf ++ r.1.f.s.inp) = (uSplit (line ++ u.f.s.inp)).2 ∧
    wside r.1.f = wside u.f ∧ cfg r.1.f = cfg u.f ∧ r.1.f.closed = u.f.closed := by
  intro r
  obtain ⟨hfi, hlt⟩ := findIdx_append_some line u.f.s.inp p hp
  have hsp : uSplit (line ++ u.f.s.inp) = ((line ++ u.f.s.inp).take p ++ [LF],
      if (line ++ u.f.s.inp)[p]? == some CR && (line ++ u.f.s.inp)[p + 1]? == some LF
      then (line ++ u.f.s.inp).drop (p + 2) else (line ++ u.f.s.inp).drop (p + 1)) := by
    simp [uSplit, hfi]
  have htake : (line ++ u.f.s.inp).take p = line.take p := List.take_append_of_le_length (by omega)
  have hgp : (line ++ u.f.s.inp)[p]? = line[p]? := List.getElem?_append_left hlt
  rw [hsp, htake, hgp]
  -- what the model computes
  simp only [r, ruPost, hp]
  by_cases hin : p + 1 < line.length
  · -- the byte after the line end is in the accumulated line
    have hg1 : (line ++ u.f.s.inp)[p + 1]? = line[p + 1]? := List.getElem?_append_left hin
    rw [hg1]
    by_cases hcrlf : (line[p]? == some CR && line[p + 1]? == some LF) = true
    · simp only [hcrlf, if_true]
      have hlf : (line.drop p).take (p + 2 - p) = [CR, LF] := by
        have h1 : line[p]? = some CR := by
          have := hcrlf; simp only [Bool.and_eq_true, beq_iff_eq] at this; exact this.1
        have h2 : line[p + 1]? = some LF := by
          have := hcrlf; simp only [Bool.and_eq_true, beq_iff_eq] at this; exact this.2
        have : p + 2 - p = 2 := by omega
        rw [this]
        have hd : line.drop p = CR :: LF :: line.drop (p + 2) := by
          rw [List.drop_eq_getElem_cons hlt, List.drop_eq_getElem_cons hin]
          have e1 : line[p] = CR := by
            have := List.getElem?_eq_getElem hlt; rw [this] at h1; injection h1
          have e2 : line[p + 1] = LF := by
            have := List.getElem?_eq_getElem hin; rw [this] at h2; injection h2
          rw [e1, e2]
        rw [hd]; rfl
      have hne : ¬ ((line.drop (p + 2)).isEmpty && ((line.drop p).take (p + 2 - p) == [CR])) = true := by
        rw [hlf]; simp
      simp only [Bool.false_eq_true, if_false, hne]
      obtain ⟨q1, q2⟩ := recordNL_f
        ({ u with f := { u.f with rbuf := line.drop (p + 2), pos := u.f.pos + ((line.take p ++ [LF]).length : Nat) } })
        ((line.drop p).take (p + 2 - p))
      refine ⟨by triv, ?_, ?_, ?_, ?_⟩
      · rw [q2, q1, ha, eff_false]
        simp only
        rw [List.drop_append_of_le_length (by omega)]
      · rw [q1]; triv
      · rw [q1]; triv
      · rw [q1]
    · have hcrlf' : (line[p]? == some CR && line[p + 1]? == some LF) = false := by simpa using hcrlf
      simp only [hcrlf', Bool.false_eq_true, if_false]
      have hrne : (line.drop (p + 1)).isEmpty = false := by
        cases hq : line.drop (p + 1) with
        | nil =>
          have := congrArg List.length hq
          rw [List.length_drop] at this; simp at this; omega
        | cons _ _ => rfl
      simp only [hrne, Bool.false_and, Bool.false_eq_true, if_false]
      obtain ⟨q1, q2⟩ := recordNL_f
        ({ u with f := { u.f with rbuf := line.drop (p + 1), pos := u.f.pos + ((line.take p ++ [LF]).length : Nat) } })
        ((line.drop p).take (p + 1 - p))
      refine ⟨by triv, ?_, ?_, ?_, ?_⟩
      · rw [q2, q1, ha, eff_false]
        simp only
        rw [List.drop_append_of_le_length (by omega)]
      · rw [q1]; triv
      · rw [q1]; triv
      · rw [q1]
  · -- the line end is the last accumulated byte
    have hpl : p + 1 = line.length := by omega
    have hnone : line[p + 1]? = none := List.getElem?_eq_none (by omega)
    have hg1 : (line ++ u.f.s.inp)[p + 1]? = u.f.s.inp.head? := by
      rw [List.getElem?_append_right (by omega), List.head?_eq_getElem?]
      congr 1; omega
    have hcrlf' : (line[p]? == some CR && line[p + 1]? == some LF) = false := by
      rw [hnone]; simp
    simp only [hcrlf', Bool.false_eq_true, if_false]
    have hdrop : line.drop (p + 1) = [] := List.drop_of_length_le (by omega)
    have hlf : (line.drop p).take (p + 1 - p) = [line[p]] := by
      have : p + 1 - p = 1 := by omega
      rw [this, List.drop_eq_getElem_cons hlt]; rfl
    have hgp' : line[p]? = some line[p] := List.getElem?_eq_getElem hlt
    rw [hdrop, hlf, hg1, hgp']
    simp only [List.isEmpty_nil, Bool.true_and]
    have hd1 : (line ++ u.f.s.inp).drop (p + 1) = u.f.s.inp := by
      rw [List.drop_append_of_le_length (by omega), hdrop, List.nil_append]
    have hd2 : (line ++ u.f.s.inp).drop (p + 2) = u.f.s.inp.tail := by
      rw [show p + 2 = line.length + 1 by omega, List.drop_append]
      simp
    rw [hd1, hd2]
    by_cases hcr : line[p] = CR
    · have hb : ([line[p]] == [CR]) = true := by rw [hcr]; rfl
      simp only [hb, if_true]
      refine ⟨by triv, ?_, by triv, by triv, by triv⟩
      simp only [List.nil_append, eff, Bool.true_and, hcr]
      simp
    · have hb : ([line[p]] == [CR]) = false := by simpa using hcr
      simp only [hb, Bool.false_eq_true, if_false]
      obtain ⟨q1, q2⟩ := recordNL_f
        ({ u with f := { u.f with rbuf := [], pos := u.f.pos + ((line.take p ++ [LF]).length : Nat) } }) [line[p]]
      refine ⟨by triv, ?_, ?_, ?_, ?_⟩
      · rw [q2, q1, ha, eff_false]
        have : (some line[p] == some CR) = false := by simpa using hcr
        simp [this]
      · rw [q1]; triv
      · rw [q1]; triv
      · rw [q1]


theorem eff_nil (b : Bool) : eff b [] = [] := by cases b <;> simp [eff]

theorem uSplit_nil : uSplit [] = ([], []) := by simp [uSplit]

/-- U-mode `readline()` from the point where `line` has been accumulated -/
def ruFrom (fuel : Nat) (u : UF Chan) (line : Bytes) : URes Chan Bytes :=
  ruPost (ruLoop chanOps none fuel u line)

theorem ruFrom_chan (fuel : Nat) (u : UF Chan) (line : Bytes)
    (hb : 1 ≤ u.f.bufsize) (hf : u.f.s.inp.length < fuel) :
    (ruFrom fuel u line).2 = .ok (uSplit (eff u.atCR (line ++ u.f.s.inp))).1 ∧
    eff (ruFrom fuel u line).1.atCR ((ruFrom fuel u line).1.f.rbuf ++ (ruFrom fuel u line).1.f.s.inp)
      = (uSplit (eff u.atCR (line ++ u.f.s.inp))).2 ∧
    wside (ruFrom fuel u line).1.f = wside u.f ∧ cfg (ruFrom fuel u line).1.f = cfg u.f ∧
    (ruFrom fuel u line).1.f.closed = u.f.closed := by
  induction fuel generalizing u line with
  | zero => omega
  | succ fuel ih =>
    obtain ⟨e1, e2, e3⟩ := resolveCR_spec u line u.f.s.inp
    unfold ruFrom
    rw [ruLoop]
    rcases hres : resolveCR u line with ⟨u1, l1⟩
    rw [hres] at e1 e2 e3
    simp only at e1 e2 e3
    simp only
    have hlim : rlLimit none u1.f.bufsize l1 = some u1.f.bufsize := rfl
    rw [hlim]
    simp only
    rw [← e1]
    have hinp : u1.f.s.inp = u.f.s.inp := by rw [e2]
    by_cases hany : l1.any isNL = true
    · rw [if_pos hany]
      have hne : l1 ≠ [] := by intro h; rw [h] at hany; simp at hany
      have ha1 : u1.atCR = false := by
        cases hq : u1.atCR with
        | false => rfl
        | true => exact absurd (e3 hq) hne
      obtain ⟨p, hp⟩ : ∃ p, l1.findIdx? isNL = some p := by
        have := List.findIdx?_isSome (xs := l1) (p := isNL)
        rw [hany] at this
        exact Option.isSome_iff_exists.1 this
      have h := ruPost_brk u1 l1 p ha1 hp
      simp only at h
      rw [ha1, eff_false, ← hinp]
      obtain ⟨h1, h2, h3, h4, h5⟩ := h
      exact ⟨h1, h2, by rw [h3, e2], by rw [h4, e2], by rw [h5, e2]⟩
    · have hany' : l1.any isNL = false := by simpa using hany
      rw [if_neg hany]
      simp only [chanOps_read]
      have hb1 : 1 ≤ u1.f.bufsize := by rw [e2]; exact hb
      have hk := grant_pos u1.f.s.rg u1.f.bufsize hb1
      by_cases he : (u1.f.s.inp.take (grant u1.f.s.rg u1.f.bufsize)).isEmpty = true
      · have hnil := (take_isEmpty_iff _ _ hk).1 he
        have hnil' : u.f.s.inp = [] := by rw [← hinp]; exact hnil
        rw [if_pos he]
        simp only [ruPost]
        rw [hnil', List.append_nil]
        have hE : uSplit (eff u1.atCR l1) = (l1, []) := by
          cases hq : u1.atCR with
          | false => rw [eff_false]; exact uSplit_noNL l1 hany'
          | true => rw [e3 hq, eff_true_nil]; exact uSplit_nil
        rw [hE]
        refine ⟨rfl, ?_, ?_, ?_, ?_⟩
        · simp only [List.nil_append, hnil, List.drop_nil]; exact eff_nil _
        · simp [wside, hnil, e2]
        · simp [cfg, e2]
        · simp [e2]
      · rw [if_neg he]
        have hne : u1.f.s.inp ≠ [] := fun h => he ((take_isEmpty_iff _ _ hk).2 h)
        have hlen : 0 < u1.f.s.inp.length := List.length_pos_iff.2 hne
        have := ih
          { u1 with f := { u1.f with
              s := { u1.f.s with inp := u1.f.s.inp.drop (grant u1.f.s.rg u1.f.bufsize), rg := u1.f.s.rg.tail },
              realpos := u1.f.realpos + (u1.f.s.inp.take (grant u1.f.s.rg u1.f.bufsize)).length } }
          (l1 ++ u1.f.s.inp.take (grant u1.f.s.rg u1.f.bufsize)) hb1
          (by simp only [List.length_drop]; rw [hinp] at hlen ⊢; omega)
        unfold ruFrom at this
        simp only [List.append_assoc, List.take_append_drop] at this
        rw [← hinp]
        obtain ⟨i1, i2, i3, i4, i5⟩ := this
        refine ⟨i1, i2, ?_, ?_, ?_⟩
        · rw [i3]; simp [wside, e2]
        · rw [i4]; simp [cfg, e2]
        · rw [i5]; simp [e2]


theorem readlineU_chan (u : UF Chan) (hb : 1 ≤ u.f.bufsize) (hc : u.f.closed = false) (hr : u.f.rd = true) :
    (readlineU chanOps u none).2 = .ok (uSplit (upend u)).1 ∧
    upend (readlineU chanOps u none).1 = (uSplit (upend u)).2 ∧
    wside (readlineU chanOps u none).1.f = wside u.f ∧ cfg (readlineU chanOps u none).1.f = cfg u.f ∧
    (readlineU chanOps u none).1.f.closed = u.f.closed := by
  unfold readlineU
  rw [if_neg (by simp [hc]), if_neg (by simp [hr]), syncForRead_chan]
  simp only [chanOps_bound]
  exact ruFrom_chan (u.f.s.inp.length + 1) u u.f.rbuf hb (by omega)

theorem uSplit_fst_nil (p : Bytes) : (uSplit p).1 = [] ↔ p = [] := by
  unfold uSplit
  cases h : p.findIdx? isNL with
  | none => simp
  | some i =>
    simp only [List.append_eq_nil_iff, List.cons_ne_self, and_false, false_iff]
    intro hp; subst hp; simp at h

theorem uSplit_snd_length (p : Bytes) (hp : p ≠ []) : (uSplit p).2.length < p.length := by
  have hl : 0 < p.length := List.length_pos_iff.2 hp
  unfold uSplit
  cases h : p.findIdx? isNL with
  | none => simpa using hl
  | some i =>
    obtain ⟨hlt, _⟩ := List.findIdx?_eq_some_iff_getElem.1 h
    simp only
    split <;> simp only [List.length_drop] <;> omega

/-- the universal-newline lines of `p` (`k` bounds their number) -/
def uLines : Nat → Bytes → List Bytes
  | 0, _ => []
  | k+1, p => if p.isEmpty then [] else (uSplit p).1 :: uLines k (uSplit p).2

theorem iterLoopU_chan (fuel : Nat) (u : UF Chan) (acc : List Bytes)
    (hb : 1 ≤ u.f.bufsize) (hc : u.f.closed = false) (hr : u.f.rd = true) (hf : (upend u).length < fuel) :
    (iterLoopU chanOps fuel u acc).2 = .ok (acc ++ uLines fuel (upend u)) ∧
    upend (iterLoopU chanOps fuel u acc).1 = [] ∧
    wside (iterLoopU chanOps fuel u acc).1.f = wside u.f ∧ cfg (iterLoopU chanOps fuel u acc).1.f = cfg u.f ∧
    (iterLoopU chanOps fuel u acc).1.f.closed = u.f.closed := by
  induction fuel generalizing u acc with
  | zero => omega
  | succ fuel ih =>
    rw [iterLoopU]
    unfold nextU
    obtain ⟨h1, h2, h3, h4, h5⟩ := readlineU_chan u hb hc hr
    rcases hres : readlineU chanOps u none with ⟨u1, r1⟩
    rw [hres] at h1 h2 h3 h4 h5
    simp only at h1 h2 h3 h4 h5
    subst h1
    simp only
    by_cases he : (uSplit (upend u)).1.isEmpty = true
    · have hnil : (uSplit (upend u)).1 = [] := by simpa using he
      have hp : upend u = [] := (uSplit_fst_nil _).1 hnil
      simp only [he, if_true]
      refine ⟨?_, ?_, h3, h4, h5⟩
      · simp [uLines, hp]
      · rw [h2, hp]; simp [uSplit]
    · simp only [he, Bool.false_eq_true, if_false]
      have hne : upend u ≠ [] := by
        intro h; apply he; rw [h]; simp [uSplit]
      have hlt := uSplit_snd_length (upend u) hne
      have hb1 : 1 ≤ u1.f.bufsize := by
        have : u1.f.bufsize = u.f.bufsize := by simp [cfg] at h4; exact h4.2.2.2.2.2.1
        omega
      have hr1 : u1.f.rd = true := by
        have : u1.f.rd = u.f.rd := by simp [cfg] at h4; exact h4.1
        rw [this]; exact hr
      obtain ⟨i1, i2, i3, i4, i5⟩ := ih u1 (acc ++ [(uSplit (upend u)).1]) hb1 (by rw [h5]; exact hc) hr1
        (by rw [h2]; omega)
      have hpe : (upend u).isEmpty = false := by simpa using hne
      refine ⟨?_, i2, by rw [i3, h3], by rw [i4, h4], by rw [i5, h5]⟩
      rw [i1, h2]
      simp [uLines, hpe]

end PV.BufFile
