/-
  PV.Model.PyFile — SPEC: what a local Python binary file (`open(path, mode + "b")`) does, for the
  operations of C27.  It is validated against real local files (unbuffered `FileIO` and the default
  buffered objects; programs on which those two disagree are outside the spec) on every run of the check.
  Return values of write/seek/truncate (an int locally) are kept in `Out.pos`.
-/
import PV.Model.SftpFile
namespace PV.PyFile
open PV PV.BufFile PV.SftpFile

structure PF where
  content : Bytes
  pos : Nat := 0
  rd : Bool := false
  wr : Bool := false
  app : Bool := false
  closed : Bool := false
  deriving Repr

/-- `open(path, mode + "b")`; `fs` = content if the file exists.  `none` = open raises. -/
def pyOpen (fs : Option Bytes) (mode : List Char) : Option PF :=
  let has (c : Char) := mode.contains c
  let plus := has '+'
  if has 'x' then
    match fs with
    | some _ => none
    | none => some { content := [], rd := plus, wr := true }
  else if has 'w' then some { content := [], rd := plus, wr := true }
  else if has 'a' then
    let c := fs.getD []
    some { content := c, pos := c.length, rd := plus, wr := true, app := true }
  else
    match fs with
    | none => none
    | some c => some { content := c, rd := true, wr := plus }

/-- generic failure (ValueError / OSError / io.UnsupportedOperation) -/
def E : Out := .err (.stream 0)

def splitLines : Nat → Bytes → List Bytes
  | 0, _ => []
  | k+1, p => if p.isEmpty then [] else
      lineOf p :: splitLines k (p.drop (lineOf p).length)

/-- `readlines(hint)`: all lines if the hint is absent or ≤ 0, else stop once the total EXCEEDS the hint -/
def takeLines (hint : Option Int) : List Bytes → Nat → List Bytes
  | [], _ => []
  | l :: ls, total =>
    let total := total + l.length
    match hint with
    | some h => if h > 0 ∧ (total : Int) > h then [l] else l :: takeLines hint ls total
    | none => l :: takeLines hint ls total

def pstep (p : PF) : FOp → PF × Out
  | .read n =>
    if p.closed || !p.rd then (p, E) else
    let rest := p.content.drop p.pos
    let d := match n with | none => rest | some k => rest.take k
    ({ p with pos := p.pos + d.length }, .bytes d)
  | .readline n =>
    if n == some 0 then (p, .bytes [])        -- IOBase.readline(0) never touches the file (closed or not)
    else if p.closed || !p.rd then (p, E) else
    let l := specLine n (p.content.drop p.pos)     -- first line of what follows, cut at the size limit
    ({ p with pos := p.pos + l.length }, .bytes l)
  | .readlines h =>
    if p.closed || !p.rd then (p, E) else
    let rest := p.content.drop p.pos
    let ls := takeLines h (splitLines rest.length rest) 0
    ({ p with pos := p.pos + ls.flatten.length }, .lines ls)
  | .write d =>
    if p.closed || !p.wr then (p, E) else
    if p.app then
      let c := p.content ++ d
      ({ p with content := c, pos := if d.isEmpty then p.pos else c.length }, .pos d.length)
    else ({ p with content := overlay p.content p.pos d, pos := p.pos + d.length }, .pos d.length)
  | .seek off wh =>
    if p.closed then (p, E) else
    let t : Int := if wh == 0 then off else if wh == 1 then p.pos + off else p.content.length + off
    if t < 0 then (p, E) else ({ p with pos := t.toNat }, .pos t)
  | .tell => if p.closed then (p, E) else (p, .pos p.pos)
  | .flush => if p.closed then (p, E) else (p, .unit)
  | .truncate n =>
    if p.closed || !p.wr || n < 0 then (p, E) else
    ({ p with content := p.content.take n.toNat ++ List.replicate (n.toNat - p.content.length) 0 }, .pos n)
  | .close => ({ p with closed := true }, .unit)

def prun : PF → List FOp → PF × List Out
  | p, [] => (p, [])
  | p, op :: ops =>
    let r := pstep p op
    let rs := prun r.1 ops
    (rs.1, r.2 :: rs.2)

end PV.PyFile

/-! ## defect tags: where today's SFTPFile is known to leave the local-file semantics -/
namespace PV.C27
open PV PV.BufFile PV.SftpFile PV.PyFile

inductive Tag
  | tell_ignores_wbuffer           -- tell() does not count buffered writes
  | truncate_not_checked_writable  -- truncate() on a file opened read-only succeeds
  | truncate_zeroes_file           -- server set_file_attr re-opens with "w+": surviving bytes become NULs (C31)
  | truncate_in_append_mode        -- append-mode size bookkeeping (_size) is not told about the truncation
  | negative_seek_accepted         -- seek to a negative position does not raise
  | closed_file_call_accepted      -- flush()/tell()/seek() on a closed file do not raise
  | x_mode_not_writable            -- mode "x" without "w": file is created but neither readable nor writable
  | readlines_hint_rounding        -- readlines(hint): hint <= 0 stops after one line; stops AT the hint, not past it
  | readline0_on_unreadable        -- readline(0) on a closed file / one not open for reading raises (a local file returns b"")
  | unmodelled_server_readahead    -- NOT a finding: truncate through a handle that already served a READ; the
                                   -- server's own buffered reader (CPython, in StubSFTPServer) may then be stale
  deriving DecidableEq, Repr

def isReadOp : FOp → Bool
  | .read _ | .readline _ | .readlines _ => true
  | _ => false

/-- tags triggered by executing `op` in model state `f` (computed BEFORE the call) -/
def triggers (o : Ops Srv) (f : BF Srv) (op : FOp) : List Tag :=
  let t (b : Bool) (x : Tag) : List Tag := if b then [x] else []
  let live := !f.closed
  match op with
  | .read _ | .readline _ | .readlines _ =>
    (match op with
     | .readlines (some _) => t (live && f.rd) .readlines_hint_rounding
     | .readline (some 0) => t (f.closed || !f.rd) .readline0_on_unreadable
     | _ => [])
  | .write _ => []
  | .seek off wh =>
    t f.closed .closed_file_call_accepted ++
    t (live && (let g := (BufFile.flush o f).1
                if wh == 0 then off else if wh == 1 then g.pos + off else getSize g.s + off) < 0)
      .negative_seek_accepted
  | .tell => t f.closed .closed_file_call_accepted ++ t (live && !f.wbuf.isEmpty) .tell_ignores_wbuffer
  | .flush => t f.closed .closed_file_call_accepted
  | .truncate n =>
    t (live && !f.wr) .truncate_not_checked_writable ++
    t (live && f.wr && f.s.truncZero && n > 0) .truncate_zeroes_file ++
    t (live && f.app) .truncate_in_append_mode ++
    t (live && f.s.didRead) .unmodelled_server_readahead
  | .close => []

/-- tags of a whole run (sticky: a later divergence may be the late effect of an earlier trigger) -/
def runTags (o : Ops Srv) : BF Srv → List FOp → List Tag
  | _, [] => []
  | f, op :: ops => triggers o f op ++ runTags o (sstep o f op).1 ops

/-- open-time tag -/
def openTags (mode : List Char) : List Tag :=
  if mode.contains 'x' && !(mode.contains 'w' || mode.contains 'a' || mode.contains '+') then [.x_mode_not_writable] else []

/-- write()/seek()/truncate() return None in paramiko (count / position / size locally): the comparison
    erases exactly that; it is listed as finding `returns_none`. -/
def eraseRet (op : FOp) (o : Out) : Out :=
  match op, o with
  | .write _, .pos _ => .unit
  | .seek _ _, .pos _ => .unit
  | .truncate _, .pos _ => .unit
  | _, o => o

/-- every error is just "raises" for the property -/
def eraseErr : Out → Out
  | .err _ => .err (.stream 0)
  | o => o

end PV.C27
