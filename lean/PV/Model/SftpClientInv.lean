/-
  Invariant of the SFTP client bookkeeping model and its preservation.
  `Good wf ex s`: `wf` = the request number a synchronous call is waiting for (none between calls),
  `ex` = a file whose "rejected write ⇒ still on the wire or saved" clause is suspended (its exception has just
  been raised and the operation is about to reset the ghost counter).
-/
import PV.Model.SftpClient
namespace PV.SftpClient
open PV

def nums (w : List Slot) : List Nat := w.map (·.num)
def keys (e : List (Nat × Option Nat)) : List Nat := e.map (·.1)

def OwnOK (wf : Option Nat) (nfiles : Nat) (sl : Slot) : Prop :=
  match sl.owner with
  | some f => f < nfiles ∧ ∃ off data, sl.kind = .write f off data
  | none => wf = some sl.num

def IsBad (f : Nat) (sl : Slot) : Prop := sl.owner = some f ∧ ∃ c, sl.resp = some c ∧ c ≠ 0

def BadOK (badSince : List Nat) (files : List FileSt) (wire : List Slot) (f : Nat) : Prop :=
  badSince.getD f 0 > 0 → (∃ sl ∈ wire, IsBad f sl) ∨ ((files.getD f newFile).saved.isSome = true)

structure Good (wf ex : Option Nat) (s : St) : Prop where
  nd : (nums s.wire).Nodup
  lt : ∀ sl ∈ s.wire, sl.num < s.nextNum
  ekeys : (keys s.expecting).Nodup
  elt : ∀ e ∈ s.expecting, e.1 < s.nextNum
  e2w : ∀ e ∈ s.expecting, e.1 ∈ nums s.wire
  w2e : ∀ sl ∈ s.wire, (sl.num, sl.owner) ∈ s.expecting
  own : ∀ sl ∈ s.wire, OwnOK wf s.files.length sl
  bad : ∀ f, ex ≠ some f → BadOK s.badSince s.files s.wire f
  rq : ∀ sl ∈ s.wire, ∀ f, sl.owner = some f → sl.num ∈ (getFile s f).reqs

/-! ## list / file plumbing -/

theorem getFile_setFile_ne {s : St} {f g : Nat} {h : FileSt → FileSt} (hne : f ≠ g) :
    getFile (setFile s f h) g = getFile s g := by
  unfold getFile setFile
  simp only [List.getD_eq_getElem?_getD, List.getElem?_modify]
  simp [hne]

theorem getFile_setFile_self {s : St} {f : Nat} {h : FileSt → FileSt} (hlt : f < s.files.length) :
    getFile (setFile s f h) f = h (getFile s f) := by
  unfold getFile setFile
  simp only [List.getD_eq_getElem?_getD, List.getElem?_modify]
  simp [List.getElem?_eq_getElem hlt]

theorem getD_modify_self {l : List Nat} {i : Nat} (g : Nat → Nat) (h : i < l.length) :
    (l.modify i g).getD i 0 = g (l.getD i 0) := by
  simp only [List.getD_eq_getElem?_getD, List.getElem?_modify]
  simp [List.getElem?_eq_getElem h]

theorem getD_modify_ne {l : List Nat} {i j : Nat} (g : Nat → Nat) (h : i ≠ j) :
    (l.modify i g).getD j 0 = l.getD j 0 := by
  simp only [List.getD_eq_getElem?_getD, List.getElem?_modify]
  simp [h]

theorem files_setFile_length (s : St) (f : Nat) (h : FileSt → FileSt) :
    (setFile s f h).files.length = s.files.length := by
  simp [setFile]

/-- updating a file in a way that never clears a saved exception keeps every `BadOK` -/
theorem badOK_setFile {s : St} {f g : Nat} {h : FileSt → FileSt} {wire : List Slot}
    (hs : ∀ x : FileSt, x.saved.isSome = true → (h x).saved.isSome = true)
    (hb : BadOK s.badSince s.files wire g) : BadOK s.badSince (setFile s f h).files wire g := by
  intro hp
  rcases hb hp with h1 | h1
  · exact Or.inl h1
  · right
    have e1 : (setFile s f h).files.getD g newFile = getFile (setFile s f h) g := rfl
    have e2 : s.files.getD g newFile = getFile s g := rfl
    rw [e1]; rw [e2] at h1
    by_cases hfg : f = g
    · subst hfg
      by_cases hlt : f < s.files.length
      · rw [getFile_setFile_self hlt]; exact hs _ h1
      · have : (setFile s f h).files = s.files := by
          simp only [setFile]
          apply List.ext_getElem?
          intro i
          rw [List.getElem?_modify]
          by_cases hi : f = i
          · subst hi; simp [List.getElem?_eq_none (Nat.le_of_not_lt hlt)]
          · simp [hi]
        unfold getFile at *
        rw [this]; exact h1
    · rw [getFile_setFile_ne hfg]; exact h1

/-! ## the server -/

theorem serveSlot_slot (s : St) (sl : Slot) :
    (serveSlot s sl).1.num = sl.num ∧ (serveSlot s sl).1.owner = sl.owner ∧ (serveSlot s sl).1.kind = sl.kind ∧
    ∃ c, (serveSlot s sl).1.resp = some c := by
  unfold serveSlot
  split
  · split <;> exact ⟨rfl, rfl, rfl, _, rfl⟩
  · exact ⟨rfl, rfl, rfl, _, rfl⟩
  · exact ⟨rfl, rfl, rfl, _, rfl⟩

theorem serveSlot_state (s : St) (sl : Slot) :
    (serveSlot s sl).2.nextNum = s.nextNum ∧ (serveSlot s sl).2.expecting = s.expecting ∧
    (serveSlot s sl).2.wire = s.wire ∧ (serveSlot s sl).2.files = s.files ∧ (serveSlot s sl).2.maxReq = s.maxReq := by
  unfold serveSlot
  split
  · split <;> exact ⟨rfl, rfl, rfl, rfl, rfl⟩
  · exact ⟨rfl, rfl, rfl, rfl, rfl⟩
  · exact ⟨rfl, rfl, rfl, rfl, rfl⟩

/-- the ghost counter only grows for the file whose pipelined write has just been rejected -/
theorem serveSlot_bad (s : St) (sl : Slot) (g : Nat) :
    (serveSlot s sl).2.badSince.getD g 0 = s.badSince.getD g 0 ∨
    (sl.owner.isSome = true ∧ (∃ off data, sl.kind = .write g off data) ∧
      ∃ c, (serveSlot s sl).1.resp = some c ∧ c ≠ 0) := by
  unfold serveSlot
  split
  · rename_i f off data hk
    split
    · left; rfl
    · rename_i hc
      by_cases ho : sl.owner.isSome = true
      · by_cases hfg : f = g
        · subst hfg
          right
          exact ⟨ho, ⟨off, data, hk⟩, _, rfl, hc⟩
        · left
          simp only [bumpIf, ho, if_true]
          unfold bump; exact getD_modify_ne _ hfg
      · left
        simp only [bumpIf, ho]
        rfl
  · left; rfl
  · left; rfl

theorem serveWire_spec {s s' : St} {w w' : List Slot} (h : serveWire s w = some (w', s')) :
    ∃ pre sl post, w = pre ++ sl :: post ∧ sl.resp = none ∧ w' = pre ++ (serveSlot s sl).1 :: post ∧
      s' = (serveSlot s sl).2 := by
  induction w generalizing w' with
  | nil => simp [serveWire] at h
  | cons x xs ih =>
    simp only [serveWire] at h
    cases hx : x.resp with
    | some c =>
      simp only [hx] at h
      cases hr : serveWire s xs with
      | none => simp [hr] at h
      | some p =>
        obtain ⟨r', s1⟩ := p
        simp only [hr] at h
        cases h
        obtain ⟨pre, sl, post, h1, h2, h3, h4⟩ := ih hr
        exact ⟨x :: pre, sl, post, by simp [h1], h2, by simp [h3], h4⟩
    | none =>
      simp only [hx] at h
      cases h
      exact ⟨[], x, xs, rfl, hx, rfl, rfl⟩


/-- replacing one unanswered slot by its answered version -/
theorem good_serve_at {wf ex : Option Nat} {s : St} {pre post : List Slot} {sl : Slot}
    (hg : Good wf ex s) (hw : s.wire = pre ++ sl :: post) (hr : sl.resp = none) :
    Good wf ex { (serveSlot s sl).2 with wire := pre ++ (serveSlot s sl).1 :: post } := by
  obtain ⟨hn, ho, hk, c, hc⟩ := serveSlot_slot s sl
  obtain ⟨s1, s2, s3, s4, s5⟩ := serveSlot_state s sl
  have hnums : nums (pre ++ (serveSlot s sl).1 :: post) = nums s.wire := by
    rw [hw]; simp [nums, hn]
  have hmem : ∀ x ∈ pre ++ (serveSlot s sl).1 :: post, x = (serveSlot s sl).1 ∨ (x ∈ s.wire ∧ x ≠ sl ∨ x ∈ s.wire) := by
    intro x hx
    rw [List.mem_append, List.mem_cons] at hx
    rcases hx with hx | hx | hx
    · right; right; rw [hw]; simp [hx]
    · left; exact hx
    · right; right; rw [hw]; simp [hx]
  have hslmem : sl ∈ s.wire := by rw [hw]; simp
  refine ⟨?_, ?_, ?_, ?_, ?_, ?_, ?_, ?_, ?_⟩
  · show (nums (pre ++ (serveSlot s sl).1 :: post)).Nodup
    rw [hnums]; exact hg.nd
  · intro x hx
    show x.num < (serveSlot s sl).2.nextNum
    rw [s1]
    rcases hmem x hx with h | h | h
    · rw [h, hn]; exact hg.lt _ hslmem
    · exact hg.lt _ h.1
    · exact hg.lt _ h
  · show (keys (serveSlot s sl).2.expecting).Nodup
    rw [s2]; exact hg.ekeys
  · intro e he
    show e.1 < (serveSlot s sl).2.nextNum
    rw [s1]
    have : e ∈ s.expecting := by rw [← s2]; exact he
    exact hg.elt e this
  · intro e he
    show e.1 ∈ nums (pre ++ (serveSlot s sl).1 :: post)
    rw [hnums]
    have : e ∈ s.expecting := by rw [← s2]; exact he
    exact hg.e2w e this
  · intro x hx
    show (x.num, x.owner) ∈ (serveSlot s sl).2.expecting
    rw [s2]
    rcases hmem x hx with h | h | h
    · rw [h, hn, ho]; exact hg.w2e _ hslmem
    · exact hg.w2e _ h.1
    · exact hg.w2e _ h
  · intro x hx
    show OwnOK wf (serveSlot s sl).2.files.length x
    rw [s4]
    rcases hmem x hx with h | h | h
    · have := hg.own _ hslmem
      unfold OwnOK at this ⊢
      rw [h, hn, ho, hk]; exact this
    · exact hg.own _ h.1
    · exact hg.own _ h
  · intro g hex
    show BadOK (serveSlot s sl).2.badSince (serveSlot s sl).2.files (pre ++ (serveSlot s sl).1 :: post) g
    rw [s4]
    intro hp
    rcases serveSlot_bad s sl g with hb | ⟨hos, ⟨off, data, hkind⟩, c', hc', hne⟩
    · rw [hb] at hp
      rcases hg.bad g hex hp with ⟨x, hx, hbx⟩ | h
      · left
        refine ⟨x, ?_, hbx⟩
        rw [hw] at hx
        rw [List.mem_append, List.mem_cons] at hx ⊢
        rcases hx with hx | hx | hx
        · exact Or.inl hx
        · exfalso
          obtain ⟨_, c2, hc2, _⟩ := hbx
          rw [hx, hr] at hc2; cases hc2
        · exact Or.inr (Or.inr hx)
      · exact Or.inr h
    · left
      refine ⟨(serveSlot s sl).1, by simp, ?_, c', hc', hne⟩
      rw [ho]
      have hown := hg.own _ hslmem
      unfold OwnOK at hown
      cases hso : sl.owner with
      | none => rw [hso] at hos; cases hos
      | some f =>
        rw [hso] at hown
        obtain ⟨_, off', data', hk'⟩ := hown
        rw [hkind] at hk'
        cases hk'
        rfl
  · intro x hx f hxo
    show x.num ∈ ((serveSlot s sl).2.files.getD f newFile).reqs
    rw [s4]
    rcases hmem x hx with h | h | h
    · rw [h, hn]; rw [h, ho] at hxo; exact hg.rq _ hslmem f hxo
    · exact hg.rq _ h.1 f hxo
    · exact hg.rq _ h f hxo

theorem good_serveOne {wf ex : Option Nat} {s s' : St} (hg : Good wf ex s) (h : serveOne s = some s') :
    Good wf ex s' ∧ s'.wire.length = s.wire.length ∧ s'.files = s.files ∧ nums s'.wire = nums s.wire ∧
    s'.expecting = s.expecting ∧ s'.maxReq = s.maxReq := by
  unfold serveOne at h
  cases hs : serveWire s s.wire with
  | none => simp [hs] at h
  | some p =>
    obtain ⟨w, s1⟩ := p
    simp only [hs] at h
    cases h
    obtain ⟨pre, sl, post, h1, h2, h3, h4⟩ := serveWire_spec hs
    subst h3; subst h4
    obtain ⟨hn, _, _, _, _⟩ := serveSlot_slot s sl
    obtain ⟨_, e2, _, e4, e5⟩ := serveSlot_state s sl
    refine ⟨good_serve_at hg h1 h2, ?_, e4, ?_, e2, e5⟩
    · simp [h1]
    · simp [nums, h1, hn]

theorem good_serveMany {wf ex : Option Nat} (k : Nat) {s : St} (hg : Good wf ex s) :
    Good wf ex (serveMany k s) ∧ (serveMany k s).files = s.files ∧ (serveMany k s).maxReq = s.maxReq := by
  induction k generalizing s with
  | zero => exact ⟨hg, rfl, rfl⟩
  | succ k ih =>
    simp only [serveMany]
    cases hs : serveOne s with
    | none => exact ⟨hg, rfl, rfl⟩
    | some s' =>
      simp only
      obtain ⟨g1, _, g3, _, _, g6⟩ := good_serveOne hg hs
      obtain ⟨a, b, c⟩ := ih g1
      exact ⟨a, by rw [b, g3], by rw [c, g6]⟩

/-! ## taking one response off the wire and dispatching it -/

theorem find_unique {l : List (Nat × Option Nat)} {k : Nat} {v : Option Nat}
    (hnd : (keys l).Nodup) (hm : (k, v) ∈ l) : l.find? (fun e => e.1 == k) = some (k, v) := by
  induction l with
  | nil => cases hm
  | cons x xs ih =>
    simp only [keys, List.map_cons, List.nodup_cons] at hnd
    rw [List.find?_cons]
    rcases List.mem_cons.mp hm with h | h
    · subst h; simp
    · have hne : x.1 ≠ k := by
        intro hc
        apply hnd.1
        rw [hc]
        exact List.mem_map.mpr ⟨(k, v), h, rfl⟩
      have : (x.1 == k) = false := by simpa using hne
      rw [this]
      exact ih hnd.2 h

theorem expOwner_of_good {wf ex : Option Nat} {s : St} {sl : Slot} {rest : List Slot}
    (hg : Good wf ex s) (hw : s.wire = sl :: rest) : expOwner { s with wire := rest } sl.num = some sl.owner := by
  unfold expOwner
  have hm := hg.w2e sl (by rw [hw]; simp)
  show Option.map (·.2) (s.expecting.find? (fun e => e.1 == sl.num)) = some sl.owner
  rw [find_unique hg.ekeys hm]
  rfl

/-- state after popping the head slot and forgetting its expectation: everything but `own`/`bad` -/
theorem pop_core {wf ex : Option Nat} {s : St} {sl : Slot} {rest : List Slot}
    (hg : Good wf ex s) (hw : s.wire = sl :: rest) :
    let s2 := expDel { s with wire := rest } sl.num
    (nums s2.wire).Nodup ∧ (∀ x ∈ s2.wire, x.num < s2.nextNum) ∧ (keys s2.expecting).Nodup ∧
    (∀ e ∈ s2.expecting, e.1 < s2.nextNum) ∧ (∀ e ∈ s2.expecting, e.1 ∈ nums s2.wire) ∧
    (∀ x ∈ s2.wire, (x.num, x.owner) ∈ s2.expecting) ∧ sl.num ∉ nums rest := by
  have hnd := hg.nd
  rw [hw] at hnd
  simp only [nums, List.map_cons, List.nodup_cons] at hnd
  have hrest : ∀ x ∈ rest, x ∈ s.wire := fun x hx => by rw [hw]; exact List.mem_cons_of_mem _ hx
  refine ⟨hnd.2, fun x hx => hg.lt x (hrest x hx), ?_, ?_, ?_, ?_, hnd.1⟩
  · show (keys (s.expecting.filter (fun e => e.1 != sl.num))).Nodup
    exact List.Nodup.sublist (List.Sublist.map _ (List.filter_sublist ..)) hg.ekeys
  · intro e he
    have := (List.mem_filter.mp he).1
    exact hg.elt e this
  · intro e he
    obtain ⟨h1, h2⟩ := List.mem_filter.mp he
    have := hg.e2w e h1
    rw [hw] at this
    simp only [nums, List.map_cons, List.mem_cons] at this
    rcases this with h | h
    · simp [h] at h2
    · exact h
  · intro x hx
    apply List.mem_filter.mpr
    refine ⟨hg.w2e x (hrest x hx), ?_⟩
    have : x.num ≠ sl.num := by
      intro hc
      apply hnd.1
      rw [← hc]
      exact List.mem_map.mpr ⟨x, hx, rfl⟩
    simpa using this

theorem good_pop_none {wf ex : Option Nat} {s : St} {sl : Slot} {rest : List Slot}
    (hg : Good wf ex s) (hw : s.wire = sl :: rest) (ho : sl.owner = none) :
    wf = some sl.num ∧ Good none ex (expDel { s with wire := rest } sl.num) := by
  obtain ⟨c1, c2, c3, c4, c5, c6, c7⟩ := pop_core hg hw
  have hown := hg.own sl (by rw [hw]; simp)
  unfold OwnOK at hown
  rw [ho] at hown
  refine ⟨hown, ⟨c1, c2, c3, c4, c5, c6, ?_, ?_, fun x hx f hxo => hg.rq x (by rw [hw]; exact List.mem_cons_of_mem _ hx) f hxo⟩⟩
  · intro x hx
    have hx' : x ∈ s.wire := by rw [hw]; exact List.mem_cons_of_mem _ hx
    have := hg.own x hx'
    unfold OwnOK at this ⊢
    cases hxo : x.owner with
    | some f => rw [hxo] at this; exact this
    | none =>
      rw [hxo] at this
      exfalso
      rw [hown] at this
      apply c7
      have : sl.num = x.num := by simpa using this
      rw [this]
      exact List.mem_map.mpr ⟨x, hx, rfl⟩
  · intro g hex hp
    rcases hg.bad g hex hp with ⟨x, hx, hbx⟩ | h
    · left
      rw [hw] at hx
      rcases List.mem_cons.mp hx with h1 | h1
      · exfalso
        rw [h1] at hbx
        rw [hbx.1] at ho; cases ho
      · exact ⟨x, h1, hbx⟩
    · exact Or.inr h

theorem good_pop_some {wf ex : Option Nat} {s : St} {sl : Slot} {rest : List Slot} {f c : Nat}
    (hg : Good wf ex s) (hw : s.wire = sl :: rest) (ho : sl.owner = some f) (hc : sl.resp = some c) :
    Good wf ex (asyncResponse (expDel { s with wire := rest } sl.num) f sl.num c) := by
  obtain ⟨c1, c2, c3, c4, c5, c6, c7⟩ := pop_core hg hw
  have hown := hg.own sl (by rw [hw]; simp)
  unfold OwnOK at hown
  rw [ho] at hown
  refine ⟨c1, c2, c3, c4, c5, c6, ?_, ?_, ?_⟩
  · intro x hx
    show OwnOK wf (setFile _ f _).files.length x
    rw [files_setFile_length]
    exact hg.own x (by rw [hw]; exact List.mem_cons_of_mem _ hx)
  · intro g hex
    show BadOK s.badSince (setFile (expDel { s with wire := rest } sl.num) f _).files rest g
    intro hp
    rcases hg.bad g hex hp with ⟨x, hx, hbx⟩ | h
    · rw [hw] at hx
      rcases List.mem_cons.mp hx with h1 | h1
      · -- the popped slot was the rejected write: its error is saved now
        right
        rw [h1] at hbx
        obtain ⟨hog, c', hc', hne⟩ := hbx
        rw [ho] at hog
        have hfg : f = g := by simpa using hog
        subst hfg
        rw [hc] at hc'
        have : c = c' := by simpa using hc'
        subst this
        have e1 : (setFile (expDel { s with wire := rest } sl.num) f
            (fun fs => { fs with reqs := fs.reqs.filter (· != sl.num), saved := if c = 0 then fs.saved else some c })).files.getD f newFile
            = getFile (setFile (expDel { s with wire := rest } sl.num) f
            (fun fs => { fs with reqs := fs.reqs.filter (· != sl.num), saved := if c = 0 then fs.saved else some c })) f := rfl
        rw [e1, getFile_setFile_self (by exact hown.1)]
        simp [hne]
      · exact Or.inl ⟨x, h1, hbx⟩
    · have hb : BadOK s.badSince (expDel { s with wire := rest } sl.num).files rest g := fun _ => Or.inr h
      exact (badOK_setFile (s := expDel { s with wire := rest } sl.num) (f := f) (g := g) (wire := rest)
        (by intro x hx; simp only; split <;> simp [hx]) hb) hp
  · intro x hx g hxo
    have hold : x.num ∈ (getFile s g).reqs := hg.rq x (by rw [hw]; exact List.mem_cons_of_mem _ hx) g hxo
    have hne : x.num ≠ sl.num := by
      intro hc
      apply c7
      rw [← hc]
      exact List.mem_map.mpr ⟨x, hx, rfl⟩
    by_cases hfg : f = g
    · subst hfg
      unfold asyncResponse
      rw [getFile_setFile_self (by exact hown.1)]
      show x.num ∈ ((getFile s f).reqs.filter (· != sl.num))
      exact List.mem_filter.mpr ⟨hold, by simpa using hne⟩
    · unfold asyncResponse
      rw [getFile_setFile_ne hfg]
      exact hold


/-- slots of `w'` are slots of `w` up to their answer -/
def SubW (w' w : List Slot) : Prop := ∀ x' ∈ w', ∃ x ∈ w, x'.num = x.num ∧ x'.owner = x.owner

theorem subW_refl (w : List Slot) : SubW w w := fun x hx => ⟨x, hx, rfl, rfl⟩
theorem subW_trans {a b c : List Slot} (h1 : SubW a b) (h2 : SubW b c) : SubW a c := by
  intro x hx
  obtain ⟨y, hy, e1, e2⟩ := h1 x hx
  obtain ⟨z, hz, e3, e4⟩ := h2 y hy
  exact ⟨z, hz, e1.trans e3, e2.trans e4⟩

theorem recvOne_spec {wf ex : Option Nat} {s s1 : St} {sl : Slot} {c : Nat} (hg : Good wf ex s)
    (h : recvOne s = some (sl, c, s1)) :
    ∃ s0 rest, Good wf ex s0 ∧ s0.wire = sl :: rest ∧ sl.resp = some c ∧ s1 = { s0 with wire := rest } ∧
      s0.files = s.files ∧ s0.maxReq = s.maxReq ∧ s0.wire.length = s.wire.length ∧ nums s0.wire = nums s.wire ∧
      SubW s0.wire s.wire := by
  unfold recvOne at h
  cases hw : s.wire with
  | nil => simp [hw] at h
  | cons x rest =>
    simp only [hw] at h
    cases hr : x.resp with
    | some c' =>
      simp only [hr] at h
      cases h
      exact ⟨s, rest, hg, hw, hr, rfl, rfl, rfl, by rw [hw], by rw [hw],
        by intro y hy; exact ⟨y, by rw [hw] at hy; exact hy, rfl, rfl⟩⟩
    | none =>
      simp only [hr] at h
      cases h
      obtain ⟨hn, ho, _, c', hc'⟩ := serveSlot_slot s x
      obtain ⟨_, _, _, e4, e5⟩ := serveSlot_state s x
      have hgood := good_serve_at (pre := []) hg hw hr
      refine ⟨{ (serveSlot s x).2 with wire := [] ++ (serveSlot s x).1 :: rest }, rest, hgood, rfl, ?_, rfl, e4, e5, ?_, ?_, ?_⟩
      · rw [hc']; rfl
      · simp [hw]
      · simp [nums, hw, hn]
      · intro y hy
        simp only [List.nil_append, List.mem_cons] at hy
        rcases hy with hy | hy
        · exact ⟨x, by simp, by rw [hy, hn], by rw [hy, ho]⟩
        · exact ⟨y, by simp [hy], rfl, rfl⟩

theorem recvOne_none {s : St} (h : recvOne s = none) : s.wire = [] := by
  unfold recvOne at h
  cases hw : s.wire with
  | nil => rfl
  | cons x rest =>
    simp only [hw] at h
    cases hr : x.resp <;> simp [hr] at h

theorem asyncResponse_frame (s : St) (f num c g : Nat) (hne : f ≠ g) :
    getFile (asyncResponse s f num c) g = getFile s g := getFile_setFile_ne hne

/-- `_read_response`: never hangs when what it waits for is in flight, restores the invariant, and touches only
    files that own a request on the wire. -/
theorem readResponse_good : ∀ (fuel : Nat) (wf ex : Option Nat) (s : St), Good wf ex s →
    (∀ n, wf = some n → n ∈ nums s.wire ∧ ∀ sl ∈ s.wire, sl.num = n → sl.owner = none) →
    (wf = none → s.wire ≠ []) → (wf = none → 1 ≤ fuel) → (∀ n, wf = some n → s.wire.length ≤ fuel) →
    (readResponse fuel s wf).2 ≠ .hang ∧ Good none ex (readResponse fuel s wf).1 ∧
    (readResponse fuel s wf).1.files.length = s.files.length ∧ (readResponse fuel s wf).1.maxReq = s.maxReq ∧
    (∀ g, (∀ sl ∈ s.wire, sl.owner ≠ some g) → getFile (readResponse fuel s wf).1 g = getFile s g) ∧
    SubW (readResponse fuel s wf).1.wire s.wire ∧ (readResponse fuel s wf).1.wire.length < s.wire.length := by
  intro fuel
  induction fuel with
  | zero =>
    intro wf ex s hg hwf hne hlen1 hlen
    exfalso
    cases wf with
    | none => have := hlen1 rfl; omega
    | some n =>
      have h0 : s.wire = [] := List.eq_nil_of_length_eq_zero (Nat.le_zero.mp (hlen n rfl))
      have := (hwf n rfl).1; rw [h0] at this; simp [nums] at this
  | succ fuel ih =>
    intro wf ex s hg hwf hne _ hlen
    have hnonempty : s.wire ≠ [] := by
      cases wf with
      | none => exact hne rfl
      | some n =>
        intro h0
        have := (hwf n rfl).1; rw [h0] at this; simp [nums] at this
    unfold readResponse
    cases hr : recvOne s with
    | none => exact absurd (recvOne_none hr) hnonempty
    | some p =>
      obtain ⟨sl, c, s1⟩ := p
      simp only
      obtain ⟨s0, rest, hg0, hw0, hresp, hs1, hfiles, hmax, hlen0, hnums0, hsub0⟩ := recvOne_spec hg hr
      subst hs1
      rw [expOwner_of_good hg0 hw0]
      simp only
      have hlen1 : rest.length < s.wire.length := by rw [← hlen0, hw0]; simp
      have hsubrest : SubW rest s.wire := by
        intro y hy
        exact hsub0 y (by rw [hw0]; exact List.mem_cons_of_mem _ hy)
      have hfl : s0.files.length = s.files.length := by rw [hfiles]
      cases hown : sl.owner with
      | none =>
        -- a synchronous answer: it is the one we wait for
        obtain ⟨hwfeq, hgood⟩ := good_pop_none hg0 hw0 hown
        simp only [hwfeq, if_true]
        refine ⟨by split <;> simp, hgood, hfl, hmax, ?_, hsubrest, hlen1⟩
        intro g _
        show getFile s0 g = getFile s g
        unfold getFile; rw [hfiles]
      | some f =>
        have hgood := good_pop_some hg0 hw0 hown hresp
        have hnotwf : wf ≠ some sl.num := by
          intro hc
          have h2 := (hwf sl.num hc).2
          have : sl.num ∈ nums s.wire := (hwf sl.num hc).1
          -- the awaited slot is the head of s0.wire (numbers are unique) and it is none-owned in s.wire
          obtain ⟨y, hy, e1, e2⟩ := hsub0 sl (by rw [hw0]; simp)
          have := h2 y hy e1.symm
          rw [← e2, hown] at this; cases this
        simp only [hnotwf, if_false]
        have hframe : ∀ g, (∀ x ∈ s.wire, x.owner ≠ some g) →
            getFile (asyncResponse (expDel { s0 with wire := rest } sl.num) f sl.num c) g = getFile s g := by
          intro g hgw
          have hfg : f ≠ g := by
            intro hc; subst hc
            obtain ⟨y, hy, _, e2⟩ := hsub0 sl (by rw [hw0]; simp)
            exact hgw y hy (by rw [← e2, hown])
          rw [asyncResponse_frame _ _ _ _ _ hfg]
          show getFile s0 g = getFile s g
          unfold getFile; rw [hfiles]
        have hfl2 : (asyncResponse (expDel { s0 with wire := rest } sl.num) f sl.num c).files.length = s.files.length := by
          show (setFile _ f _).files.length = _
          rw [files_setFile_length]; exact hfl
        cases wf with
        | none =>
          exact ⟨by simp, hgood, hfl2, hmax, hframe, hsubrest, hlen1⟩
        | some n =>
          simp only
          have hn := hwf n rfl
          have hnrest : n ∈ nums rest := by
            have : n ∈ nums s0.wire := by rw [hnums0]; exact hn.1
            rw [hw0] at this
            simp only [nums, List.map_cons, List.mem_cons] at this
            rcases this with h | h
            · exact absurd (by rw [h]) hnotwf
            · exact h
          have hrec := ih (some n) ex (asyncResponse (expDel { s0 with wire := rest } sl.num) f sl.num c) hgood
            (by
              intro n' hn'
              cases hn'
              refine ⟨hnrest, ?_⟩
              intro y hy hyn
              obtain ⟨z, hz, e1, e2⟩ := hsubrest y hy
              rw [e2]; exact hn.2 z hz (by rw [← e1]; exact hyn))
            (by intro h; cases h)
            (by intro h; cases h)
            (by intro n' _; have := hlen n rfl; show rest.length ≤ fuel; omega)
          obtain ⟨r1, r2, r3, r4, r5, r6, r7⟩ := hrec
          refine ⟨r1, r2, by rw [r3]; exact hfl2, by rw [r4]; exact hmax, ?_, subW_trans r6 hsubrest, ?_⟩
          · intro g hgw
            rw [r5 g ?_]
            · exact hframe g hgw
            · intro y hy
              obtain ⟨z, hz, _, e2⟩ := hsubrest y hy
              rw [e2]; exact hgw z hz
          · have : (asyncResponse (expDel { s0 with wire := rest } sl.num) f sl.num c).wire = rest := rfl
            rw [this] at r7
            omega


/-! ## sending -/

theorem good_asyncRequest_sync {ex : Option Nat} {s : St} (hg : Good none ex s) (kind : Kind) :
    Good (some s.nextNum) ex (asyncRequest s none kind).1 ∧ (asyncRequest s none kind).2 = s.nextNum := by
  refine ⟨⟨?_, ?_, ?_, ?_, ?_, ?_, ?_, ?_, ?_⟩, rfl⟩
  · show (nums (s.wire ++ [⟨s.nextNum, none, kind, none⟩])).Nodup
    simp only [nums, List.map_append, List.map_cons, List.map_nil]
    rw [List.nodup_append]
    refine ⟨hg.nd, by simp, ?_⟩
    intro a ha b hb
    simp at hb; subst hb
    obtain ⟨x, hx, rfl⟩ := List.mem_map.mp ha
    exact Nat.ne_of_lt (hg.lt x hx)
  · intro x hx
    show x.num < s.nextNum + 1
    rcases List.mem_append.mp hx with h | h
    · exact Nat.lt_succ_of_lt (hg.lt x h)
    · simp at h; subst h; exact Nat.lt_succ_self _
  · show (keys (s.expecting ++ [(s.nextNum, none)])).Nodup
    simp only [keys, List.map_append, List.map_cons, List.map_nil]
    rw [List.nodup_append]
    refine ⟨hg.ekeys, by simp, ?_⟩
    intro a ha b hb
    simp at hb; subst hb
    obtain ⟨e, he, rfl⟩ := List.mem_map.mp ha
    exact Nat.ne_of_lt (hg.elt e he)
  · intro e he
    show e.1 < s.nextNum + 1
    rcases List.mem_append.mp he with h | h
    · exact Nat.lt_succ_of_lt (hg.elt e h)
    · simp at h; subst h; exact Nat.lt_succ_self _
  · intro e he
    show e.1 ∈ nums (s.wire ++ [⟨s.nextNum, none, kind, none⟩])
    simp only [nums, List.map_append, List.mem_append]
    rcases List.mem_append.mp he with h | h
    · exact Or.inl (hg.e2w e h)
    · simp at h; subst h; right; simp
  · intro x hx
    show (x.num, x.owner) ∈ s.expecting ++ [(s.nextNum, none)]
    rcases List.mem_append.mp hx with h | h
    · exact List.mem_append_left _ (hg.w2e x h)
    · simp at h; subst h; simp
  · intro x hx
    show OwnOK (some s.nextNum) s.files.length x
    rcases List.mem_append.mp hx with h | h
    · have := hg.own x h
      unfold OwnOK at this ⊢
      cases hxo : x.owner with
      | some f => rw [hxo] at this; exact this
      | none => rw [hxo] at this; cases this
    · simp at h; subst h; unfold OwnOK; rfl
  · intro g hex hp
    rcases hg.bad g hex hp with ⟨x, hx, hb⟩ | h
    · exact Or.inl ⟨x, List.mem_append_left _ hx, hb⟩
    · exact Or.inr h
  · intro x hx f hxo
    rcases List.mem_append.mp hx with h | h
    · exact hg.rq x h f hxo
    · simp at h; subst h; cases hxo

/-- a pipelined write: allocate, register under the file, send, remember the number in `_reqs` -/
theorem good_pipelinedSend {ex : Option Nat} {s : St} {f off : Nat} {data : Bytes} (hg : Good none ex s)
    (hf : f < s.files.length) :
    Good none ex (setFile (asyncRequest s (some f) (.write f off data)).1 f
      (fun x => { x with reqs := x.reqs ++ [(asyncRequest s (some f) (.write f off data)).2] })) := by
  refine ⟨?_, ?_, ?_, ?_, ?_, ?_, ?_, ?_, ?_⟩
  · show (nums (s.wire ++ [⟨s.nextNum, some f, .write f off data, none⟩])).Nodup
    simp only [nums, List.map_append, List.map_cons, List.map_nil]
    rw [List.nodup_append]
    refine ⟨hg.nd, by simp, ?_⟩
    intro a ha b hb
    simp at hb; subst hb
    obtain ⟨x, hx, rfl⟩ := List.mem_map.mp ha
    exact Nat.ne_of_lt (hg.lt x hx)
  · intro x hx
    show x.num < s.nextNum + 1
    rcases List.mem_append.mp hx with h | h
    · exact Nat.lt_succ_of_lt (hg.lt x h)
    · simp at h; subst h; exact Nat.lt_succ_self _
  · show (keys (s.expecting ++ [(s.nextNum, some f)])).Nodup
    simp only [keys, List.map_append, List.map_cons, List.map_nil]
    rw [List.nodup_append]
    refine ⟨hg.ekeys, by simp, ?_⟩
    intro a ha b hb
    simp at hb; subst hb
    obtain ⟨e, he, rfl⟩ := List.mem_map.mp ha
    exact Nat.ne_of_lt (hg.elt e he)
  · intro e he
    show e.1 < s.nextNum + 1
    rcases List.mem_append.mp he with h | h
    · exact Nat.lt_succ_of_lt (hg.elt e h)
    · simp at h; subst h; exact Nat.lt_succ_self _
  · intro e he
    show e.1 ∈ nums (s.wire ++ [⟨s.nextNum, some f, .write f off data, none⟩])
    simp only [nums, List.map_append, List.mem_append]
    rcases List.mem_append.mp he with h | h
    · exact Or.inl (hg.e2w e h)
    · simp at h; subst h; right; simp
  · intro x hx
    show (x.num, x.owner) ∈ s.expecting ++ [(s.nextNum, some f)]
    rcases List.mem_append.mp hx with h | h
    · exact List.mem_append_left _ (hg.w2e x h)
    · simp at h; subst h; simp
  · intro x hx
    show OwnOK none (setFile _ f _).files.length x
    rw [files_setFile_length]
    rcases List.mem_append.mp hx with h | h
    · exact hg.own x h
    · simp at h; subst h; unfold OwnOK; exact ⟨hf, off, data, rfl⟩
  · intro g hex
    have hb : BadOK s.badSince s.files (s.wire ++ [⟨s.nextNum, some f, .write f off data, none⟩]) g := by
      intro hp
      rcases hg.bad g hex hp with ⟨x, hx, hb⟩ | h
      · exact Or.inl ⟨x, List.mem_append_left _ hx, hb⟩
      · exact Or.inr h
    exact badOK_setFile (s := (asyncRequest s (some f) (.write f off data)).1) (f := f)
      (by intro x hx; exact hx) hb
  · intro x hx g hxo
    have hx' : x ∈ s.wire ++ [⟨s.nextNum, some f, .write f off data, none⟩] := hx
    by_cases hfg : f = g
    · subst hfg
      rw [getFile_setFile_self (by exact hf)]
      show x.num ∈ (getFile s f).reqs ++ [s.nextNum]
      rcases List.mem_append.mp hx' with h | h
      · exact List.mem_append_left _ (hg.rq x h f hxo)
      · simp at h; subst h; simp
    · rw [getFile_setFile_ne hfg]
      rcases List.mem_append.mp hx' with h | h
      · exact hg.rq x h g hxo
      · simp at h; subst h
        simp at hxo; exact absurd hxo hfg

/-! ## `_request`, `_check_exception`, `_finish_responses` -/

theorem noOwner_sub {w' w : List Slot} {g : Nat} (hs : SubW w' w) (h : ∀ sl ∈ w, sl.owner ≠ some g) :
    ∀ sl ∈ w', sl.owner ≠ some g := by
  intro x hx
  obtain ⟨y, hy, _, e2⟩ := hs x hx
  rw [e2]; exact h y hy

theorem request_good {ex : Option Nat} {s : St} (hg : Good none ex s) (kind : Kind) :
    (request s kind).2 ≠ .hang ∧ Good none ex (request s kind).1 ∧
    (request s kind).1.files.length = s.files.length ∧ (request s kind).1.maxReq = s.maxReq ∧
    (∀ g, (∀ sl ∈ s.wire, sl.owner ≠ some g) → getFile (request s kind).1 g = getFile s g) ∧
    SubW (request s kind).1.wire s.wire := by
  unfold request
  obtain ⟨hg1, hnum⟩ := good_asyncRequest_sync hg kind
  simp only [hnum]
  have hr := readResponse_good (fuelOf (asyncRequest s none kind).1) (some s.nextNum) ex (asyncRequest s none kind).1 hg1
    (by
      intro n hn; cases hn
      refine ⟨by simp [nums, asyncRequest], ?_⟩
      intro x hx hxn
      have hx' : x ∈ s.wire ++ [⟨s.nextNum, none, kind, none⟩] := hx
      rcases List.mem_append.mp hx' with h | h
      · exact absurd hxn (Nat.ne_of_lt (hg.lt x h))
      · simp at h; subst h; rfl)
    (by intro h; cases h) (by intro h; cases h)
    (by intro n _; unfold fuelOf; omega)
  obtain ⟨r1, r2, r3, r4, r5, r6, _⟩ := hr
  refine ⟨r1, r2, r3, r4, ?_, ?_⟩
  · intro g hgw
    rw [r5 g ?_]
    · rfl
    · intro x hx
      have hx' : x ∈ s.wire ++ [⟨s.nextNum, none, kind, none⟩] := hx
      rcases List.mem_append.mp hx' with h | h
      · exact hgw x h
      · simp at h; subst h; simp
  · intro x hx
    obtain ⟨y, hy, e1, e2⟩ := r6 x hx
    have hy' : y ∈ s.wire ++ [⟨s.nextNum, none, kind, none⟩] := hy
    rcases List.mem_append.mp hy' with h | h
    · exact ⟨y, h, e1, e2⟩
    · exfalso
      simp at h; subst h
      have := r2.own x hx
      unfold OwnOK at this
      rw [e2] at this
      cases this

theorem checkException_good {s : St} (f : Nat) (hg : Good none none s) :
    ((checkException s f).2 = .ok → (checkException s f).1 = s ∧ (getFile s f).saved = none) ∧
    (∀ c, (checkException s f).2 = .raised c → Good none (some f) (checkException s f).1) ∧
    (checkException s f).2 ≠ .hang ∧ (checkException s f).1.files.length = s.files.length ∧
    (checkException s f).1.wire = s.wire ∧ (checkException s f).1.maxReq = s.maxReq ∧
    (∀ g, g ≠ f → getFile (checkException s f).1 g = getFile s g) := by
  unfold checkException
  split
  · rename_i hsv
    exact ⟨fun _ => ⟨rfl, hsv⟩, fun c h => by simp at h, by simp, rfl, rfl, rfl, fun _ _ => rfl⟩
  · rename_i c hsv
    refine ⟨fun h => by simp at h, ?_, by simp, files_setFile_length _ _ _, rfl, rfl,
      fun g hgf => getFile_setFile_ne (fun hc => hgf hc.symm)⟩
    intro c' _
    refine ⟨hg.nd, hg.lt, hg.ekeys, hg.elt, hg.e2w, hg.w2e, ?_, ?_, ?_⟩
    · intro x hx
      show OwnOK none (setFile s f _).files.length x
      rw [files_setFile_length]; exact hg.own x hx
    · intro g hex hp
      have hgf : f ≠ g := by intro hc; subst hc; exact hex rfl
      rcases hg.bad g (by simp) hp with h | h
      · exact Or.inl h
      · right
        have e1 : (setFile s f (fun fs => { fs with saved := none })).files.getD g newFile
            = getFile (setFile s f (fun fs => { fs with saved := none })) g := rfl
        rw [e1, getFile_setFile_ne hgf]; exact h
    · intro x hx g hxo
      by_cases hfg : f = g
      · subst hfg
        by_cases hlt : f < s.files.length
        · rw [getFile_setFile_self hlt]; exact hg.rq x hx f hxo
        · exfalso
          have := hg.own x hx
          unfold OwnOK at this
          rw [hxo] at this
          exact hlt this.1
      · rw [getFile_setFile_ne hfg]; exact hg.rq x hx g hxo


theorem good_weaken {wf : Option Nat} {s : St} (f : Nat) (hg : Good wf none s) : Good wf (some f) s :=
  ⟨hg.nd, hg.lt, hg.ekeys, hg.elt, hg.e2w, hg.w2e, hg.own, fun g _ => hg.bad g (by simp), hg.rq⟩

theorem setFile_oob {s : St} {f : Nat} {h : FileSt → FileSt} (hlt : ¬ f < s.files.length) :
    (setFile s f h).files = s.files := by
  simp only [setFile]
  apply List.ext_getElem?
  intro i
  rw [List.getElem?_modify]
  by_cases hi : f = i
  · subst hi; simp [List.getElem?_eq_none (Nat.le_of_not_lt hlt)]
  · simp [hi]

/-- a file update that leaves `_reqs` and the saved exception alone keeps the invariant -/
theorem good_setFile {wf ex : Option Nat} {s : St} (f : Nat) (h : FileSt → FileSt)
    (hh : ∀ x, (h x).reqs = x.reqs ∧ (h x).saved = x.saved) (hg : Good wf ex s) : Good wf ex (setFile s f h) := by
  have hget : ∀ g, (getFile (setFile s f h) g).reqs = (getFile s g).reqs ∧
      (getFile (setFile s f h) g).saved = (getFile s g).saved := by
    intro g
    by_cases hfg : f = g
    · subst hfg
      by_cases hlt : f < s.files.length
      · rw [getFile_setFile_self hlt]; exact hh _
      · unfold getFile; rw [setFile_oob hlt]; exact ⟨rfl, rfl⟩
    · rw [getFile_setFile_ne hfg]; exact ⟨rfl, rfl⟩
  refine ⟨hg.nd, hg.lt, hg.ekeys, hg.elt, hg.e2w, hg.w2e, ?_, ?_, ?_⟩
  · intro x hx
    show OwnOK wf (setFile s f h).files.length x
    rw [files_setFile_length]; exact hg.own x hx
  · intro g hex hp
    rcases hg.bad g hex hp with h1 | h1
    · exact Or.inl h1
    · right
      have e1 : (setFile s f h).files.getD g newFile = getFile (setFile s f h) g := rfl
      rw [e1, (hget g).2]; exact h1
  · intro x hx g hxo
    rw [(hget g).1]; exact hg.rq x hx g hxo

theorem expects_of_owned {wf ex : Option Nat} {s : St} {f : Nat} (hg : Good wf ex s)
    (he : expectsFile s f = false) : ∀ sl ∈ s.wire, sl.owner ≠ some f := by
  intro x hx hc
  have hm := hg.w2e x hx
  rw [hc] at hm
  unfold expectsFile at he
  rw [Bool.eq_false_iff] at he
  apply he
  rw [List.any_eq_true]
  exact ⟨_, hm, by simp⟩

theorem finishResponses_good : ∀ (fuel : Nat) (s : St) (f : Nat), Good none none s → s.wire.length < fuel →
    (finishResponses fuel s f).2 ≠ .hang ∧
    ((finishResponses fuel s f).2 = .ok → Good none none (finishResponses fuel s f).1 ∧
      expectsFile (finishResponses fuel s f).1 f = false) ∧
    (∀ c, (finishResponses fuel s f).2 = .raised c → Good none (some f) (finishResponses fuel s f).1) ∧
    (finishResponses fuel s f).1.files.length = s.files.length ∧ (finishResponses fuel s f).1.maxReq = s.maxReq ∧
    SubW (finishResponses fuel s f).1.wire s.wire := by
  intro fuel
  induction fuel with
  | zero => intro s f _ h; omega
  | succ fuel ih =>
    intro s f hg hlen
    unfold finishResponses
    by_cases he : expectsFile s f = true
    · simp only [he, if_true]
      have hne : s.wire ≠ [] := by
        unfold expectsFile at he
        rw [List.any_eq_true] at he
        obtain ⟨e, hem, _⟩ := he
        have := hg.e2w e hem
        intro h0; rw [h0] at this; simp [nums] at this
      obtain ⟨r1, r2, r3, r4, _, r6, r7⟩ := readResponse_good 1 none none s hg (by intro n h; cases h) (fun _ => hne)
        (fun _ => Nat.le_refl 1) (by intro n h; cases h)
      generalize hrr : readResponse 1 s none = rr at r1 r2 r3 r4 r6 r7
      obtain ⟨s1, res1⟩ := rr
      simp only at r1 r2 r3 r4 r6 r7 ⊢
      cases res1 with
      | hang => exact absurd rfl r1
      | raised c =>
        simp only
        exact ⟨(by simp), (fun h => by cases h), (fun c' _ => good_weaken f r2), r3, r4, r6⟩
      | ok =>
        simp only
        obtain ⟨k1, k2, k3, k4, k5, k6, _⟩ := checkException_good f r2
        generalize hcc : checkException s1 f = cc at k1 k2 k3 k4 k5 k6
        obtain ⟨s2, res2⟩ := cc
        simp only at k1 k2 k3 k4 k5 k6 ⊢
        cases res2 with
        | hang => exact absurd rfl k3
        | raised c =>
          simp only
          exact ⟨(by simp), (fun h => by cases h), (fun c' _ => k2 c rfl), (by rw [k4]; exact r3), (by rw [k6]; exact r4),
            (by rw [k5]; exact r6)⟩
        | ok =>
          simp only
          obtain ⟨hs2, _⟩ := k1 rfl
          subst hs2
          obtain ⟨i1, i2, i3, i4, i5, i6⟩ := ih s2 f r2 (by omega)
          exact ⟨i1, i2, i3, (by rw [i4]; exact r3), (by rw [i5]; exact r4), subW_trans i6 r6⟩
    · have he' : expectsFile s f = false := by simpa using he
      rw [if_neg he]
      exact ⟨(by simp), (fun _ => ⟨hg, he'⟩), (fun c h => by cases h), rfl, rfl, subW_refl _⟩


/-! ## operations -/

/-- outcome summary shared by the operation lemmas -/
def Outcome (f : Nat) (s : St) (r : St × Res) : Prop :=
  r.2 ≠ .hang ∧ (r.2 = .ok → Good none none r.1) ∧ (∀ c, r.2 = .raised c → Good none (some f) r.1) ∧
  r.1.files.length = s.files.length ∧ r.1.maxReq = s.maxReq

theorem outcome_of_request {s : St} (f : Nat) (hg : Good none none s) (kind : Kind) : Outcome f s (request s kind) := by
  obtain ⟨r1, r2, r3, r4, _, _⟩ := request_good hg kind
  exact ⟨r1, fun _ => r2, fun _ _ => good_weaken f r2, r3, r4⟩

theorem outcome_of_finish {s : St} (f : Nat) (hg : Good none none s) :
    Outcome f s (finishResponses (fuelOf s) s f) := by
  obtain ⟨r1, r2, r3, r4, r5, _⟩ := finishResponses_good (fuelOf s) s f hg (by unfold fuelOf; omega)
  exact ⟨r1, fun h => (r2 h).1, r3, r4, r5⟩

theorem writeChunk_good {s : St} {f : Nat} (chunk : Bytes) (hg : Good none none s) (hf : f < s.files.length) :
    Outcome f s (writeChunk s f chunk) := by
  unfold writeChunk
  simp only
  split
  · exact outcome_of_request f hg _
  · have hg2 := good_pipelinedSend (off := (getFile s f).pos) (data := chunk) hg hf
    split
    · have := outcome_of_finish f hg2
      obtain ⟨a, b, c, d, e⟩ := this
      refine ⟨a, b, c, ?_, ?_⟩
      · rw [d]; exact files_setFile_length _ _ _
      · rw [e]; rfl
    · exact ⟨(by simp), fun _ => hg2, (fun c h => by cases h), files_setFile_length _ _ _, rfl⟩

theorem writeAll_good : ∀ (fuel : Nat) (s : St) (f : Nat) (data : Bytes), Good none none s → f < s.files.length →
    Outcome f s (writeAll fuel s f data) := by
  intro fuel
  induction fuel with
  | zero => intro s f data hg _; exact ⟨(by simp [writeAll]), fun _ => hg, (fun c h => by simp [writeAll] at h), rfl, rfl⟩
  | succ fuel ih =>
    intro s f data hg hf
    unfold writeAll
    split
    · exact ⟨(by simp), fun _ => hg, (fun c h => by cases h), rfl, rfl⟩
    · simp only
      have hw := writeChunk_good (data.take (min data.length s.maxReq)) hg hf
      generalize hcc : writeChunk s f (data.take (min data.length s.maxReq)) = cc at hw
      obtain ⟨s1, r⟩ := cc
      obtain ⟨a, b, c, d, e⟩ := hw
      simp only at a b c d e ⊢
      cases r with
      | hang => exact absurd rfl a
      | raised code => exact ⟨(by simp), (fun h => by cases h), c, d, e⟩
      | ok =>
        simp only
        have hg1 := b rfl
        have hg2 : Good none none (setFile s1 f (fun x => { x with pos := x.pos + min data.length s.maxReq })) :=
          good_setFile f _ (fun x => ⟨rfl, rfl⟩) hg1
        have hlen2 : (setFile s1 f (fun x => { x with pos := x.pos + min data.length s.maxReq })).files.length
            = s.files.length := by rw [files_setFile_length]; exact d
        obtain ⟨i1, i2, i3, i4, i5⟩ := ih _ f (data.drop (min data.length s.maxReq)) hg2 (by rw [hlen2]; exact hf)
        exact ⟨i1, i2, i3, (by rw [i4]; exact hlen2), (by rw [i5]; exact e)⟩

theorem getD_modify_zero (l : List Nat) (f : Nat) : (l.modify f (fun _ => 0)).getD f 0 = 0 := by
  by_cases h : f < l.length
  · rw [getD_modify_self _ h]
  · simp only [List.getD_eq_getElem?_getD, List.getElem?_modify]
    simp [List.getElem?_eq_none (Nat.le_of_not_lt h)]

theorem resetBad_files (s : St) (f : Nat) (r : Res) : (resetBad s f r).files = s.files := by
  cases r <;> rfl

theorem good_resetBad {s : St} {f : Nat} (r : Res)
    (hok : r = .ok → Good none none s) (hr : ∀ c, r = .raised c → Good none (some f) s) (hh : r ≠ .hang) :
    Good none none (resetBad s f r) := by
  cases r with
  | ok => exact hok rfl
  | hang => exact absurd rfl hh
  | raised c =>
    have hg := hr c rfl
    refine ⟨hg.nd, hg.lt, hg.ekeys, hg.elt, hg.e2w, hg.w2e, hg.own, ?_, hg.rq⟩
    intro g _
    show BadOK (s.badSince.modify f (fun _ => 0)) s.files s.wire g
    by_cases hfg : f = g
    · subst hfg
      intro hp
      rw [getD_modify_zero] at hp
      omega
    · intro hp
      rw [getD_modify_ne _ hfg] at hp
      exact hg.bad g (by intro hc; exact hfg (by simpa using hc)) hp

theorem drainCheck_good {s : St} (f : Nat) (hg : Good none none s) :
    Outcome f s (drainCheck s f) ∧
    ((drainCheck s f).2 = .ok → (∀ sl ∈ (drainCheck s f).1.wire, sl.owner ≠ some f) ∧
      (getFile (drainCheck s f).1 f).saved = none) := by
  unfold drainCheck
  obtain ⟨r1, r2, r3, r4, r5, _⟩ := finishResponses_good (fuelOf s) s f hg (by unfold fuelOf; omega)
  generalize hrr : finishResponses (fuelOf s) s f = rr at r1 r2 r3 r4 r5
  obtain ⟨a, res⟩ := rr
  simp only at r1 r2 r3 r4 r5 ⊢
  cases res with
  | hang => exact absurd rfl r1
  | raised c => exact ⟨⟨(by simp), (fun h => by cases h), r3, r4, r5⟩, (fun h => by cases h)⟩
  | ok =>
    simp only
    obtain ⟨hga, hexp⟩ := r2 rfl
    obtain ⟨k1, k2, k3, k4, k5, k6, _⟩ := checkException_good f hga
    refine ⟨⟨k3, ?_, k2, (by rw [k4]; exact r4), (by rw [k6]; exact r5)⟩, ?_⟩
    · intro h
      rw [(k1 h).1]; exact hga
    · intro h
      obtain ⟨e1, e2⟩ := k1 h
      rw [e1]
      exact ⟨expects_of_owned hga hexp, e2⟩

theorem closeFile_good {s : St} {f : Nat} (hg : Good none none s) (hf : f < s.files.length) :
    Outcome f s (closeFile s f) ∧
    ((getFile s f).closed = false → (closeFile s f).2 = .ok →
      (closeFile s f).1.badSince.getD f 0 = 0 ∧ ∀ sl ∈ (closeFile s f).1.wire, sl.owner ≠ some f) := by
  unfold closeFile
  simp only
  by_cases hc : (getFile s f).closed = true
  · simp only [hc, if_true]
    exact ⟨⟨(by simp), fun _ => hg, (fun c h => by cases h), rfl, rfl⟩, (fun h => by cases h)⟩
  · simp only [hc, Bool.false_eq_true, if_false]
    have hg0 : Good none none (setFile s f (fun x => { x with closed := true })) :=
      good_setFile f _ (fun x => ⟨rfl, rfl⟩) hg
    have hlen0 : (setFile s f (fun x => { x with closed := true })).files.length = s.files.length :=
      files_setFile_length _ _ _
    have hreqs0 : (getFile (setFile s f (fun x => { x with closed := true })) f).reqs = (getFile s f).reqs := by
      rw [getFile_setFile_self hf]
    -- the drain/check phase, in both branches: outcome + (ok ⇒ nothing of f left in flight, nothing saved)
    have hphase : ∀ p : St × Res,
        p = (if ((getFile s f).pipelined || decide ((getFile s f).reqs.length > 0)) = true then
              (match finishResponses (fuelOf (setFile s f (fun x => { x with closed := true })))
                  (setFile s f (fun x => { x with closed := true })) f with
                | (a, .ok) => checkException a f
                | r => r)
            else checkException (setFile s f (fun x => { x with closed := true })) f) →
        Outcome f (setFile s f (fun x => { x with closed := true })) p ∧
        (p.2 = .ok → (∀ sl ∈ p.1.wire, sl.owner ≠ some f) ∧ (getFile p.1 f).saved = none) := by
      intro p hp
      split at hp
      · subst hp
        exact drainCheck_good f hg0
      · rename_i hcond
        subst hp
        obtain ⟨k1, k2, k3, k4, k5, k6, _⟩ := checkException_good f hg0
        refine ⟨⟨k3, (fun h => by rw [(k1 h).1]; exact hg0), k2, k4, k6⟩, ?_⟩
        intro h
        obtain ⟨e1, e2⟩ := k1 h
        rw [e1]
        refine ⟨?_, e2⟩
        intro x hx hxo
        have := hg0.rq x hx f hxo
        rw [hreqs0] at this
        have hz : (getFile s f).reqs.length = 0 := by
          simp only [Bool.or_eq_true, decide_eq_true_eq, not_or] at hcond
          omega
        rw [List.eq_nil_of_length_eq_zero hz] at this
        cases this
    generalize hpp : (if ((getFile s f).pipelined || decide ((getFile s f).reqs.length > 0)) = true then
              (match finishResponses (fuelOf (setFile s f (fun x => { x with closed := true })))
                  (setFile s f (fun x => { x with closed := true })) f with
                | (a, .ok) => checkException a f
                | r => r)
            else checkException (setFile s f (fun x => { x with closed := true })) f) = p
    obtain ⟨⟨o1, o2, o3, o4, o5⟩, hclean⟩ := hphase p hpp.symm
    obtain ⟨s1, pending⟩ := p
    simp only at o1 o2 o3 o4 o5 hclean ⊢
    cases pending with
    | hang => exact absurd rfl o1
    | ok =>
      have hg1 := o2 rfl
      obtain ⟨hnone, hsaved⟩ := hclean rfl
      obtain ⟨q1, q2, q3, q4, q5, q6⟩ := request_good hg1 (.close f)
      generalize hqq : request s1 (.close f) = qq at q1 q2 q3 q4 q5 q6
      obtain ⟨s2, r2⟩ := qq
      simp only at q1 q2 q3 q4 q5 q6 ⊢
      have hfin : s2.badSince.getD f 0 = 0 := by
        rcases Nat.eq_zero_or_pos (s2.badSince.getD f 0) with h0 | h0
        · exact h0
        · exfalso
          rcases q2.bad f (by simp) h0 with ⟨x, hx, hb⟩ | hsv
          · exact noOwner_sub q6 hnone x hx hb.1
          · have e1 : s2.files.getD f newFile = getFile s2 f := rfl
            rw [e1, q5 f hnone, hsaved] at hsv
            cases hsv
      cases r2 with
      | hang => exact absurd rfl q1
      | ok => exact ⟨⟨(by simp), fun _ => q2, (fun c h => by cases h), (by rw [q3, o4, hlen0]), (by rw [q4, o5]; rfl)⟩,
          fun _ _ => ⟨hfin, noOwner_sub q6 hnone⟩⟩
      | raised c => exact ⟨⟨(by simp), fun _ => q2, (fun c h => by cases h), (by rw [q3, o4, hlen0]), (by rw [q4, o5]; rfl)⟩,
          fun _ _ => ⟨hfin, noOwner_sub q6 hnone⟩⟩
    | raised code =>
      have hg1 := o3 code rfl
      obtain ⟨q1, q2, q3, q4, _, _⟩ := request_good hg1 (.close f)
      generalize hqq : request s1 (.close f) = qq at q1 q2 q3 q4
      obtain ⟨s2, r2⟩ := qq
      simp only at q1 q2 q3 q4 ⊢
      cases r2 with
      | hang => exact absurd rfl q1
      | ok => exact ⟨⟨(by simp), (fun h => by cases h), fun c _ => q2, (by rw [q3, o4, hlen0]), (by rw [q4, o5]; rfl)⟩, (fun _ h => by cases h)⟩
      | raised c => exact ⟨⟨(by simp), (fun h => by cases h), fun c _ => q2, (by rw [q3, o4, hlen0]), (by rw [q4, o5]; rfl)⟩, (fun _ h => by cases h)⟩


/-! ## answers overtaking each other -/

theorem deliverFirst_perm (w : List Slot) (k : Nat) : (deliverFirst w k).Perm w := by
  unfold deliverFirst
  cases hk : w[k]? with
  | none => exact List.Perm.refl _
  | some sl =>
    simp only
    split
    · have hlt : k < w.length := by
        rcases Nat.lt_or_ge k w.length with h | h
        · exact h
        · rw [List.getElem?_eq_none h] at hk; cases hk
      have hsplit : w = w.take k ++ sl :: w.drop (k + 1) := by
        have hget : w[k] = sl := by
          have := List.getElem?_eq_getElem hlt
          rw [this] at hk
          exact Option.some.inj hk
        conv => lhs; rw [← List.take_append_drop k w]
        rw [List.drop_eq_getElem_cons hlt, hget]
      conv => rhs; rw [hsplit]
      exact List.perm_middle.symm
    · exact List.Perm.refl _

theorem good_deliver {wf ex : Option Nat} {s : St} (k : Nat) (hg : Good wf ex s) :
    Good wf ex { s with wire := deliverFirst s.wire k } := by
  have hp := deliverFirst_perm s.wire k
  have hmem : ∀ x, x ∈ deliverFirst s.wire k → x ∈ s.wire := fun x hx => hp.mem_iff.mp hx
  refine ⟨?_, ?_, hg.ekeys, hg.elt, ?_, ?_, ?_, ?_, ?_⟩
  · show (nums (deliverFirst s.wire k)).Nodup
    exact (List.Perm.nodup_iff (hp.map _)).mpr hg.nd
  · intro x hx; exact hg.lt x (hmem x hx)
  · intro e he
    show e.1 ∈ nums (deliverFirst s.wire k)
    exact (hp.map _).mem_iff.mpr (hg.e2w e he)
  · intro x hx; exact hg.w2e x (hmem x hx)
  · intro x hx; exact hg.own x (hmem x hx)
  · intro f hex hpz
    rcases hg.bad f hex hpz with ⟨x, hx, hb⟩ | h
    · exact Or.inl ⟨x, hp.mem_iff.mpr hx, hb⟩
    · exact Or.inr h
  · intro x hx f hxo; exact hg.rq x (hmem x hx) f hxo

/-! ## whole programs -/

def OpOK (nfiles : Nat) : Op → Prop
  | .write f _ => f < nfiles
  | .close f => f < nfiles
  | .setPipelined f _ => f < nfiles
  | _ => True

theorem stepOp_good {s : St} {op : Op} (hg : Good none none s) (hop : OpOK s.files.length op) :
    (stepOp s op).2 ≠ .hang ∧ Good none none (stepOp s op).1 ∧ (stepOp s op).1.files.length = s.files.length ∧
    (stepOp s op).1.maxReq = s.maxReq := by
  have hrm : ∀ (t : St) (f : Nat) (r : Res), (resetBad t f r).maxReq = t.maxReq := by
    intro t f r; cases r <;> rfl
  cases op with
  | write f data =>
    simp only [stepOp]
    split
    · exact ⟨by simp, hg, rfl, rfl⟩
    · obtain ⟨a, b, c, d, e⟩ := writeAll_good (data.length + 1) s f data hg hop
      exact ⟨a, good_resetBad _ b c a, (by rw [resetBad_files]; exact d), (by rw [hrm]; exact e)⟩
  | sync =>
    simp only [stepOp]
    obtain ⟨r1, r2, r3, r4, _⟩ := request_good hg .sync
    exact ⟨r1, r2, r3, r4⟩
  | close f =>
    simp only [stepOp]
    obtain ⟨⟨a, b, c, d, e⟩, _⟩ := closeFile_good hg hop
    exact ⟨a, good_resetBad _ b c a, (by rw [resetBad_files]; exact d), (by rw [hrm]; exact e)⟩
  | setPipelined f b =>
    simp only [stepOp]
    have hg0 : Good none none (setFile s f (fun x => { x with pipelined := b })) :=
      good_setFile f _ (fun x => ⟨rfl, rfl⟩) hg
    split
    · obtain ⟨⟨a, b', c, d, e⟩, _⟩ := drainCheck_good f hg0
      exact ⟨a, good_resetBad _ b' c a, (by rw [resetBad_files, d]; exact files_setFile_length _ _ _),
        (by rw [hrm, e]; rfl)⟩
    · exact ⟨by simp, hg0, files_setFile_length _ _ _, rfl⟩
  | serve k =>
    simp only [stepOp]
    obtain ⟨a, b, c⟩ := good_serveMany k hg
    exact ⟨by simp, a, (by rw [b]), c⟩
  | deliver k =>
    simp only [stepOp]
    exact ⟨by simp, good_deliver k hg, by simp⟩

theorem runOps_good : ∀ (ops : List Op) (s : St), Good none none s → (∀ op ∈ ops, OpOK s.files.length op) →
    (∀ r ∈ (runOps s ops).2, r ≠ .hang) ∧ Good none none (runOps s ops).1 ∧
    (runOps s ops).1.files.length = s.files.length := by
  intro ops
  induction ops with
  | nil => intro s hg _; exact ⟨by simp [runOps], hg, rfl⟩
  | cons op ops ih =>
    intro s hg hops
    simp only [runOps]
    obtain ⟨a, b, c, _⟩ := stepOp_good hg (hops op (List.mem_cons_self ..))
    obtain ⟨i1, i2, i3⟩ := ih (stepOp s op).1 b (by
      intro o ho; rw [c]; exact hops o (List.mem_cons_of_mem _ ho))
    refine ⟨?_, i2, by rw [i3, c]⟩
    intro r hr
    rcases List.mem_cons.mp hr with h | h
    · rw [h]; exact a
    · exact i1 r h

theorem init_good (maxReq nfiles : Nat) (wf sf : List Nat) : Good none none (init maxReq nfiles wf sf) := by
  refine ⟨?_, ?_, ?_, ?_, ?_, ?_, ?_, ?_, ?_⟩
  case refine_8 =>
    intro f _ hp
    exfalso
    simp only [init, List.getD_eq_getElem?_getD] at hp
    by_cases h : f < nfiles
    · simp [List.getElem?_replicate, h] at hp
    · simp [List.getElem?_replicate, h] at hp
  all_goals simp [init, nums, keys]

theorem runOps_append (s : St) (a b : List Op) :
    runOps s (a ++ b) = ((runOps (runOps s a).1 b).1, (runOps s a).2 ++ (runOps (runOps s a).1 b).2) := by
  induction a generalizing s with
  | nil => simp [runOps]
  | cons op a ih =>
    simp only [List.cons_append, runOps]
    rw [ih]

end PV.SftpClient
