/-
  Helper lemmas for the prefetch model: slices of the file, dict helpers, buffer lookup.
-/
import PV.Model.Prefetch
namespace PV.Prefetch
open PV

/-- `d` is the file content at offset `k` -/
def IsSl (f : Bytes) (k : Nat) (d : Bytes) : Prop := d = slice f k d.length

theorem isSl_nil (f : Bytes) (k : Nat) : IsSl f k [] := by simp [IsSl, slice]

theorem isSl_slice (f : Bytes) (k n : Nat) : IsSl f k (slice f k n) := by
  unfold IsSl slice
  rw [List.length_take]
  by_cases h : n ≤ (f.drop k).length
  · rw [Nat.min_eq_left h]
  · rw [Nat.min_eq_right (by omega), List.take_of_length_le (by omega), List.take_of_length_le (Nat.le_refl _)]

theorem isSl_len {f : Bytes} {k : Nat} {d : Bytes} (h : IsSl f k d) : k + d.length ≤ f.length ∨ d.length = 0 := by
  unfold IsSl slice at h
  have := congrArg List.length h
  rw [List.length_take, List.length_drop] at this
  omega

theorem isSl_take {f : Bytes} {k : Nat} {d : Bytes} (h : IsSl f k d) (n : Nat) : IsSl f k (d.take n) := by
  unfold IsSl slice at *
  rw [List.length_take]
  conv => lhs; rw [h]
  rw [List.take_take]

theorem isSl_drop {f : Bytes} {k : Nat} {d : Bytes} (h : IsSl f k d) (n : Nat) : IsSl f (k + n) (d.drop n) := by
  unfold IsSl slice at *
  rw [List.length_drop]
  conv => lhs; rw [h]
  rw [List.drop_take, List.drop_drop]

theorem isSl_append {f : Bytes} {k : Nat} {a d : Bytes} (ha : IsSl f k a) (hd : IsSl f (k + a.length) d) :
    IsSl f k (a ++ d) := by
  unfold IsSl slice at *
  rw [List.length_append, List.take_add]
  rw [← ha, List.drop_drop, ← hd]

/-- once the position is at or past EOF, the accumulated slice is everything from `k` on -/
theorem isSl_at_eof {f : Bytes} {k : Nat} {a : Bytes} (ha : IsSl f k a) (he : f.length ≤ k + a.length) :
    a = f.drop k ∧ ∀ w, a.length ≤ w → a = slice f k w := by
  unfold IsSl slice at *
  have hl : (f.drop k).length ≤ a.length := by rw [List.length_drop]; omega
  constructor
  · rw [ha]; exact List.take_of_length_le hl
  · intro w hw
    rw [ha, List.take_of_length_le hl, List.take_of_length_le (by omega)]

/-! ## dict helpers -/

theorem mem_dictSet {α : Type} {d : List (Nat × α)} {k : Nat} {v : α} {e : Nat × α}
    (h : e ∈ dictSet d k v) : e = (k, v) ∨ e ∈ d := by
  unfold dictSet at h
  split at h
  · rw [List.mem_map] at h
    obtain ⟨x, hx, rfl⟩ := h
    split
    · left; rfl
    · right; exact hx
  · rw [List.mem_append] at h
    rcases h with h | h
    · right; exact h
    · left; simpa using h

theorem mem_dictDel {α : Type} {d : List (Nat × α)} {k : Nat} {e : Nat × α}
    (h : e ∈ dictDel d k) : e ∈ d ∧ e.1 ≠ k := by
  unfold dictDel at h
  rw [List.mem_filter] at h
  exact ⟨h.1, by simpa using h.2⟩

theorem dictGet_mem {α : Type} {d : List (Nat × α)} {k : Nat} {v : α}
    (h : dictGet? d k = some v) : (k, v) ∈ d := by
  unfold dictGet? at h
  cases hf : d.find? (fun e => e.1 == k) with
  | none => simp [hf] at h
  | some e =>
    simp [hf] at h
    have hm := List.mem_of_find?_eq_some hf
    have hk := List.find?_some hf
    simp at hk
    subst h
    have : e = (k, e.2) := by cases e; simp at hk ⊢; exact hk
    rw [← this]; exact hm

theorem dictHas_of_mem {α : Type} {d : List (Nat × α)} {e : Nat × α} (h : e ∈ d) : dictHas d e.1 = true := by
  unfold dictHas
  rw [List.any_eq_true]
  exact ⟨e, h, by simp⟩

theorem dictGet_isSome_of_has {α : Type} {d : List (Nat × α)} {k : Nat} (h : dictHas d k = true) :
    (dictGet? d k).isSome = true := by
  unfold dictHas at h
  unfold dictGet?
  rw [List.any_eq_true] at h
  obtain ⟨e, he, hk⟩ := h
  rw [Option.isSome_map]
  rw [List.find?_isSome]
  exact ⟨e, he, hk⟩


/-! ## buffer lookup and `_read_prefetch` -/

theorem maxKeyLE_le (bufs : List (Nat × Bytes)) (off : Nat) :
    ∀ idx, maxKeyLE bufs off = some idx → idx ≤ off := by
  unfold maxKeyLE
  suffices h : ∀ (acc : Option Nat), (∀ m, acc = some m → m ≤ off) →
      ∀ idx, bufs.foldl (fun acc e => if e.1 ≤ off then
        (match acc with | none => some e.1 | some m => some (max m e.1)) else acc) acc = some idx → idx ≤ off by
    exact h none (by simp)
  induction bufs with
  | nil => intro acc h idx hi; exact h idx hi
  | cons e rest ih =>
    intro acc h idx hi
    rw [List.foldl_cons] at hi
    refine ih _ ?_ idx hi
    intro m hm
    split at hm
    · rename_i hle
      cases acc with
      | none => simp at hm; omega
      | some a => simp at hm; have := h a rfl; omega
    · exact h m hm

theorem inBuffers_some {bufs : List (Nat × Bytes)} {off idx : Nat} (h : inBuffers bufs off = some idx) :
    ∃ d, dictGet? bufs idx = some d ∧ idx ≤ off ∧ off - idx < d.length := by
  unfold inBuffers at h
  cases hm : maxKeyLE bufs off with
  | none => simp [hm] at h
  | some i =>
    simp only [hm] at h
    cases hg : dictGet? bufs i with
    | none => simp [hg] at h
    | some d =>
      simp only [hg] at h
      split at h
      · simp at h
      · rename_i hlt
        simp at h
        subst h
        exact ⟨d, hg, maxKeyLE_le bufs off i hm, by omega⟩

theorem takeBuf_spec {f : Bytes} {bufs : List (Nat × Bytes)} {idx realpos size : Nat} {pre : Bytes}
    (hb : ∀ e ∈ bufs, IsSl f e.1 e.2) (hg : dictGet? bufs idx = some pre)
    (hle : idx ≤ realpos) (hlt : realpos - idx < pre.length) (hs : 0 < size) :
    (∀ e ∈ (takeBuf bufs idx realpos size).1, IsSl f e.1 e.2) ∧
    IsSl f realpos (takeBuf bufs idx realpos size).2 ∧
    0 < (takeBuf bufs idx realpos size).2.length ∧ (takeBuf bufs idx realpos size).2.length ≤ size := by
  have hpre : IsSl f idx pre := hb _ (dictGet_mem hg)
  unfold takeBuf
  simp only [hg]
  -- the remaining prefix / the part handed out / the remaining suffix
  have hp1 : IsSl f realpos (if realpos - idx > 0 then pre.drop (realpos - idx) else pre) := by
    split
    · have := isSl_drop hpre (realpos - idx)
      have e : idx + (realpos - idx) = realpos := by omega
      rwa [e] at this
    · have e : idx = realpos := by omega
      rw [← e]; exact hpre
  have hp1len : 0 < (if realpos - idx > 0 then pre.drop (realpos - idx) else pre).length := by
    split
    · rw [List.length_drop]; omega
    · omega
  have hb1 : ∀ e ∈ (if realpos - idx > 0 then dictSet (dictDel bufs idx) idx (pre.take (realpos - idx))
      else dictDel bufs idx), IsSl f e.1 e.2 := by
    intro e he
    split at he
    · rcases mem_dictSet he with h | h
      · subst h; exact isSl_take hpre _
      · exact hb _ (mem_dictDel h).1
    · exact hb _ (mem_dictDel he).1
  generalize (if realpos - idx > 0 then pre.drop (realpos - idx) else pre) = p1 at hp1 hp1len ⊢
  generalize (if realpos - idx > 0 then dictSet (dictDel bufs idx) idx (pre.take (realpos - idx))
      else dictDel bufs idx) = b1 at hb1 ⊢
  refine ⟨?_, ?_, ?_, ?_⟩
  · intro e he
    split at he
    · rcases mem_dictSet he with h | h
      · subst h; exact isSl_drop hp1 size
      · exact hb1 _ h
    · exact hb1 _ he
  · split
    · exact isSl_take hp1 _
    · exact hp1
  · split
    · rw [List.length_take]; omega
    · exact hp1len
  · split
    · rw [List.length_take]; omega
    · omega

end PV.Prefetch
