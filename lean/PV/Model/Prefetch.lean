/-
  PV.Model.Prefetch — SFTPFile prefetch / readv bookkeeping (paramiko/sftp_file.py) together with the part of
  SFTPClient._read_response that dispatches asynchronous answers, an honest short-reading server and the
  BufferedFile.read loop on top (unbuffered, or buffered with read-ahead: `_pos`, `_rbuffer`, `_bufsize`).

  Concurrent state machine.  Tasks: the reader (application thread), any number of prefetch threads
  (`_prefetch_thread`, one per `_start_prefetch`), the server.  One action = one atomic region of the code:
    thread : tCheck (cap test under _prefetch_lock) · tAlloc (request number under sftp._lock) ·
             tSend (packet on the wire) · tReg (`_prefetch_extents[num] = …` under _prefetch_lock)
    server : serve k (answer the oldest request; k = how many bytes the handle chose to return) ·
             serveFail c (answer it with error status c instead)
    reader : rOp (start an API call) · rStep (one shared access — receive a response / locked region of
             `_async_response` / allocate / send — followed by the reader-local computation up to the next one)
  All interleavings = all action lists.  Mirrors the code *after* the C28 fix:
    * a STATUS answer to a prefetch request drops its extent (EOF is not saved as an exception, any other
      error is and is raised by the next `_check_exception`),
    * readv does not call _start_prefetch with an empty request list.
  Mathlib-free, executable.
-/
import PV.Base.Bytes
namespace PV.Prefetch
open PV

abbrev Chunk := Nat × Nat

/-- Python `f[off : off+n]` -/
def slice (f : Bytes) (off n : Nat) : Bytes := (f.drop off).take n

/-! ## dict helpers (insertion-ordered association lists) -/
def dictHas {α : Type} (d : List (Nat × α)) (k : Nat) : Bool := d.any (fun e => e.1 == k)
def dictGet? {α : Type} (d : List (Nat × α)) (k : Nat) : Option α := (d.find? (fun e => e.1 == k)).map (·.2)
def dictDel {α : Type} (d : List (Nat × α)) (k : Nat) : List (Nat × α) := d.filter (fun e => e.1 != k)
def dictSet {α : Type} (d : List (Nat × α)) (k : Nat) (v : α) : List (Nat × α) :=
  if dictHas d k then d.map (fun e => if e.1 == k then (k, v) else e) else d ++ [(k, v)]

/-! ## pure helpers of sftp_file.py -/

/-- `max([i for i in keys if i <= offset])` -/
def maxKeyLE (bufs : List (Nat × Bytes)) (offset : Nat) : Option Nat :=
  bufs.foldl (fun acc e => if e.1 ≤ offset then
      (match acc with | none => some e.1 | some m => some (max m e.1)) else acc) none

/-- `_data_in_prefetch_buffers` -/
def inBuffers (bufs : List (Nat × Bytes)) (offset : Nat) : Option Nat :=
  match maxKeyLE bufs offset with
  | none => none
  | some idx =>
    match dictGet? bufs idx with
    | none => none
    | some d => if offset - idx ≥ d.length then none else some idx

/-- last element (in dict order) among the extents with the largest start ≤ offset (stable sort, `k[-1]`) -/
def bestExtent (ext : List (Nat × Chunk)) (offset : Nat) : Option Chunk :=
  ext.foldl (fun acc e => if e.2.1 ≤ offset then
      (match acc with
       | none => some e.2
       | some b => if b.1 ≤ e.2.1 then some e.2 else some b) else acc) none

/-- `_data_in_prefetch_requests` (the recursion strictly shrinks `size`; fuel = size) -/
def inRequests (ext : List (Nat × Chunk)) : Nat → Nat → Nat → Bool
  | 0, _, _ => false
  | fuel+1, offset, size =>
    match bestExtent ext offset with
    | none => false
    | some (bo, bs) =>
      if bo + bs ≤ offset then false
      else if bo + bs ≥ offset + size then true
      else inRequests ext fuel (bo + bs) (offset + size - bo - bs)

/-- `while size > 0: chunk = min(size, MAX); append((offset, chunk)); …` -/
def splitChunks (maxReq : Nat) : Nat → Nat → Nat → List Chunk
  | 0, _, _ => []
  | fuel+1, off, size =>
    if size = 0 then [] else
      let c := min size maxReq
      (off, c) :: splitChunks maxReq fuel (off + c) (size - c)

/-- the request list `readv` computes (note the truthiness test: a buffer at index 0 does not count) -/
def readvChunks (maxReq : Nat) (bufs : List (Nat × Bytes)) (ext : List (Nat × Chunk)) :
    List Chunk → List Chunk
  | [] => []
  | (off, size) :: rest =>
    let covered := (match inBuffers bufs off with | some idx => idx != 0 | none => false)
      || inRequests ext (size + 1) off size
    (if covered then [] else splitChunks maxReq size off size) ++ readvChunks maxReq bufs ext rest

/-- body of `_read_prefetch` once a buffer index has been found: (new buffers, returned bytes) -/
def takeBuf (bufs : List (Nat × Bytes)) (idx realpos size : Nat) : List (Nat × Bytes) × Bytes :=
  match dictGet? bufs idx with
  | none => (bufs, [])
  | some pre =>
    let b0 := dictDel bufs idx
    let bo := realpos - idx
    let b1 := if bo > 0 then dictSet b0 idx (pre.take bo) else b0
    let p1 := if bo > 0 then pre.drop bo else pre
    let b2 := if size < p1.length then dictSet b1 (realpos + size) (p1.drop size) else b1
    let p2 := if size < p1.length then p1.take size else p1
    (b2, p2)

/-! ## state -/

inductive Resp where
  | data (d : Bytes)
  | eof
  | err (code : Nat)
  deriving Repr, DecidableEq

inductive Owner where
  | pf (tid : Nat)
  | sync
  deriving Repr, DecidableEq

/-- what a request number was allocated for (append-only ghost table; index = request number) -/
structure Info where
  off : Nat
  len : Nat
  owner : Owner
  deriving Repr, DecidableEq

inductive TSt where
  | idle (chunks : List Chunk)
  | checked (chunks : List Chunk)
  | allocd (num off len : Nat) (rest : List Chunk)
  | sent (num off len : Nat) (rest : List Chunk)
  deriving Repr, DecidableEq

structure Thread where
  st : TSt
  cap : Option Nat
  deriving Repr, DecidableEq

/-- the running `read` call: where it started, how much is wanted (none = read to EOF), what it has, and the
    size of the current `_read` request -/
structure RCtx where
  start : Nat
  want : Option Nat
  acc : Bytes
  size : Nat
  deriving Repr, DecidableEq

inductive Pc where
  | idle
  | cont (c : RCtx)
  | recvPf (c : RCtx)
  | dispPf (c : RCtx) (num : Nat) (r : Resp)
  | allocSync (c : RCtx)
  | sendSync (c : RCtx) (num : Nat)
  | recvSync (c : RCtx) (num : Nat)
  | dispSync (c : RCtx) (num n' : Nat) (r : Resp)
  deriving Repr, DecidableEq

structure St where
  file : Bytes
  maxReq : Nat
  bufRead : Nat
  fuel : Nat
  info : List Info
  c2s : List Nat
  s2c : List (Nat × Resp)
  threads : List Thread
  extents : List (Nat × Chunk)
  bufs : List (Nat × Bytes)
  done : Bool
  prefetching : Bool
  realpos : Nat
  pc : Pc
  out : List (Nat × Option Nat × Bytes)
  saved : Option Nat
  raised : List (Nat × Nat)
  pos : Nat
  rbuf : Bytes
  bufsize : Nat
  deriving Repr

/-- `bufsize` = 0: unbuffered (the default); > 0: FLAG_BUFFERED with that `_bufsize` (read-ahead) -/
def init (file : Bytes) (maxReq : Nat) (bufsize : Nat := 0) : St :=
  { file, maxReq, bufRead := 8192, fuel := 1000000, info := [], c2s := [], s2c := [], threads := [],
    extents := [], bufs := [], done := false, prefetching := false, realpos := 0, pc := .idle, out := [],
    saved := none, raised := [], pos := 0, rbuf := [], bufsize := bufsize }

inductive Op where
  | prefetch (fileSize : Nat) (cap : Option Nat)
  | readv (chunks : List Chunk) (cap : Option Nat)
  | seek (off : Nat)
  | read (want : Option Nat)
  | readAt (off : Nat) (want : Option Nat)
  deriving Repr, DecidableEq

inductive Act where
  | serve (k : Nat)
  | serveFail (code : Nat)
  | tCheck (i : Nat)
  | tAlloc (i : Nat)
  | tSend (i : Nat)
  | tReg (i : Nat)
  | rOp (op : Op)
  | rStep
  deriving Repr, DecidableEq

/-! ## reader-local computation -/

/-- what `read` hands out of the bytes it has gathered in `_rbuffer` -/
def resultOf (c : RCtx) : Bytes :=
  match c.want with
  | some w => c.acc.take w
  | none => c.acc

/-- `result = self._rbuffer[:size]; self._rbuffer = self._rbuffer[size:]; self._pos += len(result)` -/
def finish (s : St) (c : RCtx) : St :=
  { s with out := s.out ++ [(c.start, c.want, resultOf c)], pc := .idle,
           rbuf := c.acc.drop (resultOf c).length, pos := c.start + (resultOf c).length }

def wantMet (c : RCtx) : Bool :=
  match c.want with
  | some w => c.acc.length ≥ w
  | none => false

/-- `read_size = size - len(self._rbuffer)`, raised to `_bufsize` for a buffered file (read-ahead); reading to EOF
    asks for `_DEFAULT_BUFSIZE` at a time; `_read` cuts everything to MAX_REQUEST_SIZE -/
def reqSize (s : St) (c : RCtx) : Nat :=
  min (match c.want with
       | some w => if s.bufsize > 0 then max s.bufsize (w - c.acc.length) else w - c.acc.length
       | none => s.bufRead) s.maxReq

/-- BufferedFile.read loop → SFTPFile._read → _read_prefetch, up to the next shared access -/
def advance : Nat → St → RCtx → St
  | 0, s, c => { s with pc := .cont c }
  | fuel+1, s, c =>
    if wantMet c then finish s c
    else
      let size := reqSize s c
      let c1 := { c with size := size }
      if s.prefetching then
        match inBuffers s.bufs s.realpos with
        | some idx =>
          let r := takeBuf s.bufs idx s.realpos size
          let s' := { s with bufs := r.1, realpos := s.realpos + r.2.length }
          let c' := { c1 with acc := c.acc ++ r.2 }
          if r.2.length = 0 then finish s' c' else advance fuel s' c'
        | none =>
          if s.done then { s with prefetching := false, pc := .allocSync c1 }
          else { s with pc := .recvPf c1 }
      else { s with pc := .allocSync c1 }

/-- `_async_response` saves the exception of an error status *before* it enters the locked region -/
def savedOf (r : Resp) (old : Option Nat) : Option Nat :=
  match r with
  | .err c => some c
  | _ => old

/-- the locked region of `_async_response` (precondition: the extent is registered) -/
def asyncResponse (s : St) (num : Nat) (r : Resp) : Option St :=
  match dictGet? s.extents num with
  | none => none
  | some (off, _len) =>
    let ext' := dictDel s.extents num
    let done' := if ext'.isEmpty then true else s.done
    match r with
    | .data d => some { s with bufs := dictSet s.bufs off d, extents := ext', done := done' }
    | .eof => some { s with extents := ext', done := done' }
    | .err _ => some { s with extents := ext', done := done' }

/-- the running read raises `code` (an IOError passes through BufferedFile.read; what it had collected is lost) -/
def raiseRead (s : St) (c : RCtx) (code : Nat) : St :=
  { s with raised := s.raised ++ [(c.start, code)], pc := .idle, pos := s.realpos, rbuf := [] }

/-- `_check_exception()` after `_read_response()` in `_read_prefetch`, then back to the loop -/
def afterCheck (s : St) (c : RCtx) : St :=
  match s.saved with
  | some code => raiseRead { s with saved := none } c code
  | none => advance s.fuel s c

def startPrefetch (s : St) (chunks : List Chunk) (cap : Option Nat) : St :=
  { s with prefetching := true, done := false, threads := s.threads ++ [{ st := .idle chunks, cap := cap }] }

def setThread (s : St) (i : Nat) (st : TSt) (cap : Option Nat) : St :=
  { s with threads := s.threads.set i { st := st, cap := cap } }

/-- `pf_len < max_concurrent_requests` (no cap: always) -/
def capPass (cap : Option Nat) (n : Nat) : Bool :=
  match cap with
  | none => true
  | some m => decide (n < m)

/-! ## the step relation (none = not enabled) -/

def step (s : St) : Act → Option St
  | .serve k =>
    match s.c2s with
    | [] => none
    | num :: rest =>
      match s.info[num]? with
      | none => none
      | some i =>
        let avail := min i.len (s.file.length - i.off)
        let r := if avail = 0 then Resp.eof else Resp.data (slice s.file i.off (max 1 (min k avail)))
        some { s with c2s := rest, s2c := s.s2c ++ [(num, r)] }
  | .serveFail code =>
    match s.c2s with
    | [] => none
    | num :: rest =>
      match s.info[num]? with
      | none => none
      | some _ => some { s with c2s := rest, s2c := s.s2c ++ [(num, Resp.err code)] }
  | .tCheck i =>
    match s.threads[i]? with
    | some ⟨.idle (c :: rest), cap⟩ =>
      if capPass cap s.extents.length then some (setThread s i (.checked (c :: rest)) cap) else none
    | _ => none
  | .tAlloc i =>
    match s.threads[i]? with
    | some ⟨.checked (c :: rest), cap⟩ =>
      let num := s.info.length
      some { setThread s i (.allocd num c.1 c.2 rest) cap with info := s.info ++ [⟨c.1, c.2, .pf i⟩] }
    | _ => none
  | .tSend i =>
    match s.threads[i]? with
    | some ⟨.allocd num off len rest, cap⟩ =>
      some { setThread s i (.sent num off len rest) cap with c2s := s.c2s ++ [num] }
    | _ => none
  | .tReg i =>
    match s.threads[i]? with
    | some ⟨.sent num off len rest, cap⟩ =>
      some { setThread s i (.idle rest) cap with extents := dictSet s.extents num (off, len) }
    | _ => none
  | .rOp op =>
    match s.pc with
    | .idle =>
      match op with
      | .seek off => some { s with realpos := off, pos := off, rbuf := [] }
      | .read want => some (advance s.fuel s { start := s.pos, want := want, acc := s.rbuf, size := 0 })
      | .readAt off want =>
        -- one step of readv's final loop: `self.seek(x[0]); yield self.read(x[1])`
        some (advance s.fuel { s with realpos := off, pos := off, rbuf := [] }
          { start := off, want := want, acc := [], size := 0 })
      | .prefetch fileSize cap =>
        let chunks := splitChunks s.maxReq (fileSize - s.realpos) s.realpos (fileSize - s.realpos)
        if chunks.isEmpty then some s else some (startPrefetch s chunks cap)
      | .readv chunks cap =>
        let rc := readvChunks s.maxReq s.bufs s.extents chunks
        if rc.isEmpty then some s else some (startPrefetch s rc cap)
    | _ => none
  | .rStep =>
    match s.pc with
    | .idle => none
    | .cont c => some (advance s.fuel s c)
    | .recvPf c =>
      match s.s2c with
      | [] => none
      | (num, r) :: rest =>
        let s1 := { s with s2c := rest }
        match s.info[num]? with
        | some ⟨_, _, .pf _⟩ => some { s1 with pc := .dispPf c num r, saved := savedOf r s1.saved }
        | _ => some (afterCheck s1 c)
    | .dispPf c num r =>
      match asyncResponse s num r with
      | none => none
      | some s1 => some (afterCheck s1 c)
    | .allocSync c =>
      some { s with info := s.info ++ [⟨s.realpos, c.size, .sync⟩], pc := .sendSync c s.info.length }
    | .sendSync c num => some { s with c2s := s.c2s ++ [num], pc := .recvSync c num }
    | .recvSync c num =>
      match s.s2c with
      | [] => none
      | (n', r) :: rest =>
        let s1 := { s with s2c := rest }
        if n' = num then
          match r with
          | .data d =>
            let s2 := { s1 with realpos := s1.realpos + d.length }
            let c' := { c with acc := c.acc ++ d }
            if d.length = 0 then some (finish s2 c') else some (advance s.fuel s2 c')
          | .eof => some (finish s1 c)
          | .err code => some (raiseRead s1 c code)
        else
          match s.info[n']? with
          | some ⟨_, _, .pf _⟩ => some { s1 with pc := .dispSync c num n' r, saved := savedOf r s1.saved }
          | _ => some s1
    | .dispSync c num n' r =>
      match asyncResponse s n' r with
      | none => none
      | some s1 => some { s1 with pc := .recvSync c num }

/-- a schedule: disabled actions stutter -/
def run (s : St) : List Act → St
  | [] => s
  | a :: as => run ((step s a).getD s) as

end PV.Prefetch
