/-
  PV.Model.PacketAuth — lemmas for C02: what a successful `read_message` on an ARBITRARY byte string implies
  (inversion of the receive paths), and "same authenticated content ⇒ same wire bytes".
-/
import PV.Model.PacketRoundtrip
namespace PV.Packet
open PV

/-! ## inversion of `runBuf` -/

theorem runBuf_read_inv {α : Type} {n : Int} {cr : Bool} {k : Bytes → Rd α} {buf : Bytes} {a : α} {rest : Bytes}
    (h : runBuf (.read n cr k) buf = .ok a rest) :
    ∃ x y, buf = x ++ y ∧ x.length = n.toNat ∧ runBuf (k x) y = .ok a rest := by
  unfold runBuf at h
  by_cases h0 : n ≤ 0
  · simp only [h0, if_true] at h
    exact ⟨[], buf, rfl, by simp; omega, h⟩
  · simp only [h0, if_false] at h
    by_cases hl : n.toNat ≤ buf.length
    · simp only [hl, if_true] at h
      exact ⟨buf.take n.toNat, buf.drop n.toNat, (List.take_append_drop _ _).symm,
        by rw [List.length_take]; omega, h⟩
    · simp only [hl, if_false] at h
      cases h

theorem runBuf_liftE_inv {α : Type} {e : Except Err α} {buf : Bytes} {a : α} {rest : Bytes}
    (h : runBuf (liftE e) buf = .ok a rest) : e = .ok a ∧ buf = rest := by
  cases e with
  | error x => simp [liftE, runBuf] at h
  | ok v =>
    simp only [liftE, runBuf] at h
    injection h with h1 h2
    exact ⟨by rw [h1], h2⟩

theorem runBuf_fail_ne {α : Type} {e : Err} {buf : Bytes} {a : α} {rest : Bytes} :
    runBuf (Rd.fail e : Rd α) buf ≠ .ok a rest := by
  simp [runBuf]

theorem finish_ok_inv {p : Prims} {r : Receiver p} {c : InC p} {psize : Nat} {packet : Bytes} {au : Option Auth}
    {o : RecvOut p} (h : finish r c psize packet au = .ok o) :
    o.auth = au ∧ o.st.ciph = c ∧ o.st.seq = nextSeq r.seq ∧ o.msg.seqno = r.seq ∧
    o.st.block = r.block ∧ o.st.macLen = r.macLen ∧ o.st.kexDone = r.kexDone := by
  unfold finish at h
  cases packet with
  | nil => cases h
  | cons padb tl =>
    simp only at h
    cases hd : decompIn r.decomp (pySlice1 (padb :: tl) ((psize : Int) - padb.toNat)) with
    | error e => rw [hd] at h; cases h
    | ok zp =>
      obtain ⟨z', pl⟩ := zp
      rw [hd] at h
      simp only at h
      by_cases hr : nextSeq r.seq = 0 ∧ ¬ r.kexDone
      · rw [if_pos hr] at h; cases h
      · rw [if_neg hr] at h
        cases pl with
        | nil => cases h
        | cons cmd body =>
          simp only at h
          have := (Except.ok.inj h).symm
          subst this
          exact ⟨rfl, rfl, rfl, rfl, rfl, rfl, rfl⟩

/-! ## what acceptance implies, per receive path -/

/-- encrypt-then-MAC: a delivery means the `macLen` bytes after the packet are the MAC of
`seq ‖ length ‖ ciphertext`, all of them -/
theorem readEtm_ok_inv {p : Prims} {r : Receiver p} {st : p.CSt} {mk : p.MKey} {hdr buf rest : Bytes}
    {o : RecvOut p} (h : runBuf (readEtm r st mk hdr) buf = .ok o rest) :
    4 ≤ hdr.length ∧ ∃ more tag, buf = more ++ (tag ++ rest) ∧ tag.length = r.macLen ∧
      (more.length : Int) = max (remainingEtm (beVal (hdr.take 4)) r.block) 0 ∧
      tag = (p.mac mk (be32 r.seq ++ be32 (beVal (hdr.take 4)) ++ (hdr.drop 4 ++ more))).take r.macLen ∧
      finish r (.etm (p.dec st (hdr.drop 4 ++ more)).1 mk) (beVal (hdr.take 4)) (p.dec st (hdr.drop 4 ++ more)).2
        (some ⟨r.seq, [], be32 (beVal (hdr.take 4)) ++ (hdr.drop 4 ++ more)⟩) = .ok o := by
  unfold readEtm at h
  by_cases hl : hdr.length < 4
  · rw [if_pos hl] at h; exact absurd h runBuf_fail_ne
  · rw [if_neg hl] at h
    simp only at h
    obtain ⟨more, y, hb1, hml, h⟩ := runBuf_read_inv h
    obtain ⟨tag, z, hb2, htl, h⟩ := runBuf_read_inv h
    by_cases hc : ctEq ((p.mac mk (be32 r.seq ++ be32 (beVal (hdr.take 4)) ++ (hdr.drop 4 ++ more))).take r.macLen) tag = true
    · rw [if_pos hc] at h
      obtain ⟨hf, hz⟩ := runBuf_liftE_inv h
      refine ⟨by omega, more, tag, by rw [hb1, hb2, hz], by simpa using htl, by omega, ((ctEq_iff _ _).1 hc).symm, hf⟩
    · rw [if_neg hc] at h; exact absurd h runBuf_fail_ne

/-- AES-GCM: a delivery means `decrypt(iv, ciphertext ‖ tag, aad = length)` succeeded -/
theorem readAead_ok_inv {p : Prims} {r : Receiver p} {k : p.AKey} {iv hdr buf rest : Bytes}
    {o : RecvOut p} (h : runBuf (readAead r k iv hdr) buf = .ok o rest) :
    4 ≤ hdr.length ∧ ∃ more plain iv', buf = more ++ rest ∧
      p.adec k iv (hdr.drop 4 ++ more) (hdr.take 4) = some plain ∧ incIv iv = .ok iv' ∧
      finish r (.aead k iv') (beVal (hdr.take 4)) plain
        (some ⟨r.seq, iv, hdr.take 4 ++ (hdr.drop 4 ++ more)⟩) = .ok o := by
  unfold readAead at h
  by_cases hl : hdr.length < 4
  · rw [if_pos hl] at h; exact absurd h runBuf_fail_ne
  · rw [if_neg hl] at h
    simp only at h
    obtain ⟨more, y, hb1, hml, h⟩ := runBuf_read_inv h
    cases hd : p.adec k iv (hdr.drop 4 ++ more) (hdr.take 4) with
    | none => rw [hd] at h; exact absurd h runBuf_fail_ne
    | some plain =>
      rw [hd] at h
      simp only at h
      cases hi : incIv iv with
      | error e => rw [hi] at h; exact absurd h runBuf_fail_ne
      | ok iv' =>
        rw [hi] at h
        obtain ⟨hf, hz⟩ := runBuf_liftE_inv h
        exact ⟨by omega, more, plain, iv', by rw [hb1, hz], hd, rfl, hf⟩

/-- classic: a delivery means the blocking test passed and (when a MAC is configured) the `macLen` bytes after
the packet are the MAC of `seq ‖ length ‖ plaintext packet`, all of them -/
theorem readClassic_ok_inv {p : Prims} {r : Receiver p} {st : p.CSt} {mk : p.MKey} {hdr buf rest : Bytes}
    {o : RecvOut p} (h : runBuf (readClassic r st mk hdr) buf = .ok o rest) (hm : 0 < r.macLen) :
    4 ≤ (p.dec st hdr).2.length ∧
    badBlocking (beVal ((p.dec st hdr).2.take 4)) ((p.dec st hdr).2.drop 4).length r.block = false ∧
    ∃ c1 tag, buf = c1 ++ (tag ++ rest) ∧
      ((c1 ++ tag).length : Int)
        = max (classicSize (beVal ((p.dec st hdr).2.take 4)) r.macLen ((p.dec st hdr).2.drop 4).length) 0 ∧
      c1 = (c1 ++ tag).take (beVal ((p.dec st hdr).2.take 4) - ((p.dec st hdr).2.drop 4).length) ∧
      tag.take r.macLen = (p.mac mk (be32 r.seq ++ be32 (beVal ((p.dec st hdr).2.take 4))
          ++ ((p.dec st hdr).2.drop 4 ++ (p.dec (p.dec st hdr).1 c1).2))).take r.macLen ∧
      finish r (.classic (p.dec (p.dec st hdr).1 c1).1 mk) (beVal ((p.dec st hdr).2.take 4))
        ((p.dec st hdr).2.drop 4 ++ (p.dec (p.dec st hdr).1 c1).2)
        (some ⟨r.seq, [], be32 (beVal ((p.dec st hdr).2.take 4))
          ++ ((p.dec st hdr).2.drop 4 ++ (p.dec (p.dec st hdr).1 c1).2)⟩) = .ok o := by
  unfold readClassic at h
  simp only at h
  by_cases hl : (p.dec st hdr).2.length < 4
  · rw [if_pos hl] at h; exact absurd h runBuf_fail_ne
  · rw [if_neg hl] at h
    by_cases hbb : badBlocking (beVal ((p.dec st hdr).2.take 4)) ((p.dec st hdr).2.drop 4).length r.block = true
    · rw [if_pos hbb] at h; exact absurd h runBuf_fail_ne
    · rw [if_neg hbb] at h
      obtain ⟨x, y, hb1, hxl, h⟩ := runBuf_read_inv h
      have hm' : r.macLen > 0 := hm
      simp only [hm', if_true] at h
      generalize hn : beVal ((p.dec st hdr).2.take 4) - ((p.dec st hdr).2.drop 4).length = n at h
      by_cases hc : ctEq ((p.mac mk (be32 r.seq ++ be32 (beVal ((p.dec st hdr).2.take 4))
          ++ ((p.dec st hdr).2.drop 4 ++ (p.dec (p.dec st hdr).1 (x.take n)).2))).take r.macLen)
          ((x.drop n).take r.macLen) = true
      · rw [if_pos hc] at h
        obtain ⟨hf, hz⟩ := runBuf_liftE_inv h
        refine ⟨by omega, by simpa using hbb, x.take n, x.drop n, ?_, ?_, ?_, ?_, hf⟩
        · rw [hb1, hz, ← List.append_assoc, List.take_append_drop]
        · rw [List.take_append_drop]; omega
        · rw [List.take_append_drop]
        · exact ((ctEq_iff _ _).1 hc).symm
      · rw [if_neg hc] at h; exact absurd h runBuf_fail_ne

/-! ## same authenticated content ⇒ the receiver consumed exactly the sender's packet -/

theorem be32_take4_drop4 (x : Bytes) (h : 4 ≤ x.length) : be32 (beVal (x.take 4)) ++ x.drop 4 = x := by
  rw [be32_beVal _ (by rw [List.length_take]; omega), List.take_append_drop]

theorem content_eq (x m : Bytes) (h : 4 ≤ x.length) : be32 (beVal (x.take 4)) ++ (x.drop 4 ++ m) = x ++ m := by
  rw [← List.append_assoc, be32_take4_drop4 x h]

theorem mac_arg_eq (sq x m : Bytes) (h : 4 ≤ x.length) :
    sq ++ be32 (beVal (x.take 4)) ++ (x.drop 4 ++ m) = sq ++ (x ++ m) := by
  rw [List.append_assoc, content_eq x m h]

/-- the receiver's configuration authenticates every packet -/
def AuthCfg {p : Prims} (c : InC p) (macLen : Nat) : Prop :=
  match c with
  | .plain => False
  | .classic _ _ => 0 < macLen
  | _ => True

theorem send_shape {p : Prims} {s : Sender p} {d rnd : Bytes} {o : SendOut p} (hs : sendMessage s d rnd = .ok o) :
    ∃ P cc bodyB, encrypt s P = .ok (cc, o.wire, o.auth) ∧ P = be32 bodyB.length ++ bodyB ∧
      bodyB.length < 4294967296 ∧ 0 < bodyB.length ∧ 0 < s.block ∧
      (s.ciph.addlen = 8 → (4 + bodyB.length) % s.block = 0) ∧
      (s.ciph.addlen = 4 → bodyB.length % s.block = 0) := by
  obtain ⟨_, _, P, cc, a, hb, hen, hauth, _⟩ := sendMessage_ok hs
  obtain ⟨hb0, hB⟩ := buildPacket_ok hb
  obtain ⟨padding, hpl, hsh⟩ := hB.shape
  generalize hbb : UInt8.ofNat padding.length :: ((compOut s.comp d).2 ++ padding) = bodyB
  have hbl : bodyB.length = (compOut s.comp d).2.length + padding.length + 1 := by
    rw [← hbb]; simp only [List.length_cons, List.length_append]
  refine ⟨P, cc, bodyB, by rw [hauth]; exact hen, ?_, by rw [hbl, hpl]; exact hB.psize_lt, by omega, hb0, ?_, ?_⟩
  · rw [hsh, hbl, ← hbb, ← hpl]; simp
  · intro ha; rw [hbl, hpl, ha]; exact classic_total_mod _ _ hb0
  · intro ha; rw [hbl, hpl, ha]; exact etm_body_mod _ _ hb0

theorem consumed_eq_wire {p : Prims} (W : Laws p) (Bj : CipherBij p W.blk W.Paired)
    {s : Sender p} {r : Receiver p} (hp : PairedSt W s r) (hA : AuthCfg r.ciph r.macLen)
    {d rnd : Bytes} {o : SendOut p} (hs : sendMessage s d rnd = .ok o)
    {w rest : Bytes} {o' : RecvOut p} (hr : runBuf (readMessage r) w = .ok o' rest) (hau : o'.auth = o.auth) :
    w = o.wire ++ rest := by
  obtain ⟨P, cc, bodyB, hen, hPeq, hps, hpos, hb0, hal8, hal4⟩ := send_shape hs
  unfold readMessage at hr
  obtain ⟨hdr, y, hw, hhl, hr⟩ := runBuf_read_inv hr
  have hhl' : hdr.length = r.block := by simpa using hhl
  have hpc := hp.ciph
  unfold encrypt at hen
  cases hrc : r.ciph with
  | plain => rw [hrc] at hA; exact absurd hA (by simp [AuthCfg])
  | etm sd mk' =>
    cases hsc : s.ciph with
    | etm se mk =>
      rw [hsc, hrc] at hpc
      simp only [CiphPaired] at hpc
      obtain ⟨hmk, _, _, _⟩ := hpc
      subst hmk
      rw [hrc] at hr
      simp only at hr
      obtain ⟨h4, more, tag, hy, htl, _, htag, hf⟩ := readEtm_ok_inv hr
      rw [hsc] at hen
      simp only at hen
      have hinj := Except.ok.inj hen
      simp only [Prod.mk.injEq] at hinj
      obtain ⟨_, hwire, hauth⟩ := hinj
      have ha' := (finish_ok_inv hf).1
      rw [hau, ← hauth] at ha'
      simp only [Option.some.injEq, Auth.mk.injEq] at ha'
      obtain ⟨_, _, hcont⟩ := ha'
      rw [mac_arg_eq _ hdr more h4] at htag
      rw [content_eq hdr more h4] at hcont
      rw [hw, hy, ← hwire, hcont, htag, hp.seq, hp.macLen]
      simp only [List.append_assoc]
    | plain => rw [hsc, hrc] at hpc; exact absurd hpc (by simp [CiphPaired])
    | classic _ _ => rw [hsc, hrc] at hpc; exact absurd hpc (by simp [CiphPaired])
    | aead _ _ => rw [hsc, hrc] at hpc; exact absurd hpc (by simp [CiphPaired])
  | aead k' iv0 =>
    cases hsc : s.ciph with
    | aead k iv =>
      rw [hsc, hrc] at hpc
      simp only [CiphPaired] at hpc
      obtain ⟨hk, hiv, _⟩ := hpc
      subst hk; subst hiv
      rw [hrc] at hr
      simp only at hr
      obtain ⟨h4, more, plain, iv', hy, _, hi, hf⟩ := readAead_ok_inv hr
      rw [hsc] at hen
      simp only at hen
      rw [hi] at hen
      simp only at hen
      have hinj := Except.ok.inj hen
      simp only [Prod.mk.injEq] at hinj
      obtain ⟨_, hwire, hauth⟩ := hinj
      have ha' := (finish_ok_inv hf).1
      rw [hau, ← hauth] at ha'
      simp only [Option.some.injEq, Auth.mk.injEq] at ha'
      obtain ⟨_, _, hcont⟩ := ha'
      rw [← List.append_assoc, List.take_append_drop] at hcont
      rw [hw, hy, ← hwire, hcont]
      simp only [List.append_assoc]
    | plain => rw [hsc, hrc] at hpc; exact absurd hpc (by simp [CiphPaired])
    | classic _ _ => rw [hsc, hrc] at hpc; exact absurd hpc (by simp [CiphPaired])
    | etm _ _ => rw [hsc, hrc] at hpc; exact absurd hpc (by simp [CiphPaired])
  | classic sd mk' =>
    cases hsc : s.ciph with
    | classic se mk =>
      rw [hsc, hrc] at hpc
      simp only [CiphPaired] at hpc
      obtain ⟨hmk, hPd, hblk, hmac⟩ := hpc
      subst hmk
      rw [hrc] at hr hA
      simp only at hr
      simp only [AuthCfg] at hA
      obtain ⟨h4, hbb, c1, tag, hy, hctl, hc1, htag, hf⟩ := readClassic_ok_inv hr hA
      rw [hsc] at hen hal8
      simp only at hen
      have hal := hal8 rfl
      have hinj := Except.ok.inj hen
      simp only [Prod.mk.injEq] at hinj
      obtain ⟨_, hwire, hauth⟩ := hinj
      have hsm : s.macLen > 0 := by rw [hp.macLen]; exact hA
      simp only [hsm, if_true] at hauth
      have ha' := (finish_ok_inv hf).1
      rw [hau, ← hauth] at ha'
      simp only [Option.some.injEq, Auth.mk.injEq] at ha'
      obtain ⟨hseq, _, hcont⟩ := ha'
      -- names
      generalize hA' : (p.dec sd hdr).2 = A' at *
      generalize hsd1 : (p.dec sd hdr).1 = sd1 at *
      generalize hB' : (p.dec sd1 c1).2 = B' at *
      rw [content_eq A' B' h4] at hcont
      rw [mac_arg_eq _ A' B' h4, ← hcont] at htag
      -- alignment of the first block
      have hblkd : W.blk sd = s.block := by rw [W.ciph.paired_blk se sd hPd]; exact hblk
      have hhal : hdr.length % W.blk se = 0 := by rw [hhl', ← hp.block, hblk]; exact Nat.mod_self _
      have hAl : A'.length = s.block := by
        rw [← hA', Bj.dec_len sd hdr (by rw [hblkd, hhl', ← hp.block]; exact Nat.mod_self _), hhl', hp.block]
      have hAal : A'.length % W.blk se = 0 := by rw [hAl, hblk]; exact Nat.mod_self _
      have he0 : (p.enc se A').2 = hdr := by rw [← hA']; exact Bj.enc_dec se sd hdr hPd hhal
      have hP1 : W.Paired (p.enc se A').1 sd1 := by
        have := (W.ciph.dec_enc se sd A' hPd hAal).2
        rw [he0, hsd1] at this
        exact this
      have hblk1 : W.blk (p.enc se A').1 = s.block := by rw [W.ciph.blk_enc]; exact hblk
      -- the length field
      have hge : s.block ≤ 4 + bodyB.length := Nat.le_of_dvd (by omega) (Nat.dvd_of_mod_eq_zero hal)
      have hb4 := hp.blk4
      have hpsz : beVal (A'.take 4) = bodyB.length := by
        have : A'.take 4 = (A' ++ B').take 4 := by rw [List.take_append_of_le_length h4]
        rw [this, ← hcont, hPeq, take4_be32_append, beVal_be32 _ hps]
      have hlo : (A'.drop 4).length = s.block - 4 := by rw [List.length_drop, hAl]
      rw [hpsz, hlo] at hc1 hctl
      have hc1l : c1.length = 4 + bodyB.length - s.block := by
        have h1 : (c1 ++ tag).length = bodyB.length + r.macLen - (s.block - 4) := by
          unfold classicSize at hctl; omega
        have h2 := congrArg List.length hc1
        rw [List.length_take, h1] at h2
        omega
      have hc1al : c1.length % W.blk (p.enc se A').1 = 0 := by
        rw [hblk1, hc1l]
        exact Nat.mod_eq_zero_of_dvd (Nat.dvd_sub (Nat.dvd_of_mod_eq_zero hal) (Nat.dvd_refl _))
      have he1 : (p.enc (p.enc se A').1 B').2 = c1 := by rw [← hB']; exact Bj.enc_dec _ sd1 c1 hP1 hc1al
      have htl : tag.length = r.macLen := by
        have h1 : (c1 ++ tag).length = bodyB.length + r.macLen - (s.block - 4) := by
          unfold classicSize at hctl; omega
        rw [List.length_append, hc1l] at h1
        omega
      have htt : tag.take r.macLen = tag := by rw [← htl]; exact List.take_length
      have henc : (p.enc se P).2 = hdr ++ c1 := by
        rw [hcont, W.ciph.enc_app se A' B' hAal, he0, he1]
      rw [hw, hy, ← hwire, henc, ← htt, htag, hp.seq, hp.macLen]
      simp only [List.append_assoc]
    | plain => rw [hsc, hrc] at hpc; exact absurd hpc (by simp [CiphPaired])
    | etm _ _ => rw [hsc, hrc] at hpc; exact absurd hpc (by simp [CiphPaired])
    | aead _ _ => rw [hsc, hrc] at hpc; exact absurd hpc (by simp [CiphPaired])

/-! ## authenticated configurations produce authentication records -/

theorem recv_auth_step {p : Prims} {r : Receiver p} {w rest : Bytes} {o' : RecvOut p}
    (hr : runBuf (readMessage r) w = .ok o' rest) (hA : AuthCfg r.ciph r.macLen) :
    (∃ e, o'.auth = some e) ∧ AuthCfg o'.st.ciph o'.st.macLen := by
  unfold readMessage at hr
  obtain ⟨hdr, y, _, _, hr⟩ := runBuf_read_inv hr
  cases hrc : r.ciph with
  | plain => rw [hrc] at hA; exact absurd hA (by simp [AuthCfg])
  | etm sd mk =>
    rw [hrc] at hr
    obtain ⟨_, _, _, _, _, _, _, hf⟩ := readEtm_ok_inv hr
    obtain ⟨h1, h2, _, _, _, h6, _⟩ := finish_ok_inv hf
    exact ⟨⟨_, h1⟩, by rw [h2]; trivial⟩
  | aead k iv =>
    rw [hrc] at hr
    obtain ⟨_, _, _, _, _, _, _, hf⟩ := readAead_ok_inv hr
    obtain ⟨h1, h2, _, _, _, h6, _⟩ := finish_ok_inv hf
    exact ⟨⟨_, h1⟩, by rw [h2]; trivial⟩
  | classic sd mk =>
    rw [hrc] at hr hA
    simp only [AuthCfg] at hA
    obtain ⟨_, _, _, _, _, _, _, _, hf⟩ := readClassic_ok_inv hr hA
    obtain ⟨h1, h2, _, _, _, h6, _⟩ := finish_ok_inv hf
    exact ⟨⟨_, h1⟩, by rw [h2, h6]; exact hA⟩

theorem send_auth_some {p : Prims} (W : Laws p) {s : Sender p} {r : Receiver p} (hp : PairedSt W s r)
    (hA : AuthCfg r.ciph r.macLen) {d rnd : Bytes} {o : SendOut p} (hs : sendMessage s d rnd = .ok o) :
    ∃ e, o.auth = some e := by
  obtain ⟨P, cc, bodyB, hen, _⟩ := send_shape hs
  have hpc := hp.ciph
  unfold encrypt at hen
  cases hsc : s.ciph with
  | plain =>
    cases hrc : r.ciph with
    | plain => rw [hrc] at hA; exact absurd hA (by simp [AuthCfg])
    | classic _ _ => rw [hsc, hrc] at hpc; exact absurd hpc (by simp [CiphPaired])
    | etm _ _ => rw [hsc, hrc] at hpc; exact absurd hpc (by simp [CiphPaired])
    | aead _ _ => rw [hsc, hrc] at hpc; exact absurd hpc (by simp [CiphPaired])
  | classic se mk =>
    cases hrc : r.ciph with
    | classic sd mk' =>
      rw [hrc] at hA
      simp only [AuthCfg] at hA
      rw [hsc] at hen
      simp only at hen
      have hinj := Except.ok.inj hen
      simp only [Prod.mk.injEq] at hinj
      have hsm : s.macLen > 0 := by rw [hp.macLen]; exact hA
      simp only [hsm, if_true] at hinj
      exact ⟨_, hinj.2.2.symm⟩
    | plain => rw [hsc, hrc] at hpc; exact absurd hpc (by simp [CiphPaired])
    | etm _ _ => rw [hsc, hrc] at hpc; exact absurd hpc (by simp [CiphPaired])
    | aead _ _ => rw [hsc, hrc] at hpc; exact absurd hpc (by simp [CiphPaired])
  | etm se mk =>
    rw [hsc] at hen
    simp only at hen
    have hinj := Except.ok.inj hen
    simp only [Prod.mk.injEq] at hinj
    exact ⟨_, hinj.2.2.symm⟩
  | aead k iv =>
    rw [hsc] at hen
    simp only at hen
    cases hi : incIv iv with
    | error e => rw [hi] at hen; cases hen
    | ok iv' =>
      rw [hi] at hen
      simp only at hen
      have hinj := Except.ok.inj hen
      simp only [Prod.mk.injEq] at hinj
      exact ⟨_, hinj.2.2.symm⟩

/-- a switch operation installs an authenticating configuration on the receiver -/
def OpAuth {p : Prims} : Op p → Prop
  | .setCipher _ m _ _ ci => AuthCfg ci m
  | _ => True

/-- **no forgery ⇒ prefix.**  `recvAll` on an arbitrary byte string `w`: if the k-th record the receiver verified
is the k-th record the sender authenticated (for all k), the delivered messages are a prefix of the sent ones,
and if the receiver got through all its reads it delivered exactly the sent ones. -/
theorem prefix_seq {p : Prims} (W : Laws p) (Bj : CipherBij p W.blk W.Paired) (ops : List (Op p)) :
    ∀ (s : Sender p) (r : Receiver p), PairedSt W s r → AuthCfg r.ciph r.macLen →
    (∀ op ∈ ops, OpOk W op ∧ OpAuth op) →
    ∀ s' wire log, sendAll s ops = .ok (s', wire, log) → ∀ w : Bytes,
    (∀ (k : Nat) (e : Auth), (recvAll r ops w).auths[k]? = some e → log[k]? = some e) →
      (recvAll r ops w).msgs <+: msgsOf s.seq ops ∧
      ((recvAll r ops w).stop = none → (recvAll r ops w).msgs = msgsOf s.seq ops) := by
  induction ops with
  | nil =>
    intro s r _ _ _ s' wire log _ w _
    exact ⟨by simp [recvAll, msgsOf], fun _ => rfl⟩
  | cons op ops ih =>
    intro s r hp hA hok s' wire log hs w hnf
    have hok' : ∀ op ∈ ops, OpOk W op ∧ OpAuth op := fun o ho => hok o (List.mem_cons_of_mem _ ho)
    have hop := hok op (List.mem_cons_self ..)
    cases op with
    | msg d rnd =>
      simp only [sendAll] at hs
      cases hsm : sendMessage s d rnd with
      | error e => rw [hsm] at hs; cases hs
      | ok o =>
        rw [hsm] at hs
        simp only at hs
        cases hsa : sendAll o.st ops with
        | error e => rw [hsa] at hs; cases hs
        | ok res =>
          obtain ⟨s1, w1, l1⟩ := res
          rw [hsa] at hs
          simp only at hs
          have := Except.ok.inj hs
          simp only [Prod.mk.injEq] at this
          obtain ⟨h1, h2, h3⟩ := this
          subst h1; subst h2; subst h3
          cases hrun : runBuf (readMessage r) w with
          | err e =>
            simp only [recvAll, hrun]
            exact ⟨List.nil_prefix, fun h => by cases h⟩
          | ok o' rest =>
            obtain ⟨⟨e', he'⟩, hA'⟩ := recv_auth_step hrun hA
            obtain ⟨e, he⟩ := send_auth_some W hp hA hsm
            simp only [recvAll, hrun] at hnf ⊢
            rw [he'] at hnf
            rw [he] at hnf
            have h0 := hnf 0 e' (by simp)
            simp at h0
            have hau : o'.auth = o.auth := by rw [he', he, h0]
            have hw := consumed_eq_wire W Bj hp hA hsm hrun hau
            obtain ⟨o'', c, body, hd, hrun', hmsg, _, hp', _⟩ := roundtrip1 W hp hsm rest
            rw [← hw, hrun] at hrun'
            injection hrun' with hoo _
            subst hoo
            have hseq' : o.st.seq = nextSeq s.seq := by
              obtain ⟨_, _, _, _, _, _, _, _, hst⟩ := sendMessage_ok hsm
              rw [hst]
            have hnf' : ∀ (k : Nat) (e : Auth), (recvAll o'.st ops rest).auths[k]? = some e → l1[k]? = some e := by
              intro k e hk
              have := hnf (k + 1) e (by simpa using hk)
              simpa using this
            obtain ⟨i1, i2⟩ := ih o.st o'.st hp' hA' hok' s1 w1 l1 hsa rest hnf'
            rw [hseq'] at i1 i2
            rw [hd]
            simp only [msgsOf, List.singleton_append, hmsg]
            exact ⟨(List.cons_prefix_cons).2 ⟨rfl, i1⟩, fun h => by rw [i2 h]⟩
    | setCipher b m sd co ci =>
      simp only [sendAll] at hs
      simp only [recvAll] at hnf ⊢
      have hp' : PairedSt W (s.setCipher b m sd co) (r.setCipher b m ci) :=
        ⟨rfl, rfl, hp.seq, hp.kex, hop.1.1, hop.1.2, hp.comp⟩
      exact ih _ _ hp' hop.2 hok' s' wire log hs w hnf
    | setComp zo zi =>
      simp only [sendAll] at hs
      simp only [recvAll] at hnf ⊢
      have hp' : PairedSt W { s with comp := zo } { r with decomp := zi } :=
        ⟨hp.block, hp.macLen, hp.seq, hp.kex, hp.blk4, hp.ciph, hop.1⟩
      exact ih _ _ hp' hA hok' s' wire log hs w hnf
    | resetSeq =>
      simp only [sendAll] at hs
      simp only [recvAll] at hnf ⊢
      have hp' : PairedSt W { s with seq := 0 } { r with seq := 0 } :=
        ⟨hp.block, hp.macLen, rfl, hp.kex, hp.blk4, hp.ciph, hp.comp⟩
      have := ih _ _ hp' hA hok' s' wire log hs w hnf
      simpa [msgsOf] using this
    | kexDone =>
      simp only [sendAll] at hs
      simp only [recvAll] at hnf ⊢
      have hp' : PairedSt W { s with kexDone := true } { r with kexDone := true } :=
        ⟨hp.block, hp.macLen, hp.seq, rfl, hp.blk4, hp.ciph, hp.comp⟩
      have := ih _ _ hp' hA hok' s' wire log hs w hnf
      simpa [msgsOf] using this

end PV.Packet
