/-
  PV.Model.PKeyFile — executable model of the private-key *container* readers (the code that runs on
  the base64-decoded body of a key file), as they are after the `fix:` commits of C37:

    PKey._read_private_key_openssh, PKey._uint32_cstruct_unpack, _unpad_openssh   (paramiko/pkey.py)
    RSAKey._decode_key / ECDSAKey._decode_key, OpenSSH-format branch               (rsakey.py, ecdsakey.py)
    Ed25519Key.__init__ (file routes) / _parse_signing_key_data                    (ed25519key.py)
    PKey._read_private_key_pem from the parsed headers on (Proc-Type / DEK-Info, unhexlify, decrypt,
    PKCS7 unpadding) and the DER branch of _decode_key

  NOT modelled: line scanning / armor regexes / header splitting / base64 (text level) — the
  correspondence feeds well-armored files whose *body* is arbitrary, the oracle covers the rest.

  Exceptions are values: `Except Cls α`; `try … except X` is `catching`.  Third-party calls are `Prims`
  (bcrypt.kdf, cipher decryption, building keys from numbers / DER / seeds) and may raise.
  Mathlib-free, total, executable.
-/
import PV.Base.Wire
import PV.Model.KeyUtf8
namespace PV.PKeyFile
open PV PV.Wire PV.KeyUtf8

/-! ## exception classes -/

inductive Cls
  | sshException
  | passwordRequired          -- PasswordRequiredException ⊂ AuthenticationException ⊂ SSHException
  | valueError
  | unicodeDecodeError        -- ⊂ ValueError
  | binasciiError             -- ⊂ ValueError
  | keyError
  | other (name : String)     -- anything else a primitive may raise (TypeError, ZeroDivisionError, …)
  deriving Repr, DecidableEq

def Cls.name : Cls → String
  | .sshException => "SSHException"
  | .passwordRequired => "PasswordRequiredException"
  | .valueError => "ValueError"
  | .unicodeDecodeError => "UnicodeDecodeError"
  | .binasciiError => "Error"
  | .keyError => "KeyError"
  | .other n => n

/-- the outcomes the property allows for a file that does not load -/
def Cls.isSSH : Cls → Bool
  | .sshException | .passwordRequired => true
  | _ => false

/-- `isinstance(e, ValueError)` -/
def Cls.isValueError : Cls → Bool
  | .valueError | .unicodeDecodeError | .binasciiError => true
  | _ => false

abbrev M := Except Cls

deriving instance DecidableEq for Except

/-- `try: m  except ValueError: raise SSHException` -/
def catchValueError {α : Type} (m : M α) : M α :=
  match m with
  | .ok a => .ok a
  | .error c => if c.isValueError then .error .sshException else .error c

/-- `try: m  except Exception: raise SSHException`  (SSHException itself included) -/
def catchAll {α : Type} (m : M α) : M α :=
  match m with
  | .ok a => .ok a
  | .error _ => .error .sshException

/-! ## primitives -/

inductive Mode | ctr | cbc
  deriving Repr, DecidableEq

structure Prims where
  /-- `bcrypt.kdf(password, salt, desired_key_bytes, rounds, ignore_few_rounds=True)` -/
  kdf : Bytes → Bytes → Nat → Nat → M Bytes
  /-- `Cipher(alg(key), mode(iv)).decryptor()`; `update(data) + finalize()`; `alg`: 0 = AES, 1 = 3DES -/
  decrypt : Nat → Mode → Bytes → Bytes → Bytes → M Bytes
  /-- OpenSSL-style `EVP_BytesToKey` with MD5: `util.generate_key_bytes(md5, salt, password, n)` -/
  md5kdf : Bytes → Bytes → Nat → Bytes
  /-- `RSAPrivateNumbers(…).private_key()` from `[n, e, d, iqmp, p, q]` (and `d % (p-1)`, `d % (q-1)`) -/
  rsaPriv : List Nat → M Unit
  /-- `ec.derive_private_key(scalar, curve)`; curve by key size -/
  ecDerive : Nat → Int → M Unit
  /-- `nacl.signing.SigningKey(seed).verify_key.encode()` -/
  edSeed : Bytes → M Bytes
  /-- `load_der_private_key(data)`: 0 = an RSA key, 1 = an EC key on a supported curve, 2 = an EC key on
      another curve, 3 = any other key type -/
  loadDer : Bytes → M Nat

/-- which classes the third-party calls are assumed to raise where paramiko only catches `ValueError` -/
structure PrimSpec (P : Prims) : Prop where
  kdf_cls : ∀ a b n r c, P.kdf a b n r = .error c → c.isValueError = true
  decrypt_cls : ∀ a m k iv d c, P.decrypt a m k iv d = .error c → c.isValueError = true
  seed_cls : ∀ s c, P.edSeed s = .error c → c.isValueError = true
  /-- `load_der_private_key` is wrapped in `except (ValueError, TypeError, UnsupportedAlgorithm)` -/
  der_cls : ∀ d c, P.loadDer d = .error c →
    c.isValueError = true ∨ c = .other "TypeError" ∨ c = .other "UnsupportedAlgorithm"

/-! ## names -/

def asc (s : String) : Bytes := s.toList.map fun c => UInt8.ofNat c.toNat

/-- `openssh-key-v1\0` -/
def magic : Bytes := [111, 112, 101, 110, 115, 115, 104, 45, 107, 101, 121, 45, 118, 49, 0]
def nNone : Bytes := [110, 111, 110, 101]
def nBcrypt : Bytes := [98, 99, 114, 121, 112, 116]
/-- `aes256-cbc`, `aes256-ctr` -/
def nAes256Cbc : Bytes := [97, 101, 115, 50, 53, 54, 45, 99, 98, 99]
def nAes256Ctr : Bytes := [97, 101, 115, 50, 53, 54, 45, 99, 116, 114]
def nSshEd25519 : Bytes := [115, 115, 104, 45, 101, 100, 50, 53, 53, 49, 57]

/-! ## `_uint32_cstruct_unpack` (slices truncate silently; a short uint32 is `struct.error`, which the
    function turns into SSHException) -/

def cU32 (d : Bytes) (i : Nat) : M (Nat × Nat) :=
  if i + 4 ≤ d.length then .ok (beVal ((d.drop i).take 4), i + 4) else .error .sshException

def cStr (d : Bytes) (i : Nat) : M (Bytes × Nat) :=
  match cU32 d i with
  | .error e => .error e
  | .ok (n, j) => .ok ((d.drop j).take n, j + n)

/-! ## `_unpad_openssh` -/

def padOk (d : Bytes) (p : Nat) : Bool :=
  (List.range p).all fun i => d.getD (d.length - p + i) 0 == UInt8.ofNat (i + 1)

def unpadOpenssh (d : Bytes) : M Bytes :=
  match d.getLast? with
  | none => .error .sshException
  | some last =>
    let p := last.toNat
    if 0x20 ≤ p ∧ p < 0x7F then .ok d
    else if p > 15 ∨ p > d.length then .error .sshException
    else if padOk d p then .ok (if p = 0 then [] else d.take (d.length - p))   -- `data[:-0]` is empty
    else .error .sshException

/-! ## `PKey._read_private_key_openssh` (RSAKey / ECDSAKey) -/

/-- the kdf / cipher dispatch and decryption of the private section -/
def osshDecrypt (legacy : Bool) (P : Prims) (cipher kdfname kdfopts blob : Bytes) (pw : Option Bytes) : M Bytes :=
  if kdfname = nBcrypt then
    let mode : M Mode :=
      if cipher = nAes256Cbc then .ok .cbc
      else if cipher = nAes256Ctr then .ok .ctr
      -- raise SSHException("unknown cipher `{}` …".format(cipher.decode("utf-8", "replace")));
      -- before the fix the name was decoded strictly and `UnicodeDecodeError` escaped (`legacy`)
      else if legacy ∧ ¬ utf8Valid cipher then .error .unicodeDecodeError else .error .sshException
    match mode with
    | .error e => .error e
    | .ok mode =>
      match pw with
      | none => .error .passwordRequired
      | some pw =>
        match cStr kdfopts 0 with
        | .error e => .error e
        | .ok (salt, k1) =>
        match cU32 kdfopts k1 with
        | .error e => .error e
        | .ok (rounds, _) =>
          -- try: kdf, decrypt  except ValueError: raise SSHException
          catchValueError
            (match P.kdf pw salt 48 rounds with
             | .error e => .error e
             | .ok kiv => P.decrypt 0 mode (kiv.take 32) (kiv.drop 32) blob)
  else if cipher = nNone ∧ kdfname = nNone then .ok blob
  else .error .sshException

def readOpenssh (legacy : Bool) (P : Prims) (data : Bytes) (pw : Option Bytes) : M Bytes :=
  if data.take 15 ≠ magic then .error .sshException else
  let d := data.drop 15
  match cStr d 0 with
  | .error e => .error e
  | .ok (cipher, i1) =>
  match cStr d i1 with
  | .error e => .error e
  | .ok (kdfname, i2) =>
  match cStr d i2 with
  | .error e => .error e
  | .ok (kdfopts, i3) =>
  match cU32 d i3 with
  | .error e => .error e
  | .ok (nkeys, i4) =>
  let rem := d.drop i4
  if nkeys > 1 then .error .sshException else
  match cStr rem 0 with
  | .error e => .error e
  | .ok (_pub, j1) =>
  match cStr rem j1 with
  | .error e => .error e
  | .ok (blob, _) =>
  match osshDecrypt legacy P cipher kdfname kdfopts blob pw with
  | .error e => .error e
  | .ok dec =>
  match cU32 dec 0 with
  | .error e => .error e
  | .ok (c1, a) =>
  match cU32 dec a with
  | .error e => .error e
  | .ok (c2, b) =>
  match cStr dec b with
  | .error e => .error e
  | .ok (_keytype, c) =>
    if c1 ≠ c2 then .error .sshException else unpadOpenssh (dec.drop c)

/-- `RSAKey._decode_key`, OpenSSH branch: six `i` fields, then the key is built; every exception of
    that block becomes SSHException -/
def rsaFromKeydata (P : Prims) (kd : Bytes) : M Unit :=
  catchAll
    (match cStr kd 0 with
     | .error e => .error e
     | .ok (n, i1) =>
     match cStr kd i1 with
     | .error e => .error e
     | .ok (e, i2) =>
     match cStr kd i2 with
     | .error e => .error e
     | .ok (d, i3) =>
     match cStr kd i3 with
     | .error e => .error e
     | .ok (iq, i4) =>
     match cStr kd i4 with
     | .error e => .error e
     | .ok (p, i5) =>
     match cStr kd i5 with
     | .error e => .error e
     | .ok (q, _) => P.rsaPriv [beVal n, beVal e, beVal d, beVal iq, beVal p, beVal q])

def curveBits (name : Bytes) : Option Nat :=
  if name = [110, 105, 115, 116, 112, 50, 53, 54] then some 256 else if name = [110, 105, 115, 116, 112, 51, 56, 52] then some 384
  else if name = [110, 105, 115, 116, 112, 53, 50, 49] then some 521 else none

/-- `ECDSAKey._decode_key`, OpenSSH branch (a `Message` reader inside `try … except Exception`) -/
def ecFromKeydata (P : Prims) (kd : Bytes) : M Unit :=
  catchAll
    (let r : Rd := { content := kd, pos := 0 }
     let (cn, r1) := r.getString
     if ¬ utf8Valid cn then .error .unicodeDecodeError else
     let (_ver, r2) := r1.getString
     let (sb, _) := r2.getString
     match curveBits cn with
     | none => .error .sshException
     | some bits => P.ecDerive bits (inflate sb))

inductive Kind | rsa | ec | ed
  deriving Repr, DecidableEq

/-- an OpenSSH-format file read by `RSAKey` / `ECDSAKey` -/
def loadOpenssh (legacy : Bool) (P : Prims) (k : Kind) (data : Bytes) (pw : Option Bytes) : M Unit :=
  match readOpenssh legacy P data pw with
  | .error e => .error e
  | .ok kd =>
    match k with
    | .rsa => rsaFromKeydata P kd
    | .ec => ecFromKeydata P kd
    | .ed => .error .sshException

/-! ## `Ed25519Key._parse_signing_key_data` -/

/-- `Transport._cipher_info`: name ↦ (algorithm id, key size, block size, mode — `none` for the AEAD
    entries, which have no `"mode"` key) -/
def cipherInfo : List (Bytes × Nat × Nat × Nat × Option Mode) :=
  [ ([97, 101, 115, 49, 50, 56, 45, 99, 116, 114], 0, 16, 16, some .ctr), ([97, 101, 115, 49, 57, 50, 45, 99, 116, 114], 0, 24, 16, some .ctr),
    ([97, 101, 115, 50, 53, 54, 45, 99, 116, 114], 0, 32, 16, some .ctr), ([97, 101, 115, 49, 50, 56, 45, 99, 98, 99], 0, 16, 16, some .cbc),
    ([97, 101, 115, 49, 57, 50, 45, 99, 98, 99], 0, 24, 16, some .cbc), ([97, 101, 115, 50, 53, 54, 45, 99, 98, 99], 0, 32, 16, some .cbc),
    ([51, 100, 101, 115, 45, 99, 98, 99], 1, 24, 8, some .cbc), ([97, 101, 115, 49, 50, 56, 45, 103, 99, 109, 64, 111, 112, 101, 110, 115, 115, 104, 46, 99, 111, 109], 2, 16, 16, none),
    ([97, 101, 115, 50, 53, 54, 45, 103, 99, 109, 64, 111, 112, 101, 110, 115, 115, 104, 46, 99, 111, 109], 2, 32, 16, none) ]

def cipherLookup (name : Bytes) : Option (Nat × Nat × Nat × Option Mode) :=
  (cipherInfo.find? fun e => e.1 == name).map (·.2)

def getTextM (r : Rd) : M (Bytes × Rd) :=
  let (s, r') := r.getString
  if utf8Valid s then .ok (s, r') else .error .unicodeDecodeError

/-- `ciphername in _cipher_info` (before the fix) / `… and "mode" in _cipher_info[ciphername]` -/
def cipherUsable (legacy : Bool) (name : Bytes) : Bool :=
  match cipherLookup name with
  | none => false
  | some (_, _, _, mode) => legacy || mode.isSome

/-- first loop: the public keys -/
def edPublics : Nat → Rd → List Bytes → M (List Bytes × Rd)
  | 0, m, acc => .ok (acc.reverse, m)
  | n + 1, m, acc =>
    let (pb, m1) := m.getString
    match getTextM { content := pb, pos := 0 } with
    | .error e => .error e
    | .ok (t, p1) =>
      if t ≠ nSshEd25519 then .error .sshException
      else edPublics n m1 ((p1.getString).1 :: acc)

/-- second loop: the private section; returns (seed, verify key) per key -/
def edPrivates (P : Prims) : Nat → Nat → Rd → List Bytes → List (Bytes × Bytes) → M (List (Bytes × Bytes))
  | 0, _, _, _, acc => .ok acc.reverse
  | n + 1, i, m, pubs, acc =>
    match getTextM m with
    | .error e => .error e
    | .ok (t, m1) =>
      if t ≠ nSshEd25519 then .error .sshException else
      let (pub, m2) := m1.getString
      let (kd, m3) := m2.getString
      match P.edSeed (kd.take 32) with
      | .error e => .error e
      | .ok vk =>
        if vk = pub ∧ pub = pubs.getD i [] ∧ pubs.getD i [] = kd.drop 32 then
          edPrivates P n (i + 1) (m3.getString).2 pubs ((kd.take 32, vk) :: acc)
        else .error .sshException

/-- the `kdfname` dispatch: (salt, rounds) -/
def edKdfPart (cipher kdfname kdfopts : Bytes) (pw : Option Bytes) : M (Bytes × Nat) :=
  if kdfname = nNone then
    if kdfopts ≠ [] ∨ cipher ≠ nNone then .error .sshException else .ok ([], 0)
  else if kdfname = nBcrypt then
    match pw with
    | none => .error .passwordRequired
    | some p =>
      if p = [] then .error .passwordRequired
      else
        let k : Rd := { content := kdfopts, pos := 0 }
        let (salt, k1) := k.getString
        .ok (salt, (k1.getInt).1)
  else .error .sshException

/-- decryption of the private section -/
def edPlain (P : Prims) (cipher ct salt : Bytes) (rounds : Nat) (pw : Option Bytes) : M Bytes :=
  if cipher = nNone then .ok ct
  else
    match cipherLookup cipher with
    | none => .error .sshException
    | some (alg, ks, bs, mode) =>
      match P.kdf (pw.getD []) salt (ks + bs) rounds with
      | .error e => .error e
      | .ok key =>
        match mode with
        | none => .error .keyError                     -- `cipher["mode"]` on an AEAD entry
        | some md => P.decrypt alg md (key.take ks) (key.drop ks) ct

/-- the unencrypted header: (cipher name, salt, rounds, number of keys, public keys, private ciphertext) -/
def edHeader (legacy : Bool) (data : Bytes) (pw : Option Bytes) : M (Bytes × Bytes × Nat × Nat × List Bytes × Bytes) :=
  let m0 : Rd := { content := data, pos := 0 }
  let (mg, m1) := m0.getBytes 15
  if mg ≠ magic then .error .sshException else
  match getTextM m1 with
  | .error e => .error e
  | .ok (cipher, m2) =>
  match getTextM m2 with
  | .error e => .error e
  | .ok (kdfname, m3) =>
  let (kdfopts, m4) := m3.getString
  let (nkeys, m5) := m4.getInt
  match edKdfPart cipher kdfname kdfopts pw with
  | .error e => .error e
  | .ok (salt, rounds) =>
  -- unknown ciphers and (since the fix) the AEAD entries, which have no "mode", are refused
  if cipher ≠ nNone ∧ ¬ cipherUsable legacy cipher then .error .sshException else
  match edPublics nkeys m5 [] with
  | .error e => .error e
  | .ok (pubs, m6) => .ok (cipher, salt, rounds, nkeys, pubs, (m6.getString).1)

/-- the decrypted private section -/
def edBody (P : Prims) (pd : Bytes) (nkeys : Nat) (pubs : List Bytes) : M (Bytes × Bytes) :=
  match unpadOpenssh pd with
  | .error e => .error e
  | .ok body =>
  let b0 : Rd := { content := body, pos := 0 }
  let (c1, b1) := b0.getInt
  let (c2, b2) := b1.getInt
  if c1 ≠ c2 then .error .sshException else
  match edPrivates P nkeys 0 b2 pubs [] with
  | .error e => .error e
  | .ok keys =>
    match keys with
    | [k] => .ok k
    | _ => .error .sshException

def edParse (legacy : Bool) (P : Prims) (data : Bytes) (pw : Option Bytes) : M (Bytes × Bytes) :=
  match edHeader legacy data pw with
  | .error e => .error e
  | .ok (cipher, salt, rounds, nkeys, pubs, ct) =>
  match edPlain P cipher ct salt rounds pw with
  | .error e => .error e
  | .ok pd => edBody P pd nkeys pubs

/-- `Ed25519Key(file_obj=…)`: the parse wrapped in `except ValueError: raise SSHException` -/
def loadEd (legacy : Bool) (P : Prims) (data : Bytes) (pw : Option Bytes) : M (Bytes × Bytes) :=
  catchValueError (edParse legacy P data pw)

/-! ## `_read_private_key_pem` from the parsed headers on, and the DER branch of `_decode_key` -/

def hexVal (c : UInt8) : Option Nat :=
  let n := c.toNat
  if 48 ≤ n ∧ n ≤ 57 then some (n - 48) else if 97 ≤ n ∧ n ≤ 102 then some (n - 87)
  else if 65 ≤ n ∧ n ≤ 70 then some (n - 55) else none

/-- `binascii.unhexlify` -/
def unhexlify : Bytes → M Bytes
  | [] => .ok []
  | [_] => .error .binasciiError
  | a :: b :: r =>
    match hexVal a, hexVal b, unhexlify r with
    | some x, some y, .ok t => .ok (UInt8.ofNat (x * 16 + y) :: t)
    | _, _, _ => .error .binasciiError

/-- `padding.PKCS7(bits).unpadder()`: `update(d) + finalize()`; every failure is `ValueError` -/
def pkcs7Unpad (block : Nat) (d : Bytes) : M Bytes :=
  match d.getLast? with
  | none => .error .valueError
  | some last =>
    let p := last.toNat
    if d.length % block ≠ 0 ∨ p = 0 ∨ p > block then .error .valueError
    else if (d.drop (d.length - p)).all (· == last) then .ok (d.take (d.length - p))
    else .error .valueError

/-- `_CIPHER_TABLE`: name ↦ (algorithm id, key size, block size in bytes) -/
def pemCipher (name : Bytes) : Option (Nat × Nat × Nat) :=
  if name = [65, 69, 83, 45, 49, 50, 56, 45, 67, 66, 67] then some (0, 16, 16) else if name = [65, 69, 83, 45, 50, 53, 54, 45, 67, 66, 67] then some (0, 32, 16)
  else if name = [68, 69, 83, 45, 69, 68, 69, 51, 45, 67, 66, 67] then some (1, 24, 8) else none

/-- Python `s.split(sep)` for a one-byte separator -/
def splitOn1 (sep : UInt8) (s : Bytes) : List Bytes :=
  go s []
where
  go : Bytes → Bytes → List Bytes
    | [], acc => [acc.reverse]
    | c :: cs, acc => if c = sep then acc.reverse :: go cs [] else go cs (c :: acc)

/-- the part of `_read_private_key_pem` after the headers and the base64 body are known -/
def pemBody (P : Prims) (procType dekInfo : Option Bytes) (body : Bytes) (pw : Option Bytes) : M Bytes :=
  match procType with
  | none => .ok body
  | some pt =>
    if pt ≠ [52, 44, 69, 78, 67, 82, 89, 80, 84, 69, 68] then .error .sshException else
    match dekInfo with
    | none => .error .sshException                     -- `except:` around `headers["dek-info"].split(",")`
    | some di =>
      match splitOn1 44 di with
      | [enc, saltstr] =>
        match pemCipher enc with
        | none => .error .sshException
        | some (alg, ks, bs) =>
          match pw with
          | none => .error .passwordRequired
          | some pw =>
            match unhexlify saltstr with
            | .error _ => .error .sshException       -- `except binascii.Error`
            | .ok salt =>
              catchValueError
                (match P.decrypt alg .cbc (P.md5kdf salt pw ks) salt body with
                 | .error e => .error e
                 | .ok dd => pkcs7Unpad bs dd)
      | _ => .error .sshException

/-- `_decode_key`, DER branch: `load_der_private_key` under `except (ValueError, TypeError,
    UnsupportedAlgorithm)`, then the type / curve checks -/
def fromDer (P : Prims) (k : Kind) (der : Bytes) : M Unit :=
  match P.loadDer der with
  | .error c =>
    if c.isValueError ∨ c = .other "TypeError" ∨ c = .other "UnsupportedAlgorithm" ∨
        (k = .ec ∧ c = .other "AssertionError") then .error .sshException
    else .error c
  | .ok t =>
    match k with
    | .rsa => if t = 0 then .ok () else .error .sshException
    | .ec => if t = 1 then .ok () else .error .sshException
    | .ed => .error .sshException

def loadPem (P : Prims) (k : Kind) (procType dekInfo : Option Bytes) (body : Bytes) (pw : Option Bytes) : M Unit :=
  match pemBody P procType dekInfo body pw with
  | .error e => .error e
  | .ok der => fromDer P k der

end PV.PKeyFile
