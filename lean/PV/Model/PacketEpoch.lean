/-
  PV.Model.PacketEpoch — within one key epoch of a MAC mode (classic with a MAC, or encrypt-then-MAC) and fewer than
  2^32 packets, the positional no-forgery hypothesis of C02 follows from the set-membership form
  ("whatever verifies was authenticated by the sender"), because the sequence number is part of every record.
-/
import PV.Model.PacketAuth
namespace PV.Packet
open PV

def MacModeIn {p : Prims} (c : InC p) (macLen : Nat) : Prop :=
  match c with
  | .etm _ _ => True
  | .classic _ _ => 0 < macLen
  | _ => False

def MacModeOut {p : Prims} (c : OutC p) (macLen : Nat) : Prop :=
  match c with
  | .etm _ _ => True
  | .classic _ _ => 0 < macLen
  | _ => False

def MsgOnly {p : Prims} (ops : List (Op p)) : Prop := ∀ op ∈ ops, ∃ d rnd, op = .msg d rnd

theorem send_auth_seq {p : Prims} {s : Sender p} {d rnd : Bytes} {o : SendOut p}
    (hs : sendMessage s d rnd = .ok o) (hm : MacModeOut s.ciph s.macLen) :
    (∃ c, o.auth = some ⟨s.seq, [], c⟩) ∧ MacModeOut o.st.ciph o.st.macLen ∧ o.st.seq = nextSeq s.seq := by
  obtain ⟨_, _, P, cc, a, _, hen, hauth, hst⟩ := sendMessage_ok hs
  unfold encrypt at hen
  cases hsc : s.ciph with
  | plain => rw [hsc] at hm; exact absurd hm (by simp [MacModeOut])
  | aead _ _ => rw [hsc] at hm; exact absurd hm (by simp [MacModeOut])
  | classic se mk =>
    rw [hsc] at hen hm
    simp only [MacModeOut] at hm
    simp only at hen
    have hinj := Except.ok.inj hen
    simp only [Prod.mk.injEq] at hinj
    have hsm : s.macLen > 0 := hm
    simp only [hsm, if_true] at hinj
    refine ⟨⟨_, by rw [hauth, ← hinj.2.2]⟩, ?_, by rw [hst]⟩
    rw [hst, ← hinj.1]; exact hm
  | etm se mk =>
    rw [hsc] at hen
    simp only at hen
    have hinj := Except.ok.inj hen
    simp only [Prod.mk.injEq] at hinj
    refine ⟨⟨_, by rw [hauth, ← hinj.2.2]⟩, ?_, by rw [hst]⟩
    rw [hst, ← hinj.1]; trivial

theorem recv_auth_seq {p : Prims} {r : Receiver p} {w rest : Bytes} {o' : RecvOut p}
    (hr : runBuf (readMessage r) w = .ok o' rest) (hm : MacModeIn r.ciph r.macLen) :
    (∃ c, o'.auth = some ⟨r.seq, [], c⟩) ∧ MacModeIn o'.st.ciph o'.st.macLen ∧ o'.st.seq = nextSeq r.seq := by
  unfold readMessage at hr
  obtain ⟨hdr, y, _, _, hr⟩ := runBuf_read_inv hr
  cases hrc : r.ciph with
  | plain => rw [hrc] at hm; exact absurd hm (by simp [MacModeIn])
  | aead _ _ => rw [hrc] at hm; exact absurd hm (by simp [MacModeIn])
  | etm sd mk =>
    rw [hrc] at hr
    obtain ⟨_, _, _, _, _, _, _, hf⟩ := readEtm_ok_inv hr
    obtain ⟨h1, h2, h3, _, _, h6, _⟩ := finish_ok_inv hf
    exact ⟨⟨_, h1⟩, by rw [h2]; trivial, h3⟩
  | classic sd mk =>
    rw [hrc] at hr hm
    simp only [MacModeIn] at hm
    obtain ⟨_, _, _, _, _, _, _, _, hf⟩ := readClassic_ok_inv hr hm
    obtain ⟨h1, h2, h3, _, _, h6, _⟩ := finish_ok_inv hf
    exact ⟨⟨_, h1⟩, by rw [h2, h6]; exact hm, h3⟩

theorem nextSeq_add (n k : Nat) : (nextSeq n + k) % 4294967296 = (n + (k + 1)) % 4294967296 := by
  unfold nextSeq; omega

theorem nextSeq_lt (n : Nat) : nextSeq n < 4294967296 := by unfold nextSeq; omega

/-- the k-th record of the sender's log carries sequence number `seq₀ + k` -/
theorem log_seqs {p : Prims} (ops : List (Op p)) : ∀ (s : Sender p), MacModeOut s.ciph s.macLen → MsgOnly ops →
    s.seq < 4294967296 → ∀ s' wire log, sendAll s ops = .ok (s', wire, log) →
    log.length = ops.length ∧
    ∀ (k : Nat) (e : Auth), log[k]? = some e → e.seq = (s.seq + k) % 4294967296 := by
  induction ops with
  | nil =>
    intro s _ _ _ s' wire log hs
    simp only [sendAll] at hs
    have := Except.ok.inj hs
    simp only [Prod.mk.injEq] at this
    obtain ⟨_, _, h3⟩ := this
    subst h3
    exact ⟨rfl, fun k e h => by simp at h⟩
  | cons op ops ih =>
    intro s hm hmo hlt s' wire log hs
    obtain ⟨d, rnd, rfl⟩ := hmo op (List.mem_cons_self ..)
    have hmo' : MsgOnly ops := fun o ho => hmo o (List.mem_cons_of_mem _ ho)
    simp only [sendAll] at hs
    cases hsm : sendMessage s d rnd with
    | error e => rw [hsm] at hs; cases hs
    | ok o =>
      rw [hsm] at hs
      simp only at hs
      cases hsa : sendAll o.st ops with
      | error e => rw [hsa] at hs; cases hs
      | ok res =>
        obtain ⟨s1, w1, l1⟩ := res
        rw [hsa] at hs
        simp only at hs
        have := Except.ok.inj hs
        simp only [Prod.mk.injEq] at this
        obtain ⟨_, _, h3⟩ := this
        subst h3
        obtain ⟨⟨c, hc⟩, hm', hsq⟩ := send_auth_seq hsm hm
        obtain ⟨i1, i2⟩ := ih o.st hm' hmo' (by rw [hsq]; exact nextSeq_lt _) s1 w1 l1 hsa
        rw [hc]
        refine ⟨by simp [i1], ?_⟩
        intro k e hk
        cases k with
        | zero =>
          simp at hk
          rw [← hk]
          simp only [Nat.add_zero]
          exact (Nat.mod_eq_of_lt hlt).symm
        | succ k =>
          simp at hk
          rw [i2 k e hk, hsq, nextSeq_add]

/-- the k-th record the receiver verifies — on any byte string — carries sequence number `seq₀ + k` -/
theorem auths_seqs {p : Prims} (ops : List (Op p)) : ∀ (r : Receiver p) (w : Bytes), MacModeIn r.ciph r.macLen →
    MsgOnly ops → r.seq < 4294967296 →
    (recvAll r ops w).auths.length ≤ ops.length ∧
    ∀ (k : Nat) (e : Auth), (recvAll r ops w).auths[k]? = some e → e.seq = (r.seq + k) % 4294967296 := by
  induction ops with
  | nil => intro r w _ _ _; exact ⟨by simp [recvAll], fun k e h => by simp [recvAll] at h⟩
  | cons op ops ih =>
    intro r w hm hmo hlt
    obtain ⟨d, rnd, rfl⟩ := hmo op (List.mem_cons_self ..)
    have hmo' : MsgOnly ops := fun o ho => hmo o (List.mem_cons_of_mem _ ho)
    cases hrun : runBuf (readMessage r) w with
    | err e => simp only [recvAll, hrun]; exact ⟨by simp, fun k e h => by simp at h⟩
    | ok o' rest =>
      obtain ⟨⟨c, hc⟩, hm', hsq⟩ := recv_auth_seq hrun hm
      obtain ⟨i1, i2⟩ := ih o'.st rest hm' hmo' (by rw [hsq]; exact nextSeq_lt _)
      simp only [recvAll, hrun, hc]
      refine ⟨by simp; omega, ?_⟩
      intro k e hk
      cases k with
      | zero =>
        simp at hk
        rw [← hk]
        simp only [Nat.add_zero]
        exact (Nat.mod_eq_of_lt hlt).symm
      | succ k =>
        simp at hk
        rw [i2 k e hk, hsq, nextSeq_add]

theorem macModeOut_of_paired {p : Prims} (W : Laws p) {s : Sender p} {r : Receiver p} (hp : PairedSt W s r)
    (hm : MacModeIn r.ciph r.macLen) : MacModeOut s.ciph s.macLen := by
  have hpc := hp.ciph
  cases hrc : r.ciph with
  | plain => rw [hrc] at hm; exact absurd hm (by simp [MacModeIn])
  | aead _ _ => rw [hrc] at hm; exact absurd hm (by simp [MacModeIn])
  | etm sd mk =>
    cases hsc : s.ciph with
    | etm _ _ => trivial
    | plain => rw [hsc, hrc] at hpc; exact absurd hpc (by simp [CiphPaired])
    | classic _ _ => rw [hsc, hrc] at hpc; exact absurd hpc (by simp [CiphPaired])
    | aead _ _ => rw [hsc, hrc] at hpc; exact absurd hpc (by simp [CiphPaired])
  | classic sd mk =>
    rw [hrc] at hm
    cases hsc : s.ciph with
    | classic _ _ => simp only [MacModeOut]; rw [hp.macLen]; exact hm
    | plain => rw [hsc, hrc] at hpc; exact absurd hpc (by simp [CiphPaired])
    | etm _ _ => rw [hsc, hrc] at hpc; exact absurd hpc (by simp [CiphPaired])
    | aead _ _ => rw [hsc, hrc] at hpc; exact absurd hpc (by simp [CiphPaired])

/-- membership form ⇒ positional form, inside one MAC-mode key epoch of at most 2^32 packets -/
theorem positional_of_membership {p : Prims} (W : Laws p) (ops : List (Op p)) (s : Sender p) (r : Receiver p)
    (hp : PairedSt W s r) (hm : MacModeIn r.ciph r.macLen) (hmo : MsgOnly ops)
    (hlen : ops.length ≤ 4294967296) (hlt : s.seq < 4294967296)
    (s' : Sender p) (wire : Bytes) (log : List Auth) (hs : sendAll s ops = .ok (s', wire, log)) (w : Bytes)
    (hmem : ∀ e ∈ (recvAll r ops w).auths, e ∈ log) :
    ∀ (k : Nat) (e : Auth), (recvAll r ops w).auths[k]? = some e → log[k]? = some e := by
  intro k e hk
  obtain ⟨l1, l2⟩ := log_seqs ops s (macModeOut_of_paired W hp hm) hmo hlt s' wire log hs
  obtain ⟨a1, a2⟩ := auths_seqs ops r w hm hmo (by rw [← hp.seq]; exact hlt)
  have hin : e ∈ log := hmem e (List.mem_of_getElem? hk)
  obtain ⟨j, hj⟩ := List.mem_iff_getElem?.1 hin
  have hjl : j < log.length := by
    cases hlj : decide (j < log.length) with
    | true => exact of_decide_eq_true hlj
    | false =>
      have : log.length ≤ j := Nat.le_of_not_lt (of_decide_eq_false hlj)
      rw [List.getElem?_eq_none this] at hj
      cases hj
  have hkl : k < (recvAll r ops w).auths.length := by
    cases hlk : decide (k < (recvAll r ops w).auths.length) with
    | true => exact of_decide_eq_true hlk
    | false =>
      have : (recvAll r ops w).auths.length ≤ k := Nat.le_of_not_lt (of_decide_eq_false hlk)
      rw [List.getElem?_eq_none this] at hk
      cases hk
  have e1 := l2 j e hj
  have e2 := a2 k e hk
  rw [← hp.seq] at e2
  have : j = k := by omega
  rw [← this]; exact hj

end PV.Packet
