/-
  PV.Model.Packet — executable model of `paramiko.packet.Packetizer`:
  `_build_packet`, `send_message`, `read_all`, `read_message` (classic / encrypt-then-MAC / AEAD paths),
  `_inc_iv_counter`, `set_outbound_cipher` / `set_inbound_cipher`, compressor switches, sequence numbers,
  and `util.constant_time_bytes_eq`.

  Cipher, AEAD, MAC and compressor are *parameters* (`Prims`); their laws are in PacketLemmas.
  Configurations are the ones `Transport._activate_outbound/_activate_inbound` can produce
  (engine absent | stream engine + MAC, classic or etm | AEAD engine + IV); the flag pair etm∧aead and
  engine/flag mismatches are not represented.  Not modelled here: rekey counters / `need_rekey`
  (property C10), keepalive, handshake timer, logging.
  Mathlib-free.
-/
import PV.Base.Bytes
namespace PV.Packet
open PV

/-- error kinds (exception class of the real code) -/
inductive Err
  | eof            -- EOFError: socket returned b"" (stream exhausted): "waits for more data / fails"
  | badBlocking    -- SSHException("Invalid packet blocking")
  | macMismatch    -- SSHException("Mismatched MAC")
  | invalidTag     -- cryptography InvalidTag from AESGCM.decrypt
  | seqRollover    -- SSHException("Sequence number rolled over during initial kex!")
  | indexError     -- IndexError: empty message / empty packet (`data[0]`, `packet[0]`, `payload[0]`)
  | structError    -- struct.error (length field ≥ 2^32, padding > 255, short header)
  | overflow       -- OverflowError in `_inc_iv_counter` (64-bit invocation counter exhausted)
  | decompress     -- zlib.error
  | zeroDiv        -- ZeroDivisionError (block size 0)
  | ignoringRekey  -- SSHException("Remote transport is ignoring rekey requests")
  deriving Repr, DecidableEq

structure Prims where
  /-- `CipherContext` (encryptor or decryptor) -/
  CSt : Type
  enc : CSt → Bytes → CSt × Bytes
  dec : CSt → Bytes → CSt × Bytes
  /-- AEAD engine (`AESGCM(key)`) : `encrypt(iv, data, aad)` / `decrypt(iv, data, aad)` -/
  AKey : Type
  aenc : AKey → Bytes → Bytes → Bytes → Bytes
  adec : AKey → Bytes → Bytes → Bytes → Option Bytes
  /-- `compute_hmac(key, msg, digest_class)` with (key, digest_class) as one value -/
  MKey : Type
  mac : MKey → Bytes → Bytes
  /-- `ZlibCompressor` / `ZlibDecompressor` objects -/
  ZSt : Type
  comp : ZSt → Bytes → ZSt × Bytes
  decomp : ZSt → Bytes → Option (ZSt × Bytes)

/-! ## `_build_packet` -/

/-- `padding = 3 + bsize - ((len(payload) + addlen) % bsize)` -/
def padLen (block addlen l : Nat) : Nat := 3 + block - (l + addlen) % block

/-- the bytes `os.urandom(padding)` returned (an input of the model), fitted to the length asked for -/
def fitPad (rnd : Bytes) (n : Nat) : Bytes := (rnd ++ zeros n).take n

@[simp] theorem fitPad_length (rnd : Bytes) (n : Nat) : (fitPad rnd n).length = n := by
  simp [fitPad, zeros]

/-- `_build_packet(payload)`; `zeroPad` = `self.__sdctr_out or self.__block_engine_out is None` -/
def buildPacket (block addlen : Nat) (zeroPad : Bool) (payload rnd : Bytes) : Except Err Bytes :=
  if block = 0 then .error .zeroDiv else
  let pad := padLen block addlen payload.length
  if payload.length + pad + 1 ≥ 4294967296 ∨ pad > 255 then .error .structError else
  .ok (be32 (payload.length + pad + 1) ++ [UInt8.ofNat pad] ++ payload
        ++ (if zeroPad then zeros pad else fitPad rnd pad))

/-! ## integer kernels (proved equal to the definitions generated from the Python AST, Props/C03) -/

def nextSeq (n : Nat) : Nat := (n + 1) % 4294967296
def remainingEtm (psize block : Nat) : Int := (psize : Int) - block + 4
def remainingAead (psize block macLen : Nat) : Int := (psize : Int) - block + 4 + macLen
def badBlocking (psize leftover block : Nat) : Bool := decide (((psize : Int) - leftover) % block ≠ 0)
def classicSize (psize macLen leftover : Nat) : Int := (psize : Int) + macLen - leftover
def zeroPadCond (sdctr engineNone : Bool) : Bool := sdctr || engineNone

/-! ## sender -/

inductive OutC (p : Prims) where
  | plain
  | classic (st : p.CSt) (mk : p.MKey)
  | etm (st : p.CSt) (mk : p.MKey)
  | aead (k : p.AKey) (iv : Bytes)

structure Sender (p : Prims) where
  block : Nat := 8
  macLen : Nat := 0
  sdctr : Bool := false
  ciph : OutC p := .plain
  comp : Option p.ZSt := none
  seq : Nat := 0
  kexDone : Bool := false

def OutC.addlen {p : Prims} : OutC p → Nat
  | .etm _ _ => 4
  | .aead _ _ => 4
  | _ => 8

def OutC.isPlain {p : Prims} : OutC p → Bool
  | .plain => true
  | _ => false

/-- `_inc_iv_counter` -/
def incIv (iv : Bytes) : Except Err Bytes :=
  let c := beVal (iv.drop 4) + 1
  if c ≥ 18446744073709551616 then .error .overflow else .ok (iv.take 4 ++ beBytes 8 c)

/-- what the MAC / AEAD tag authenticates: (sequence number | nonce, bytes) -/
structure Auth where
  seq : Nat
  nonce : Bytes
  content : Bytes
  deriving Repr, DecidableEq

structure SendOut (p : Prims) where
  st : Sender p
  wire : Bytes
  auth : Option Auth

/-- `self.__compress_engine_out(data)` when a compressor is set -/
def compOut {p : Prims} (zs : Option p.ZSt) (data : Bytes) : Option p.ZSt × Bytes :=
  match zs with
  | none => (none, data)
  | some z => (some (p.comp z data).1, (p.comp z data).2)

/-- the encryption / MAC step of `send_message`: new engine state, bytes for the socket, authenticated record -/
def encrypt {p : Prims} (s : Sender p) (packet : Bytes) : Except Err (OutC p × Bytes × Option Auth) :=
  match s.ciph with
  | .plain => .ok (.plain, packet, none)
  | .classic st mk =>
    let r := p.enc st packet
    .ok (.classic r.1 mk, r.2 ++ (p.mac mk (be32 s.seq ++ packet)).take s.macLen,
         if s.macLen > 0 then some ⟨s.seq, [], packet⟩ else none)
  | .etm st mk =>
    let r := p.enc st (packet.drop 4)
    let out := packet.take 4 ++ r.2
    .ok (.etm r.1 mk, out ++ (p.mac mk (be32 s.seq ++ out)).take s.macLen, some ⟨s.seq, [], out⟩)
  | .aead k iv =>
    let out := packet.take 4 ++ p.aenc k iv (packet.drop 4) (packet.take 4)
    match incIv iv with
    | .error e => .error e
    | .ok iv' => .ok (.aead k iv', out, some ⟨s.seq, iv, out⟩)

/-- `send_message(data)`; `rnd` = what `os.urandom` returns for this packet -/
def sendMessage {p : Prims} (s : Sender p) (data rnd : Bytes) : Except Err (SendOut p) :=
  if data.isEmpty then .error .indexError else
  let cz := compOut s.comp data
  match buildPacket s.block s.ciph.addlen (zeroPadCond s.sdctr s.ciph.isPlain) cz.2 rnd with
  | .error e => .error e
  | .ok packet =>
    match encrypt s packet with
    | .error e => .error e
    | .ok (c, out, a) =>
      if nextSeq s.seq = 0 ∧ ¬ s.kexDone then .error .seqRollover
      else .ok { st := { s with ciph := c, comp := cz.1, seq := nextSeq s.seq }, wire := out, auth := a }

/-! ## receiver -/

inductive InC (p : Prims) where
  | plain
  | classic (st : p.CSt) (mk : p.MKey)
  | etm (st : p.CSt) (mk : p.MKey)
  | aead (k : p.AKey) (iv : Bytes)

structure Receiver (p : Prims) where
  block : Nat := 8
  macLen : Nat := 0
  ciph : InC p := .plain
  decomp : Option p.ZSt := none
  seq : Nat := 0
  kexDone : Bool := false

structure Msg where
  cmd : UInt8
  payload : Bytes       -- `Message(payload[1:])`
  seqno : Nat
  deriving Repr, DecidableEq

/-- `util.constant_time_bytes_eq` -/
def ctEq (a b : Bytes) : Bool :=
  if a.length ≠ b.length then false
  else (List.zipWith (fun x y => x ^^^ y) a b).foldl (fun r x => r ||| x) 0 == 0

/-- Python `l[1:e]` for a possibly negative `e` -/
def pySlice1 (l : Bytes) (e : Int) : Bytes :=
  let e' : Nat := if e < 0 then (e + l.length).toNat else e.toNat
  (l.take e').drop 1

/-- computations that call `read_all(n, check_rekey)` -/
inductive Rd (α : Type) where
  | ret : α → Rd α
  | fail : Err → Rd α
  | read : Int → Bool → (Bytes → Rd α) → Rd α

structure RecvOut (p : Prims) where
  st : Receiver p
  msg : Msg
  auth : Option Auth
  raw : Nat             -- `raw_packet_size = packet_size + self.__mac_size_in + 4` (input of the rekey accounting)

/-- `self.__compress_engine_in(payload)` when a decompressor is set -/
def decompIn {p : Prims} (zs : Option p.ZSt) (payload : Bytes) : Except Err (Option p.ZSt × Bytes) :=
  match zs with
  | none => .ok (none, payload)
  | some z =>
    match p.decomp z payload with
    | none => .error .decompress
    | some (z', out) => .ok (some z', out)

/-- tail of `read_message` once `packet` (= everything after the length field, decrypted) is known -/
def finish {p : Prims} (r : Receiver p) (c : InC p) (psize : Nat) (packet : Bytes) (a : Option Auth) :
    Except Err (RecvOut p) :=
  match packet with
  | [] => .error .indexError
  | padb :: _ =>
    match decompIn r.decomp (pySlice1 packet ((psize : Int) - padb.toNat)) with
    | .error e => .error e
    | .ok (z', payload') =>
      if nextSeq r.seq = 0 ∧ ¬ r.kexDone then .error .seqRollover else
      match payload' with
      | [] => .error .indexError
      | cmd :: body =>
        .ok { st := { r with ciph := c, decomp := z', seq := nextSeq r.seq },
              msg := { cmd := cmd, payload := body, seqno := r.seq }, auth := a, raw := psize + r.macLen + 4 }

def liftE {α : Type} : Except Err α → Rd α
  | .ok a => .ret a
  | .error e => .fail e

/-- encrypt-then-MAC path, after the first `read_all(block_size)` -/
def readEtm {p : Prims} (r : Receiver p) (st : p.CSt) (mk : p.MKey) (header : Bytes) : Rd (RecvOut p) :=
  if header.length < 4 then .fail .structError else
  let psize := beVal (header.take 4)
  .read (remainingEtm psize r.block) false fun more =>
  let packet := header.drop 4 ++ more
  .read r.macLen false fun mac =>
  if ctEq ((p.mac mk (be32 r.seq ++ be32 psize ++ packet)).take r.macLen) mac then
    let d := p.dec st packet
    liftE (finish r (.etm d.1 mk) psize d.2 (some ⟨r.seq, [], be32 psize ++ packet⟩))
  else .fail .macMismatch

/-- AES-GCM path -/
def readAead {p : Prims} (r : Receiver p) (k : p.AKey) (iv : Bytes) (header : Bytes) : Rd (RecvOut p) :=
  if header.length < 4 then .fail .structError else
  let psize := beVal (header.take 4)
  .read (remainingAead psize r.block r.macLen) false fun more =>
  let packet := header.drop 4 ++ more
  match p.adec k iv packet (header.take 4) with
  | none => .fail .invalidTag
  | some plain =>
    match incIv iv with
    | .error e => .fail e
    | .ok iv' => liftE (finish r (.aead k iv') psize plain (some ⟨r.seq, iv, header.take 4 ++ packet⟩))

/-- no cipher (before the first NEWKEYS) -/
def readPlain {p : Prims} (r : Receiver p) (header : Bytes) : Rd (RecvOut p) :=
  if header.length < 4 then .fail .structError else
  let psize := beVal (header.take 4)
  let leftover := header.drop 4
  if badBlocking psize leftover.length r.block then .fail .badBlocking else
  .read (classicSize psize r.macLen leftover.length) false fun buf =>
  let packet := leftover ++ buf.take (psize - leftover.length)
  liftE (finish r .plain psize packet none)

/-- classic path (MAC over the plaintext) -/
def readClassic {p : Prims} (r : Receiver p) (st : p.CSt) (mk : p.MKey) (header : Bytes) : Rd (RecvOut p) :=
  let d0 := p.dec st header
  if d0.2.length < 4 then .fail .structError else
  let psize := beVal (d0.2.take 4)
  let leftover := d0.2.drop 4
  if badBlocking psize leftover.length r.block then .fail .badBlocking else
  .read (classicSize psize r.macLen leftover.length) false fun buf =>
  let d1 := p.dec d0.1 (buf.take (psize - leftover.length))
  let post := buf.drop (psize - leftover.length)
  let packet := leftover ++ d1.2
  if r.macLen > 0 then
    if ctEq ((p.mac mk (be32 r.seq ++ be32 psize ++ packet)).take r.macLen) (post.take r.macLen) then
      liftE (finish r (.classic d1.1 mk) psize packet (some ⟨r.seq, [], be32 psize ++ packet⟩))
    else .fail .macMismatch
  else liftE (finish r (.classic d1.1 mk) psize packet none)

/-- `read_message()` -/
def readMessage {p : Prims} (r : Receiver p) : Rd (RecvOut p) :=
  .read r.block true fun header =>
  match r.ciph with
  | .etm st mk => readEtm r st mk header
  | .aead k iv => readAead r k iv header
  | .plain => readPlain r header
  | .classic st mk => readClassic r st mk header

/-! ## `read_all` over a socket -/

inductive Res (α : Type) where
  | ok : α → Bytes → Res α        -- value, bytes not yet consumed
  | err : Err → Res α
  deriving Repr

/-- all bytes of the stream are available and every `recv(n)` returns all that was asked for -/
def runBuf {α : Type} : Rd α → Bytes → Res α
  | .ret a, buf => .ok a buf
  | .fail e, _ => .err e
  | .read n _ k, buf =>
    if n ≤ 0 then runBuf (k []) buf
    else if n.toNat ≤ buf.length then runBuf (k (buf.take n.toNat)) (buf.drop n.toNat)
    else .err .eof

/-- what one `recv` call does: `socket.timeout` (with the value the `__need_rekey` flag has at that moment — the
flag is set by this or another thread when a threshold is hit and cleared by the key switch, so the model lets it
take any value at any timeout), or data: at most `k+1` bytes -/
inductive Ev where
  | timeout (rekeyPending : Bool)
  | recv (k : Nat)
  deriving Repr, DecidableEq

/-- the socket: `rem` = `__remainder` (left over from the banner line), `data` = bytes that will still
arrive, `sched` = one entry per `recv` call; when the schedule is used up every `recv(n)` returns all that is
there (up to `n`) -/
structure Sock where
  rem : Bytes
  data : Bytes
  sched : List Ev
  deriving Repr

inductive LoopRes where
  | ok (out data : Bytes) (sched : List Ev)
  | err (e : Err)
  | rekey (sched : List Ev)          -- NeedRekeyException

/-- the `while n > 0` loop of `read_all` (`out` accumulates; `cr` = `check_rekey`) -/
def recvLoop (cr : Bool) : (fuel : Nat) → (n : Nat) → (out data : Bytes) → (sched : List Ev) → LoopRes
  | _, 0, out, data, sched => .ok out data sched
  | 0, _ + 1, _, _, _ => .err .eof
  | fuel + 1, n + 1, out, data, sched =>
    match sched with
    | .timeout nr :: t =>
      -- `if check_rekey and (len(out) == 0) and self.__need_rekey: raise NeedRekeyException()`
      if cr && out.isEmpty && nr then .rekey t else recvLoop cr fuel (n + 1) out data t
    | .recv k :: t =>
      match data with
      | [] => .err .eof                                       -- `recv` returned b""
      | _ :: _ =>
        let x := data.take (min (n + 1) (k + 1))
        recvLoop cr fuel (n + 1 - x.length) (out ++ x) (data.drop x.length) t
    | [] =>
      match data with
      | [] => .err .eof
      | _ :: _ =>
        let x := data.take (n + 1)
        recvLoop cr fuel (n + 1 - x.length) (out ++ x) (data.drop x.length) []

inductive RaRes where
  | ok (b : Bytes) (s : Sock)
  | err (e : Err)
  | rekey (s : Sock)

/-- `read_all(n, check_rekey)` including the Python slice semantics of `self.__remainder[:n]` for `n < 0` -/
def readAll (s : Sock) (n : Int) (cr : Bool) : RaRes :=
  let cut : Nat := if n < 0 then (n + s.rem.length).toNat else n.toNat
  let out := if s.rem.isEmpty then [] else s.rem.take cut
  let rem' := if s.rem.isEmpty then [] else s.rem.drop cut
  let n' := n - out.length
  match recvLoop cr (n'.toNat + s.sched.length) n'.toNat out s.data s.sched with
  | .err e => .err e
  | .rekey sc => .rekey { rem := rem', data := s.data, sched := sc }
  | .ok o d sc => .ok o { rem := rem', data := d, sched := sc }

inductive SRes (α : Type) where
  | ok : α → Sock → SRes α
  | err : Err → SRes α
  | rekey : Sock → SRes α          -- NeedRekeyException propagated to the caller

def runSock {α : Type} : Rd α → Sock → SRes α
  | .ret a, s => .ok a s
  | .fail e, _ => .err e
  | .read n cr k, s =>
    match readAll s n cr with
    | .err e => .err e
    | .rekey s' => .rekey s'
    | .ok b s' => runSock (k b) s'

/-- `Transport.run`: `except NeedRekeyException: continue` — `read_message` is called again -/
def readRetry {p : Prims} (r : Receiver p) : (fuel : Nat) → Sock → SRes (RecvOut p)
  | 0, s => .rekey s
  | fuel + 1, s =>
    match runSock (readMessage r) s with
    | .rekey s' => readRetry r fuel s'
    | x => x

/-! ## operation sequences: messages and key / compressor switches -/

/-- `set_outbound_cipher(...)` (resets nothing the model tracks except the configuration) -/
def Sender.setCipher {p : Prims} (s : Sender p) (block macLen : Nat) (sdctr : Bool) (c : OutC p) : Sender p :=
  { s with block := block, macLen := macLen, sdctr := sdctr, ciph := c }

def Receiver.setCipher {p : Prims} (r : Receiver p) (block macLen : Nat) (c : InC p) : Receiver p :=
  { r with block := block, macLen := macLen, ciph := c }

inductive Op (p : Prims) where
  | msg (data rnd : Bytes)
  | setCipher (block macLen : Nat) (sdctr : Bool) (co : OutC p) (ci : InC p)
  | setComp (zo zi : Option p.ZSt)
  | resetSeq                       -- `reset_seqno_out` / `reset_seqno_in` (strict kex)
  | kexDone                        -- `_initial_kex_done = True`

/-- run the sender over an op list: the wire and the authenticated records, or the first error -/
def sendAll {p : Prims} (s : Sender p) : List (Op p) → Except Err (Sender p × Bytes × List Auth)
  | [] => .ok (s, [], [])
  | .msg d rnd :: ops =>
    match sendMessage s d rnd with
    | .error e => .error e
    | .ok o =>
      match sendAll o.st ops with
      | .error e => .error e
      | .ok (s', w, l) => .ok (s', o.wire ++ w, o.auth.toList ++ l)
  | .setCipher b m sd co _ :: ops => sendAll (s.setCipher b m sd co) ops
  | .setComp zo _ :: ops => sendAll { s with comp := zo } ops
  | .resetSeq :: ops => sendAll { s with seq := 0 } ops
  | .kexDone :: ops => sendAll { s with kexDone := true } ops

/-! ## `write_all` over a socket whose `send` may accept only part, time out, or fail -/

/-- what one `send(out)` call does -/
inductive SendEv where
  | accept (k : Nat)     -- returned `min k len(out)` (a short write when smaller than `len(out)`; 0 is possible)
  | timeout              -- `socket.timeout`
  | eagain               -- `socket.error` with `errno.EAGAIN`
  | fail                 -- any other exception (e.g. broken pipe)
  deriving Repr, DecidableEq

inductive WRes where
  | ok (written : Bytes)       -- `write_all` returned: these bytes were accepted by the socket, in order
  | eof (written : Bytes)      -- `EOFError` after these bytes had been accepted
  deriving Repr, DecidableEq

/-- the `> 10` of `if n == 0 and iteration_with_zero_as_return_value > 10` -/
def zeroLimit : Nat := 10

/-- the `n = 0` the retry branch assigns after `socket.timeout` / `EAGAIN` -/
def retryN : Nat := 0

/-- the `while len(out) > 0` loop of `write_all`; `it` = `iteration_with_zero_as_return_value`, `w` = bytes the
socket accepted so far.  When the schedule is used up every `send` accepts everything. -/
def writeAll : (sched : List SendEv) → (out : Bytes) → (it : Nat) → (w : Bytes) → WRes
  | _, [], _, w => .ok w
  | [], x :: xs, _, w => .ok (w ++ x :: xs)
  | ev :: t, x :: xs, it, w =>
    match ev with
    | .fail => .eof w
    | .timeout => writeAll t ((x :: xs).drop retryN) it w      -- `n = 0; … out = out[n:]`
    | .eagain => writeAll t ((x :: xs).drop retryN) it w
    | .accept k =>
      let n := min k (xs.length + 1)
      if n = 0 ∧ it > zeroLimit then .eof w
      else if n = xs.length + 1 then .ok (w ++ x :: xs)        -- `if n == len(out): break`
      else writeAll t ((x :: xs).drop n) (it + 1) (w ++ (x :: xs).take n)

/-- the sender over an op list, each packet going through `write_all` under its own schedule of `send` outcomes
(schedules are consumed one per message; none left = every send accepts everything): the bytes that reached the
socket, or `eof` as soon as a `write_all` raised -/
def sendAllW {p : Prims} (s : Sender p) : List (Op p) → List (List SendEv) → Except Err (Sender p × Bytes)
  | [], _ => .ok (s, [])
  | .msg d rnd :: ops, scheds =>
    match sendMessage s d rnd with
    | .error e => .error e
    | .ok o =>
      match writeAll (scheds.headD []) o.wire 0 [] with
      | .eof _ => .error .eof
      | .ok wr =>
        match sendAllW o.st ops scheds.tail with
        | .error e => .error e
        | .ok (s', w) => .ok (s', wr ++ w)
  | .setCipher b m sd co _ :: ops, scheds => sendAllW (s.setCipher b m sd co) ops scheds
  | .setComp zo _ :: ops, scheds => sendAllW { s with comp := zo } ops scheds
  | .resetSeq :: ops, scheds => sendAllW { s with seq := 0 } ops scheds
  | .kexDone :: ops, scheds => sendAllW { s with kexDone := true } ops scheds

/-- what the rekey accounting of `read_message` / `set_inbound_cipher` sees, in order -/
inductive Acct where
  | pkt (raw : Nat)      -- a packet of `raw` bytes was decoded
  | switch               -- the keys were switched (counters reset, request fulfilled)
  deriving Repr, DecidableEq

/-- result of running the receiver: delivered messages, verified records, how it stopped -/
structure RecvLog (p : Prims) where
  msgs : List Msg
  auths : List Auth
  accts : List Acct
  stop : Option Err          -- `none`: all ops done
  st : Option (Receiver p)   -- final state when not stopped by an error
  rest : Bytes

/-- the receiver mirrors the op list: one `read_message` per `msg`, the switches in the same places -/
def recvAll {p : Prims} (r : Receiver p) : List (Op p) → Bytes → RecvLog p
  | [], buf => { msgs := [], auths := [], accts := [], stop := none, st := some r, rest := buf }
  | .msg _ _ :: ops, buf =>
    match runBuf (readMessage r) buf with
    | .err e => { msgs := [], auths := [], accts := [], stop := some e, st := none, rest := buf }
    | .ok o rest =>
      let l := recvAll o.st ops rest
      { l with msgs := o.msg :: l.msgs, auths := o.auth.toList ++ l.auths, accts := .pkt o.raw :: l.accts }
  | .setCipher b m _ _ ci :: ops, buf =>
    let l := recvAll (r.setCipher b m ci) ops buf
    { l with accts := .switch :: l.accts }
  | .setComp _ zi :: ops, buf => recvAll { r with decomp := zi } ops buf
  | .resetSeq :: ops, buf => recvAll { r with seq := 0 } ops buf
  | .kexDone :: ops, buf => recvAll { r with kexDone := true } ops buf

/-! ## rekey accounting of `read_message` (counters, the receiver's own rekey request, the overflow allowance) -/

/-- `REKEY_PACKETS`, `REKEY_BYTES`, `REKEY_PACKETS_OVERFLOW_MAX`, `REKEY_BYTES_OVERFLOW_MAX` -/
structure Limits where
  rekeyPackets : Nat
  rekeyBytes : Nat
  ovPackets : Nat
  ovBytes : Nat
  deriving Repr, DecidableEq

/-- the values shipped in `class Packetizer` (tied to the source in Props/C01) -/
def shippedLimits : Limits := ⟨536870912, 536870912, 536870912, 536870912⟩

structure RekeySt where
  recvPackets : Nat := 0
  recvBytes : Nat := 0
  ovPackets : Nat := 0
  ovBytes : Nat := 0
  need : Bool := false        -- `__need_rekey`
  deriving Repr, DecidableEq

/-- the "check for rekey" tail of `read_message` -/
def account (L : Limits) (k : RekeySt) (raw : Nat) : Except Err RekeySt :=
  let k1 := { k with recvBytes := k.recvBytes + raw, recvPackets := k.recvPackets + 1 }
  if k.need then
    -- we've asked to rekey: give them some packets to comply before dropping the connection
    let k2 := { k1 with ovBytes := k1.ovBytes + raw, ovPackets := k1.ovPackets + 1 }
    if k2.ovPackets ≥ L.ovPackets ∨ k2.ovBytes ≥ L.ovBytes then .error .ignoringRekey else .ok k2
  else if k1.recvPackets ≥ L.rekeyPackets ∨ k1.recvBytes ≥ L.rekeyBytes then
    .ok { k1 with ovBytes := 0, ovPackets := 0, need := true }      -- only ask once for rekeying
  else .ok k1

/-- `set_inbound_cipher` resets the counters; with the outbound switch of the same rekey the request is fulfilled -/
def RekeySt.switched (_ : RekeySt) : RekeySt := {}

def accountAll (L : Limits) : RekeySt → List Acct → Except Err RekeySt
  | k, [] => .ok k
  | k, .pkt raw :: t =>
    match account L k raw with
    | .error e => .error e
    | .ok k' => accountAll L k' t
  | k, .switch :: t => accountAll L k.switched t

/-- `recvAll` with the accounting: a message is delivered only if the accounting after it did not raise -/
def recvAllK {p : Prims} (L : Limits) (r : Receiver p) (k : RekeySt) : List (Op p) → Bytes → List Msg × Option Err
  | [], _ => ([], none)
  | .msg _ _ :: ops, buf =>
    match runBuf (readMessage r) buf with
    | .err e => ([], some e)
    | .ok o rest =>
      match account L k o.raw with
      | .error e => ([], some e)
      | .ok k' =>
        let l := recvAllK L o.st k' ops rest
        (o.msg :: l.1, l.2)
  | .setCipher b m _ _ ci :: ops, buf => recvAllK L (r.setCipher b m ci) k.switched ops buf
  | .setComp _ zi :: ops, buf => recvAllK L { r with decomp := zi } k ops buf
  | .resetSeq :: ops, buf => recvAllK L { r with seq := 0 } k ops buf
  | .kexDone :: ops, buf => recvAllK L { r with kexDone := true } k ops buf

/-- the accounting trace of the sender's history: the sizes of its wire packets, and its key switches -/
def sentAccts {p : Prims} (s : Sender p) : List (Op p) → List Acct
  | [] => []
  | .msg d rnd :: ops =>
    match sendMessage s d rnd with
    | .error _ => []
    | .ok o => .pkt o.wire.length :: sentAccts o.st ops
  | .setCipher b m sd co _ :: ops => .switch :: sentAccts (s.setCipher b m sd co) ops
  | .setComp zo _ :: ops => sentAccts { s with comp := zo } ops
  | .resetSeq :: ops => sentAccts { s with seq := 0 } ops
  | .kexDone :: ops => sentAccts { s with kexDone := true } ops

/-- the same over a fragmenting socket -/
def recvAllSock {p : Prims} (r : Receiver p) : List (Op p) → Sock → List Msg × Option Err × Sock
  | [], s => ([], none, s)
  | .msg _ _ :: ops, s =>
    match readRetry r (s.sched.length + 1) s with
    | .err e => ([], some e, s)
    | .rekey s' => ([], none, s')       -- unreachable: every NeedRekeyException uses up a timeout of the schedule
    | .ok o s' =>
      let l := recvAllSock o.st ops s'
      (o.msg :: l.1, l.2)
  | .setCipher b m _ _ ci :: ops, s => recvAllSock (r.setCipher b m ci) ops s
  | .setComp _ zi :: ops, s => recvAllSock { r with decomp := zi } ops s
  | .resetSeq :: ops, s => recvAllSock { r with seq := 0 } ops s
  | .kexDone :: ops, s => recvAllSock { r with kexDone := true } ops s

/-- what the sender's op list says should be delivered, given the starting sequence number -/
def msgsOf {p : Prims} : Nat → List (Op p) → List Msg
  | _, [] => []
  | seq, .msg d _ :: ops =>
    (match d with
     | [] => []
     | c :: body => [{ cmd := c, payload := body, seqno := seq }]) ++ msgsOf (nextSeq seq) ops
  | _, .resetSeq :: ops => msgsOf 0 ops
  | seq, _ :: ops => msgsOf seq ops

/-! ## toy primitives (identical definitions in pv/lib_packet.py) -/

/-- keystream byte `j` of the toy stream cipher with key byte `k` -/
def toyKs (k j : Nat) : UInt8 := UInt8.ofNat (k + 7 * j + j / 256 * 13)

def toyXorFrom (k : Nat) : Nat → Bytes → Bytes
  | _, [] => []
  | j, x :: xs => (x ^^^ toyKs k j) :: toyXorFrom k (j + 1) xs

/-- 64-byte toy digest: byte `j` = key[j mod len] + a·(j+1) + b·(2j+1) + len, where a = Σ mᵢ, b = Σ (i+1)·mᵢ -/
def toySums : Nat → Bytes → Nat × Nat
  | _, [] => (0, 0)
  | i, x :: xs => let r := toySums (i + 1) xs; ((x.toNat + r.1) % 65536, ((i + 1) * x.toNat + r.2) % 65536)

/-- 64-byte toy hash, optionally salted with `key` (used directly by the toy AEAD tag) -/
def toyHashK (key msg : Bytes) : Bytes :=
  let s := toySums 0 msg
  (List.range 64).map fun j =>
    UInt8.ofNat ((key.getD (j % (max key.length 1)) 0).toNat + s.1 * (j + 1) + s.2 * (2 * j + 1) + msg.length)

/-- the toy MAC is the real HMAC construction (RFC 2104, as Python's `hmac.HMAC` computes it) over the toy hash
with block size 16: `H((K ⊕ opad) ‖ H((K ⊕ ipad) ‖ m))`; so the real code may compute it through whatever
`hmac` API it likes (one-shot, keyed object + `copy()`, …) -/
def toyMac (key msg : Bytes) : Bytes :=
  let k0 := if key.length > 16 then toyHashK [] key else key
  let k := k0 ++ zeros (16 - k0.length)
  toyHashK [] (k.map (· ^^^ 0x5c) ++ toyHashK [] (k.map (· ^^^ 0x36) ++ msg))

/-- toy AEAD: ciphertext = xor keystream positioned by the nonce's low byte; tag = 16 toy-MAC bytes over
nonce ‖ aad ‖ ciphertext salted with the key byte -/
def toySeal (k : Nat) (iv pt aad : Bytes) : Bytes :=
  let ct := toyXorFrom k (beVal (iv.drop 4) % 65536) pt
  ct ++ (toyHashK [UInt8.ofNat k] (iv ++ aad ++ ct)).take 16

def toyUnseal (k : Nat) (iv data aad : Bytes) : Option Bytes :=
  if data.length < 16 then none else
  let ct := data.take (data.length - 16)
  let tag := data.drop (data.length - 16)
  if (toyHashK [UInt8.ofNat k] (iv ++ aad ++ ct)).take 16 = tag then
    some (toyXorFrom k (beVal (iv.drop 4) % 65536) ct)
  else none

/-- toy stateful compressor: state = running byte counter; output = marker byte ‖ data shifted by it -/
def toyComp (z : Nat) (d : Bytes) : Nat × Bytes :=
  (z + d.length + 1, UInt8.ofNat z :: d.map fun x => x + UInt8.ofNat z)

def toyDecomp (z : Nat) (d : Bytes) : Option (Nat × Bytes) :=
  match d with
  | [] => none
  | m :: t => if m = UInt8.ofNat z then some (z + t.length + 1, t.map fun x => x - UInt8.ofNat z) else none

/-- toy cipher state: (key byte, position) -/
def toyPrims : Prims where
  CSt := Nat × Nat
  enc := fun st x => ((st.1, st.2 + x.length), toyXorFrom st.1 st.2 x)
  dec := fun st x => ((st.1, st.2 + x.length), toyXorFrom st.1 st.2 x)
  AKey := Nat
  aenc := toySeal
  adec := toyUnseal
  MKey := Bytes
  mac := toyMac
  ZSt := Nat
  comp := toyComp
  decomp := toyDecomp

end PV.Packet
