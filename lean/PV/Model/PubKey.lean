/-
  PV.Model.PubKey — executable model of the public-key blob codecs and of key identity:

    PKey._check_type_and_load_cert, PKey.__eq__/__hash__             (paramiko/pkey.py)
    RSAKey.__init__(data=…)/asbytes/_fields                            (paramiko/rsakey.py)
    ECDSAKey.__init__(data=…)/asbytes/_fields                          (paramiko/ecdsakey.py)
    Ed25519Key.__init__(data=…)/asbytes/_fields                        (paramiko/ed25519key.py)
    PKey._write_private_key_file: os.open(…, O_WRONLY|O_TRUNC|O_CREAT, 0o600)   (mode bits only)

  External primitives are parameters (`Prims`): building an RSA public key from (e, n)
  (`RSAPublicNumbers(e, n).public_key()`), decoding an EC point (`from_encoded_point`), building a
  nacl `VerifyKey`.  Each may refuse with an exception class of its own.
  Mathlib-free, total, executable.
-/
import PV.Model.Sig
namespace PV.PubKey
open PV PV.Wire PV.KeyUtf8 PV.Sig

inductive Err
  | sshException
  | unicodeDecodeError
  /-- an exception raised by a primitive and not translated by paramiko (class name) -/
  | prim (cls : String)
  deriving Repr, DecidableEq

def Err.name : Err → String
  | .sshException => "SSHException"
  | .unicodeDecodeError => "UnicodeDecodeError"
  | .prim c => c

structure Prims where
  /-- `RSAPublicNumbers(e, n).public_key()`: `none` = accepted, `some cls` = raises `cls` -/
  rsaMake : Int → Int → Option String
  /-- `EllipticCurvePublicKey.from_encoded_point(curve, bytes)`: the affine point, or the class it raises -/
  ecPoint : Curve → Bytes → Except String (Nat × Nat)
  /-- `nacl.signing.VerifyKey(bytes)`: `none` = accepted -/
  edMake : Bytes → Option String

/-- public key material (what `_fields` holds, apart from the constant type name) -/
inductive Pub
  | rsa (e n : Int)
  | ec (c : Curve) (x y : Nat)
  | ed (pk : Bytes)
  deriving Repr, DecidableEq

/-- a key object: public material, whether a private half is present, an attached certificate blob -/
structure KeyObj where
  pub : Pub
  hasPrivate : Bool
  cert : Option Bytes
  deriving Repr, DecidableEq

/-! ## encoders (`asbytes`) -/

/-- `nistp256` … -/
def _root_.PV.Sig.Curve.nist : Curve → Bytes
  | .p256 => [110, 105, 115, 116, 112, 50, 53, 54]
  | .p384 => [110, 105, 115, 116, 112, 51, 56, 52]
  | .p521 => [110, 105, 115, 116, 112, 53, 50, 49]

/-- `(key.curve.key_size + 7) // 8` -/
def _root_.PV.Sig.Curve.size : Curve → Nat
  | .p256 => 32 | .p384 => 48 | .p521 => 66

/-- `deflate_long(x, add_sign_padding=False)` for `x ≥ 0`, left-padded with zeros to `w` bytes
    (`b"\x00" * (w - len(b)) + b`: a negative count pads nothing) -/
def padCoord (w x : Nat) : Bytes :=
  let b : Bytes := if x = 0 then [0] else natBytes x
  zeros (w - b.length) ++ b

def pointBytes (c : Curve) (x y : Nat) : Bytes := 4 :: (padCoord c.size x ++ padCoord c.size y)

/-- `asbytes()` — never includes the certificate -/
def encode : Pub → Bytes
  | .rsa e n => encStr nSshRsa ++ encMpint e ++ encMpint n
  | .ec c x y => encStr c.name ++ encStr c.nist ++ encStr (pointBytes c x y)
  | .ed pk => encStr nEd ++ encStr pk

/-! ## decoders (`Class(data=blob)`) -/

def getTextE (r : Rd) : Except Err (Bytes × Rd) :=
  match getText r with
  | .ok p => .ok p
  | .error _ => .error .unicodeDecodeError

/-- `_check_type_and_load_cert`: returns the certificate blob (if the type is a cert type) and the
    reader positioned at the key numbers -/
def checkType (blob : Bytes) (keyTypes : List Bytes) : Except Err (Option Bytes × Rd) :=
  match getTextE { content := blob, pos := 0 } with
  | .error e => .error e
  | .ok (t, r1) =>
    if keyTypes.contains t then .ok (none, r1)
    else if (keyTypes.map (· ++ certSuffix)).contains t then
      -- load_certificate(Message(msg.asbytes())): keeps the whole blob; then skip the nonce
      .ok (some blob, (r1.getString).2)
    else .error .sshException

def rsaDecode (P : Prims) (blob : Bytes) : Except Err KeyObj :=
  match checkType blob [nSshRsa] with
  | .error e => .error e
  | .ok (cert, r) =>
    let (eb, r2) := r.getString
    let (nb, _) := r2.getString
    let e := inflate eb
    let n := inflate nb
    match P.rsaMake e n with
    | some cls => .error (.prim cls)
    | none => .ok { pub := .rsa e n, hasPrivate := false, cert := cert }

def curveOfName (t : Bytes) : Option Curve :=
  if t = nEc256 then some .p256 else if t = nEc384 then some .p384 else if t = nEc521 then some .p521 else none

/-- strip a trailing `-cert-v01@openssh.com` -/
def stripCert (t : Bytes) : Bytes :=
  if certSuffix.length ≤ t.length ∧ t.drop (t.length - certSuffix.length) = certSuffix
  then t.take (t.length - certSuffix.length) else t

def ecDecode (P : Prims) (blob : Bytes) : Except Err KeyObj :=
  -- key_type = msg.get_text() comes first and selects the curve
  match getTextE { content := blob, pos := 0 } with
  | .error e => .error e
  | .ok (t, _) =>
    match checkType blob [nEc256, nEc384, nEc521] with
    | .error e => .error e
    | .ok (cert, r) =>
      match curveOfName (stripCert t) with
      | none => .error .sshException          -- unreachable: checkType accepted the type
      | some c =>
        match getTextE r with
        | .error e => .error e
        | .ok (cn, r2) =>
          if cn ≠ c.nist then .error .sshException
          else
            match P.ecPoint c (r2.getString).1 with
            | .error cls =>
              -- `except ValueError: raise SSHException("Invalid public key")`
              if cls = "ValueError" then .error .sshException else .error (.prim cls)
            | .ok (x, y) => .ok { pub := .ec c x y, hasPrivate := false, cert := cert }

def edDecode (P : Prims) (blob : Bytes) : Except Err KeyObj :=
  match checkType blob [nEd] with
  | .error e => .error e
  | .ok (cert, r) =>
    let pk := (r.getString).1
    match P.edMake pk with
    | some cls => .error (.prim cls)
    | none => .ok { pub := .ed pk, hasPrivate := false, cert := cert }

/-! ## identity: `_fields`, `__eq__`, `__hash__`, fingerprints -/

/-- `_fields` (the leading `get_name()` is determined by the constructor of `Pub`) -/
def fields (k : KeyObj) : Pub := k.pub

/-- `PKey.__eq__` -/
def keyEq (a b : KeyObj) : Bool := fields a == fields b

/-- `PKey.__hash__` for an arbitrary hash of the field tuple -/
def keyHash (h : Pub → Nat) (k : KeyObj) : Nat := h (fields k)

/-- `get_fingerprint` / `fingerprint` for an arbitrary digest of `asbytes()` -/
def fingerprint (h : Bytes → Bytes) (k : KeyObj) : Bytes := h (encode k.pub)

/-! ## creation mode of a new private key file -/

/-- `os.open(path, O_WRONLY|O_TRUNC|O_CREAT, mode)` on a path that does not exist: the kernel creates
    the file with `mode & ~umask` (POSIX open(2)); an existing file keeps its mode -/
def openMode (existing : Option Nat) (mode umask : Nat) : Nat :=
  match existing with
  | some m => m
  | none => mode &&& (0o7777 ^^^ (umask &&& 0o7777))

/-- `_write_private_key_file` passes `o600` -/
def keyFileMode (existing : Option Nat) (umask : Nat) : Nat := openMode existing 0o600 umask

/-! ## primitives for the driver: the answers are supplied per request (a finite table read off the
    real library by the harness); a query other than the tabulated one is made visible -/

def tablePrims (e n : Int) (rsaAns : Option String) (pt : Bytes) (ptAns : Except String (Nat × Nat))
    (pk : Bytes) (edAns : Option String) : Prims where
  rsaMake := fun e' n' => if e' = e ∧ n' = n then rsaAns else some "ORACLE-MISMATCH"
  ecPoint := fun _ b => if b = pt then ptAns else .error "ORACLE-MISMATCH"
  edMake := fun b => if b = pk then edAns else some "ORACLE-MISMATCH"

end PV.PubKey
