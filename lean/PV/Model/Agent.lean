/-
  PV.Model.Agent — executable model of the agent signing path of paramiko/agent.py:

    AgentKey.asbytes        : inner_key.asbytes() if inner_key else blob
    AgentKey.sign_ssh_data  : byte(13) ++ string(asbytes) ++ string(data) ++ uint32(FLAG_MAP.get(algorithm, 0));
                              reply type != 14 -> SSHException; else result.get_binary()
    AgentSSH._send_message  : conn.send(>I len ++ msg); _read_all(4); _read_all(len); (ord(get_byte()), msg)
    AgentSSH._read_all      : recv loop, SSHException("lost ssh-agent") on an empty recv

  The flag table and the two message numbers are GENERATED from the source (PV/Generated/C45.lean).
  The agent is an arbitrary function from the bytes it was sent to the byte stream it answers with and the
  way `recv` fragments that stream.  Mathlib-free.
-/
import PV.Base.Wire
import PV.Generated.C45
namespace PV.Agent
open PV PV.Wire

inductive Err where
  | lostAgent      -- SSHException("lost ssh-agent")
  | cannotSign     -- SSHException("key cannot be used for signing")
  | fuel           -- model artefact: never produced (theorem `readAll_no_fuel`)
  deriving Repr, DecidableEq

/-- `ALGORITHM_FLAG_MAP.get(algorithm, 0)`; `none` is Python's `None` -/
def flagFor (algorithm : Option String) : Nat :=
  match algorithm with
  | none => 0
  | some a => (PV.Generated.C45.algorithmFlagMap.lookup a).getD 0

/-- the agent's side of the socket: bytes still to be delivered and, per future `recv` call, the
maximal number of bytes that call hands out (`[]` = no further limit; `0` = the peer looks closed) -/
structure Conn where
  data : Bytes
  caps : List Nat
  deriving Repr, DecidableEq

/-- `conn.recv(n)` -/
def recv (c : Conn) (n : Nat) : Bytes × Conn :=
  let k := match c.caps with
    | [] => n
    | cap :: _ => min n cap
  (c.data.take k, { data := c.data.drop k, caps := c.caps.tail })

/-- the `while len(result) < wanted` loop of `_read_all` (`fuel` bounds the iterations; each adds ≥ 1 byte) -/
def readLoop : Nat → Nat → Bytes → Conn → Except Err (Bytes × Conn)
  | fuel, wanted, result, c =>
    if result.length < wanted then
      if result.length = 0 then .error .lostAgent
      else
        match fuel with
        | 0 => .error .fuel
        | fuel + 1 =>
          let (extra, c') := recv c (wanted - result.length)
          if extra.length = 0 then .error .lostAgent
          else readLoop fuel wanted (result ++ extra) c'
    else .ok (result, c)

/-- `AgentSSH._read_all(wanted)` -/
def readAll (wanted : Nat) (c : Conn) : Except Err (Bytes × Conn) :=
  let (result, c') := recv c wanted
  readLoop wanted wanted result c'

/-- `struct.pack(">I", len(msg)) + msg` -/
def frame (msg : Bytes) : Bytes := be32 msg.length ++ msg

/-- `AgentSSH._send_message(msg)`: what is written to the socket, and `(ptype, Message)` or the error.
`agent` maps the bytes written to what the agent answers. -/
def sendMessage (agent : Bytes → Conn) (msg : Bytes) : Bytes × Except Err (Nat × Rd) :=
  let sent := frame msg
  let c := agent sent
  (sent,
    match readAll 4 c with
    | .error e => .error e
    | .ok (hdr, c1) =>
      match readAll (beVal hdr) c1 with
      | .error e => .error e
      | .ok (body, _) =>
        let (b, r) := Rd.getBytes { content := body, pos := 0 } 1     -- `msg.get_byte()` (zero padded)
        .ok ((b.headD 0).toNat, r))

/-- an `AgentKey`: the blob the agent listed, and `inner_key.asbytes()` when an inner key could be built -/
structure Key where
  blob : Bytes
  inner : Option Bytes
  deriving Repr, DecidableEq

/-- `AgentKey.asbytes()` -/
def Key.asbytes (k : Key) : Bytes := k.inner.getD k.blob

/-- the message `sign_ssh_data` builds -/
def signRequest (k : Key) (data : Bytes) (algorithm : Option String) : Bytes :=
  encodeAll [.byte (UInt8.ofNat PV.Generated.C45.signRequestType), .str k.asbytes, .str data,
    .u32 (flagFor algorithm)]

/-- `AgentKey.sign_ssh_data(data, algorithm)`: bytes written to the agent socket, and the result -/
def signSshData (agent : Bytes → Conn) (k : Key) (data : Bytes) (algorithm : Option String) :
    Bytes × Except Err Bytes :=
  let (sent, r) := sendMessage agent (signRequest k data algorithm)
  (sent,
    match r with
    | .error e => .error e
    | .ok (ptype, rd) =>
      if ptype ≠ PV.Generated.C45.signResponseType then .error .cannotSign
      else .ok (rd.getString).1)      -- `result.get_binary()`

/-! ## several requests on one agent connection

The connection object persists between requests: whatever a request leaves unread in the stream is what the next
request starts reading.  `readAllSt` is `_read_all` with the connection threaded through also when it raises.
The scripted agent answers request i by appending `reply` to the stream (and `caps` to the fragmentation schedule)
when the request is written. -/

def readLoopSt : Nat → Nat → Bytes → Conn → Except Err Bytes × Conn
  | fuel, wanted, result, c =>
    if result.length < wanted then
      if result.length = 0 then (.error .lostAgent, c)
      else
        match fuel with
        | 0 => (.error .fuel, c)
        | fuel + 1 =>
          let (extra, c') := recv c (wanted - result.length)
          if extra.length = 0 then (.error .lostAgent, c')
          else readLoopSt fuel wanted (result ++ extra) c'
    else (.ok result, c)

def readAllSt (wanted : Nat) (c : Conn) : Except Err Bytes × Conn :=
  let (result, c') := recv c wanted
  readLoopSt wanted wanted result c'

/-- one `sign_ssh_data` on a live connection `c`: ((bytes written, result), connection afterwards) -/
def signStep (k : Key) (data : Bytes) (algorithm : Option String) (reply : Bytes) (caps : List Nat) (c : Conn) :
    (Bytes × Except Err Bytes) × Conn :=
  let sent := frame (signRequest k data algorithm)
  let c0 : Conn := { data := c.data ++ reply, caps := c.caps ++ caps }
  match readAllSt 4 c0 with
  | (.error e, c1) => ((sent, .error e), c1)
  | (.ok hdr, c1) =>
    match readAllSt (beVal hdr) c1 with
    | (.error e, c2) => ((sent, .error e), c2)
    | (.ok body, c2) =>
      let (b, r) := Rd.getBytes { content := body, pos := 0 } 1
      if (b.headD 0).toNat ≠ PV.Generated.C45.signResponseType then ((sent, .error .cannotSign), c2)
      else ((sent, .ok (r.getString).1), c2)

structure Req where
  key : Key
  data : Bytes
  algorithm : Option String
  reply : Bytes
  caps : List Nat

/-- a history of signing requests on one connection -/
def signSession : Conn → List Req → List (Bytes × Except Err Bytes) × Conn
  | c, [] => ([], c)
  | c, r :: rs =>
    let s := signStep r.key r.data r.algorithm r.reply r.caps c
    let rest := signSession s.2 rs
    (s.1 :: rest.1, rest.2)

end PV.Agent
