/-
  PV.Model.SftpServer — the request dispatcher of the SFTP server (paramiko/sftp_server.py: start_subsystem's
  per-request try/except, _process, _send_handle_response, _open_folder, _read_folder, _check_file's exits).
  One request in, the list of response packets out.  What the callbacks and decoders do is abstracted into `Abs`
  (which kind of handle the request names, whether the callback produced a result or an error code, whether
  anything raised before the answer was sent, …); command numbers come from the generated table.
  Mirrors the code after the C30 server fix (FSETSTAT on an unknown handle answers with STATUS).
-/
import PV.Generated.C30
namespace PV.SftpServer
open PV.Generated.C30

inductive HandleKind where
  | file | folder | none
  deriving Repr, DecidableEq

inductive ExtTag where
  | checkFile | posixRename | other
  deriving Repr, DecidableEq

/-- exits of `_check_file` -/
inductive CfCase where
  | badHandle | noAlg | statFails | smallBlock | readFails | ok
  deriving Repr, DecidableEq

structure Abs where
  hk : HandleKind
  okResult : Bool
  raises : Bool
  ext : ExtTag
  empty : Bool
  cf : CfCase
  deriving Repr, DecidableEq

/-- status code of an answer: fixed by the dispatcher, or whatever the callback returned -/
inductive Code where
  | fixed (c : Nat)
  | callback
  | notStatus
  deriving Repr, DecidableEq

def status (c : Nat) : Nat × Code := (cmdStatus, .fixed c)
def statusCb : Nat × Code := (cmdStatus, .callback)
def other (t : Nat) : Nat × Code := (t, .notStatus)

def checkFile (a : Abs) : Nat × Code :=
  match a.cf with
  | .badHandle => status sftpBadMessage
  | .noAlg => status sftpFailure
  | .statFails => statusCb
  | .smallBlock => status sftpFailure
  | .readFails => statusCb
  | .ok => other cmdExtendedReply

/-- `_process` for a command number that has a debug name (CMD_NAMES) -/
def dispatch (t : Nat) (a : Abs) : Nat × Code :=
  if t = cmdOpen then (if a.okResult then other cmdHandle else statusCb)
  else if t = cmdClose then
    (match a.hk with | .folder => status sftpOk | .file => status sftpOk | .none => status sftpBadMessage)
  else if t = cmdRead then
    (if a.hk ≠ .file then status sftpBadMessage
     else if a.okResult then (if a.empty then status sftpEof else other cmdData) else statusCb)
  else if t = cmdWrite then (if a.hk ≠ .file then status sftpBadMessage else statusCb)
  else if t = cmdRemove then statusCb
  else if t = cmdRename then statusCb
  else if t = cmdMkdir then statusCb
  else if t = cmdRmdir then statusCb
  else if t = cmdOpendir then (if a.okResult then other cmdHandle else statusCb)
  else if t = cmdReaddir then
    (if a.hk ≠ .folder then status sftpBadMessage else if a.empty then status sftpEof else other cmdName)
  else if t = cmdStat then (if a.okResult then other cmdAttrs else statusCb)
  else if t = cmdLstat then (if a.okResult then other cmdAttrs else statusCb)
  else if t = cmdFstat then
    (if a.hk ≠ .file then status sftpBadMessage else if a.okResult then other cmdAttrs else statusCb)
  else if t = cmdSetstat then statusCb
  else if t = cmdFsetstat then (if a.hk ≠ .file then status sftpBadMessage else statusCb)
  else if t = cmdReadlink then (if a.okResult then other cmdName else statusCb)
  else if t = cmdSymlink then statusCb
  else if t = cmdRealpath then other cmdName
  else if t = cmdExtended then
    (match a.ext with
     | .checkFile => checkFile a
     | .posixRename => statusCb
     | .other => status sftpOpUnsupported)
  else status sftpOpUnsupported

/-- one iteration of start_subsystem's loop: every response packet (type, request id, code) it sends -/
def serve (t id : Nat) (a : Abs) : List (Nat × Nat × Code) :=
  if t ∉ named then
    -- CMD_NAMES[t] raises KeyError inside _process: the except clause answers
    [(cmdStatus, id, .fixed sftpFailure)]
  else if a.raises then
    [(cmdStatus, id, .fixed sftpFailure)]
  else
    [((dispatch t a).1, id, (dispatch t a).2)]

/-- which response types are valid for a request type (draft-ietf-secsh-filexfer-02 §7; extended replies for
    extended requests); STATUS is valid for everything -/
def validFor (t ty : Nat) : Bool :=
  ty == cmdStatus ||
  (ty == cmdHandle && (t == cmdOpen || t == cmdOpendir)) ||
  (ty == cmdData && t == cmdRead) ||
  (ty == cmdName && (t == cmdReaddir || t == cmdReadlink || t == cmdRealpath)) ||
  (ty == cmdAttrs && (t == cmdStat || t == cmdLstat || t == cmdFstat)) ||
  (ty == cmdExtendedReply && t == cmdExtended)

def allBool : List Bool := [true, false]
def allAbs : List Abs :=
  [HandleKind.file, .folder, .none].flatMap fun hk =>
  allBool.flatMap fun ok => allBool.flatMap fun rs =>
  [ExtTag.checkFile, .posixRename, .other].flatMap fun ext =>
  allBool.flatMap fun em =>
  [CfCase.badHandle, .noAlg, .statFails, .smallBlock, .readFails, .ok].map fun cf =>
    { hk := hk, okResult := ok, raises := rs, ext := ext, empty := em, cf := cf }

end PV.SftpServer
