/-
  PV.Model.AuthStrategy — executable model of `paramiko.auth_strategy.AuthStrategy.authenticate`
  (auth_strategy.py:258-306), mirrored statement by statement:

      succeeded = False
      overall_result = AuthResult(strategy=self)
      for source in self.get_sources():            -- generator: advanced once per iteration
          try:    result = source.authenticate(transport); succeeded = True
          except Exception as e: result = e
          overall_result.append(SourceResult(source, result))
          if succeeded: break
      if not succeeded: raise AuthFailure(result=overall_result)
      return overall_result

  A source's `authenticate` is an arbitrary *stateful* program: `auth : σ → S → Out ε ρ × S`
  (the state `S` stands for the transport, the server, the sources' own fields, …).
  Mathlib-free.
-/
namespace PV.AuthStrategy

/-- outcome of one `source.authenticate(transport)` call -/
inductive Out (ε ρ : Type) where
  | ok (r : ρ)      -- returned `r`
  | err (e : ε)     -- raised `e` (an `Exception`)
  deriving Repr, DecidableEq

def Out.isOk {ε ρ : Type} : Out ε ρ → Bool
  | .ok _ => true
  | .err _ => false

/-- the local variables of `authenticate` plus two ghost logs (`pulled`: sources obtained from the
generator; `calls`: `source.authenticate` invocations, in order) -/
structure Loop (σ ε ρ S : Type) where
  succeeded : Bool
  overall : List (σ × Out ε ρ)     -- `overall_result` (list of `SourceResult(source, result)`)
  pulled : List σ
  calls : List σ
  st : S

/-- one iteration of the `for` body (everything before `if succeeded: break`) -/
def body {σ ε ρ S : Type} (auth : σ → S → Out ε ρ × S) (x : σ) (l : Loop σ ε ρ S) : Loop σ ε ρ S :=
  let o := (auth x l.st).1
  { succeeded := l.succeeded || o.isOk      -- `succeeded = True` only on the non-raising path
    overall := l.overall ++ [(x, o)]
    pulled := l.pulled ++ [x]
    calls := l.calls ++ [x]
    st := (auth x l.st).2 }

/-- the `for` loop with its `break` -/
def loop {σ ε ρ S : Type} (auth : σ → S → Out ε ρ × S) : List σ → Loop σ ε ρ S → Loop σ ε ρ S
  | [], l => l
  | x :: xs, l =>
    let l' := body auth x l
    if l'.succeeded then l' else loop auth xs l'

/-- how `authenticate` ends -/
inductive Final (σ ε ρ : Type) where
  | returned (result : List (σ × Out ε ρ))       -- `return overall_result`
  | authFailure (result : List (σ × Out ε ρ))    -- `raise AuthFailure(result=overall_result)`
  deriving Repr, DecidableEq

def Final.result {σ ε ρ : Type} : Final σ ε ρ → List (σ × Out ε ρ)
  | .returned r => r
  | .authFailure r => r

def init {σ ε ρ S : Type} (s : S) : Loop σ ε ρ S :=
  { succeeded := false, overall := [], pulled := [], calls := [], st := s }

def finish {σ ε ρ S : Type} (l : Loop σ ε ρ S) : Final σ ε ρ :=
  if l.succeeded then .returned l.overall else .authFailure l.overall

/-- `AuthStrategy.authenticate` -/
def authenticate {σ ε ρ S : Type} (auth : σ → S → Out ε ρ × S) (srcs : List σ) (s : S) : Final σ ε ρ :=
  finish (loop auth srcs (init s))

/-! ### the instance used by the driver and by the outcome-vector theorems:
the i-th call made yields the i-th entry of a given outcome vector -/

/-- state = outcomes not yet consumed; a call beyond the vector raises the default error -/
def scripted {σ ε ρ : Type} (dflt : ε) : σ → List (Out ε ρ) → Out ε ρ × List (Out ε ρ)
  | _, [] => (.err dflt, [])
  | _, o :: os => (o, os)

/-! ### specification, written independently of the loop -/

/-- shortest prefix of the (source, outcome) pairs that ends in the first success, else all -/
def attempted {σ ε ρ : Type} : List (σ × Out ε ρ) → List (σ × Out ε ρ)
  | [] => []
  | p :: ps => if p.2.isOk then [p] else p :: attempted ps

/-- what every source *would* answer if all of them were called one after the other (state threaded
through); only used to state the specification -/
def trace {σ ε ρ S : Type} (auth : σ → S → Out ε ρ × S) : List σ → S → List (σ × Out ε ρ)
  | [], _ => []
  | x :: xs, s => (x, (auth x s).1) :: trace auth xs (auth x s).2

/-! ### several calls on one strategy object: the `AuthResult` objects live in a heap

`authenticate` is modelled once more with *object identity*: every `AuthResult(strategy=self)` is a fresh heap cell
(index = identity), `overall_result.append(…)` mutates that cell, and the call hands out the cell's identity.
`Obj` is everything a call can see and change: the heap of all `AuthResult`s allocated so far (those handed out by
earlier calls included) and the world state `S` of the sources.  A call that reused a cell of an earlier call would be
visible as a change of that earlier cell. -/

structure Obj (σ ε ρ S : Type) where
  heap : List (List (σ × Out ε ρ))
  st : S

/-- `cell.append(x)` on the object with identity `id` -/
def appendCell {α : Type} : List (List α) → Nat → α → List (List α)
  | [], _, _ => []
  | c :: cs, 0, x => (c ++ [x]) :: cs
  | c :: cs, n + 1, x => c :: appendCell cs n x

/-- the `for` loop of `authenticate`, appending to the heap object `id` -/
def heapLoop {σ ε ρ S : Type} (auth : σ → S → Out ε ρ × S) (id : Nat) :
    List σ → Obj σ ε ρ S → Obj σ ε ρ S × Bool
  | [], o => (o, false)
  | x :: xs, o =>
    let r := auth x o.st
    let o' : Obj σ ε ρ S := { heap := appendCell o.heap id (x, r.1), st := r.2 }
    if r.1.isOk then (o', true) else heapLoop auth id xs o'

/-- one `strategy.authenticate(transport)` call: allocates its own result object, fills it, and returns
(identity of the result object, `true` = returned / `false` = raised `AuthFailure` carrying it) -/
def authCall {σ ε ρ S : Type} (auth : σ → S → Out ε ρ × S) (srcs : List σ) (o : Obj σ ε ρ S) :
    Obj σ ε ρ S × Nat × Bool :=
  let id := o.heap.length
  let r := heapLoop auth id srcs { o with heap := o.heap ++ [[]] }
  (r.1, id, r.2)

/-- a history of calls on the same strategy object (each with the source list `get_sources()` yields then) -/
def session {σ ε ρ S : Type} (auth : σ → S → Out ε ρ × S) :
    List (List σ) → Obj σ ε ρ S → Obj σ ε ρ S × List (Nat × Bool)
  | [], o => (o, [])
  | srcs :: rest, o =>
    let r := authCall auth srcs o
    let r' := session auth rest r.1
    (r'.1, r.2 :: r'.2)

/-- the world state after a one-shot call (sources run until the first success) -/
def stAfter {σ ε ρ S : Type} (auth : σ → S → Out ε ρ × S) : List σ → S → S
  | [], s => s
  | x :: xs, s => if (auth x s).1.isOk then (auth x s).2 else stAfter auth xs (auth x s).2

/-- the world states at the start of each call of a history -/
def statesOf {σ ε ρ S : Type} (auth : σ → S → Out ε ρ × S) : List (List σ) → S → List S
  | [], _ => []
  | srcs :: rest, s => s :: statesOf auth rest (stAfter auth srcs s)

end PV.AuthStrategy
