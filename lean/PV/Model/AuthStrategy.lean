/-
  PV.Model.AuthStrategy — executable model of `paramiko.auth_strategy.AuthStrategy.authenticate`
  (auth_strategy.py:258-306), mirrored statement by statement:

      succeeded = False
      overall_result = AuthResult(strategy=self)
      for source in self.get_sources():            -- generator: advanced once per iteration
          try:    result = source.authenticate(transport); succeeded = True
          except Exception as e: result = e
          overall_result.append(SourceResult(source, result))
          if succeeded: break
      if not succeeded: raise AuthFailure(result=overall_result)
      return overall_result

  A source's `authenticate` is an arbitrary *stateful* program: `auth : σ → S → Out ε ρ × S`
  (the state `S` stands for the transport, the server, the sources' own fields, …).
  Mathlib-free.
-/
namespace PV.AuthStrategy

/-- outcome of one `source.authenticate(transport)` call -/
inductive Out (ε ρ : Type) where
  | ok (r : ρ)      -- returned `r`
  | err (e : ε)     -- raised `e` (an `Exception`)
  deriving Repr, DecidableEq

def Out.isOk {ε ρ : Type} : Out ε ρ → Bool
  | .ok _ => true
  | .err _ => false

/-- the local variables of `authenticate` plus two ghost logs (`pulled`: sources obtained from the
generator; `calls`: `source.authenticate` invocations, in order) -/
structure Loop (σ ε ρ S : Type) where
  succeeded : Bool
  overall : List (σ × Out ε ρ)     -- `overall_result` (list of `SourceResult(source, result)`)
  pulled : List σ
  calls : List σ
  st : S

/-- one iteration of the `for` body (everything before `if succeeded: break`) -/
def body {σ ε ρ S : Type} (auth : σ → S → Out ε ρ × S) (x : σ) (l : Loop σ ε ρ S) : Loop σ ε ρ S :=
  let o := (auth x l.st).1
  { succeeded := l.succeeded || o.isOk      -- `succeeded = True` only on the non-raising path
    overall := l.overall ++ [(x, o)]
    pulled := l.pulled ++ [x]
    calls := l.calls ++ [x]
    st := (auth x l.st).2 }

/-- the `for` loop with its `break` -/
def loop {σ ε ρ S : Type} (auth : σ → S → Out ε ρ × S) : List σ → Loop σ ε ρ S → Loop σ ε ρ S
  | [], l => l
  | x :: xs, l =>
    let l' := body auth x l
    if l'.succeeded then l' else loop auth xs l'

/-- how `authenticate` ends -/
inductive Final (σ ε ρ : Type) where
  | returned (result : List (σ × Out ε ρ))       -- `return overall_result`
  | authFailure (result : List (σ × Out ε ρ))    -- `raise AuthFailure(result=overall_result)`
  deriving Repr, DecidableEq

def Final.result {σ ε ρ : Type} : Final σ ε ρ → List (σ × Out ε ρ)
  | .returned r => r
  | .authFailure r => r

def init {σ ε ρ S : Type} (s : S) : Loop σ ε ρ S :=
  { succeeded := false, overall := [], pulled := [], calls := [], st := s }

def finish {σ ε ρ S : Type} (l : Loop σ ε ρ S) : Final σ ε ρ :=
  if l.succeeded then .returned l.overall else .authFailure l.overall

/-- `AuthStrategy.authenticate` -/
def authenticate {σ ε ρ S : Type} (auth : σ → S → Out ε ρ × S) (srcs : List σ) (s : S) : Final σ ε ρ :=
  finish (loop auth srcs (init s))

/-! ### the instance used by the driver and by the outcome-vector theorems:
the i-th call made yields the i-th entry of a given outcome vector -/

/-- state = outcomes not yet consumed; a call beyond the vector raises the default error -/
def scripted {σ ε ρ : Type} (dflt : ε) : σ → List (Out ε ρ) → Out ε ρ × List (Out ε ρ)
  | _, [] => (.err dflt, [])
  | _, o :: os => (o, os)

/-! ### specification, written independently of the loop -/

/-- shortest prefix of the (source, outcome) pairs that ends in the first success, else all -/
def attempted {σ ε ρ : Type} : List (σ × Out ε ρ) → List (σ × Out ε ρ)
  | [] => []
  | p :: ps => if p.2.isOk then [p] else p :: attempted ps

/-- what every source *would* answer if all of them were called one after the other (state threaded
through); only used to state the specification -/
def trace {σ ε ρ S : Type} (auth : σ → S → Out ε ρ × S) : List σ → S → List (σ × Out ε ρ)
  | [], _ => []
  | x :: xs, s => (x, (auth x s).1) :: trace auth xs (auth x s).2

end PV.AuthStrategy
