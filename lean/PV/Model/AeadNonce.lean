/-
  PV.Model.AeadNonce — the AES-GCM nonce schedule of `paramiko.packet.Packetizer`
  (`_inc_iv_counter`, and the order "seal/open with the stored IV, then step it" in `send_message` /
  `read_message`).  The statement order at the two sites is a *parameter* (`useFirst`); its value for
  the tree under test is extracted from the source's AST into `PV.Generated.C04`.
  Specification: RFC 5647 section 7.1 — nonce of packet k = fixed(4) ‖ (invocation_counter + k),
  packet 0 using the derived initial IV itself.  Mathlib-free.
-/
import PV.Base.Bytes
namespace PV.AeadNonce
open PV

/-- `Packetizer._inc_iv_counter(iv)`; `none` = `OverflowError` of `to_bytes(8, "big")` -/
def incIv (iv : Bytes) : Option Bytes :=
  let c := beVal (iv.drop 4)
  if c + 1 < 18446744073709551616 then some (iv.take 4 ++ beBytes 8 (c + 1)) else none

/-- one AEAD packet at a site: (nonce handed to encrypt/decrypt, stored IV afterwards).
    `useFirst = true`: `engine.encrypt(self.__iv, …)` then `self.__iv = self._inc_iv_counter(self.__iv)`. -/
def aeadStep (useFirst : Bool) (iv : Bytes) : Option (Bytes × Bytes) :=
  match incIv iv with
  | none => none
  | some iv' => some (if useFirst then iv else iv', iv')

/-- nonces of the first `n` packets after the keys were installed with initial IV `iv`
    (`none` = the packet whose counter step overflows; nothing is sent after it) -/
def trace (useFirst : Bool) : Nat → Bytes → List (Option Bytes)
  | 0, _ => []
  | n + 1, iv =>
    match aeadStep useFirst iv with
    | none => [none]
    | some (nonce, iv') => some nonce :: trace useFirst n iv'

/-- RFC 5647 section 7.1: fixed field ‖ 64-bit invocation counter, counter of packet k = initial + k -/
def rfcNonce (iv0 : Bytes) (k : Nat) : Bytes := iv0.take 4 ++ beBytes 8 (beVal (iv0.drop 4) + k)

end PV.AeadNonce
