/-
  PV.Model.SftpFile — paramiko/sftp_file.py `SFTPFile` (no prefetch/readv: that is C28) on top of the
  BufferedFile model, talking to a model of the server side: tests/_stub_sftp.py `StubSFTPServer.open`,
  paramiko/sftp_server.py READ/WRITE/FSTAT/FSETSTAT/CLOSE dispatch and paramiko/sftp_handle.py
  `SFTPHandle.read/write` with its `__tell` offset cache, over one regular file (`content`).
  Mirrors the CURRENT code, quirks included.  Mathlib-free, total.
-/
import PV.Model.BufFile
namespace PV.SftpFile
open PV PV.BufFile

/-- error codes carried by `Err.stream` -/
def eStruct : Nat := 1      -- struct.error: negative value in an int64 field
def eServer : Nat := 2      -- IOError built from an error STATUS
def eUnmodelled : Nat := 99 -- server-side CPython read-ahead may be stale after a truncate: not modelled

/-- server side: the file, and the one open handle on it -/
structure Srv where
  content : Bytes
  fpos : Nat := 0               -- position of the handle's Python file object
  tell : Option Nat := none     -- `SFTPHandle.__tell`
  append : Bool := false        -- `flags & O_APPEND`
  hopen : Bool := true          -- handle still in `file_table`
  truncZero : Bool := false     -- `set_file_attr` re-opens with "w+" (zeroes the file) instead of truncating
  rbuffered : Bool := true      -- the server opened the file with CPython buffering (StubSFTPServer does)
  didRead : Bool := false       -- a READ was served by a buffered server-side reader: it may hold read-ahead
  stale : Bool := false         -- … and the file was truncated behind it
  deriving Repr

/-- overwrite at `off` (zero fill if `off` is past the end) -/
def overlay (c : Bytes) (off : Nat) (d : Bytes) : Bytes :=
  if d.isEmpty then c
  else c.take off ++ List.replicate (off - c.length) 0 ++ d ++ c.drop (off + d.length)

/-- `SFTPHandle.read(offset, length)` followed by the server's DATA / EOF reply (`[]` = EOF status) -/
def srvRead (s : Srv) (off len : Nat) : Srv × Bytes :=
  let t := s.tell.getD s.fpos
  let (fpos, t) := if off ≠ t then (off, off) else (s.fpos, t)
  let d := (s.content.drop fpos).take len
  ({ s with fpos := fpos + d.length, tell := some (t + d.length), didRead := s.rbuffered }, d)

/-- `SFTPHandle.write(offset, data)`.  In append mode nothing seeks (the OS appends and leaves the position
    at EOF); the cached offset `__tell` is dropped (it was advanced by `len(data)` before the fix). -/
def srvWrite (s : Srv) (off : Nat) (d : Bytes) : Srv :=
  if s.append then
    let c := s.content ++ d
    { s with content := c, fpos := if d.isEmpty then s.fpos else c.length,
             tell := none }
  else
    let t := s.tell.getD s.fpos
    let (fpos, t) := if off ≠ t then (off, off) else (s.fpos, t)
    { s with content := overlay s.content fpos d, fpos := fpos + d.length, tell := some (t + d.length) }

/-- FSETSTAT with a size → `StubSFTPHandle.chattr` → `SFTPServer.set_file_attr(filename, attr)` -/
def srvTruncate (s : Srv) (n : Nat) : Srv :=
  let c := if s.truncZero then List.replicate n 0
           else s.content.take n ++ List.replicate (n - s.content.length) 0
  { s with content := c, stale := s.stale || s.didRead }

/-- `SFTPFile._read` / `_write` against the server (prefetch off).  `maxReq` = `MAX_REQUEST_SIZE`. -/
def sftpOps (maxReq : Nat) : Ops Srv where
  read s realpos n :=
    if realpos < 0 then (s, .error (.stream eStruct))
    else if s.stale then (s, .error (.stream eUnmodelled))
    else
      let (s', d) := srvRead s realpos.toNat (min n maxReq)
      (s', .ok d)
  write s realpos data :=
    if realpos < 0 then (s, .error (.stream eStruct))
    else
      let k := min data.length maxReq
      (srvWrite s realpos.toNat (data.take k), .ok k)
  bound s realpos := s.content.length - realpos.toNat
  seekable := true

/-- `_get_size()`: `stat().st_size`, 0 if anything goes wrong (closed handle) -/
def getSize (s : Srv) : Int := if s.hopen then s.content.length else 0

/-- `SFTPFile.seek` (no closed test, no range test, any whence other than 0/1 means SEEK_END) -/
def seek (o : Ops Srv) (f : BF Srv) (off : Int) (whence : Nat) : Res Srv Unit :=
  match flush o f with
  | (f, .error e) => (f, .error e)
  | (f, .ok ()) =>
    let p : Int := if whence == 0 then off else if whence == 1 then f.pos + off else getSize f.s + off
    ({ f with pos := p, realpos := p, rbuf := [] }, .ok ())

/-- `SFTPFile.truncate(size)`: flush buffered writes, drop read-ahead, then an FSETSTAT -/
def truncate (o : Ops Srv) (f : BF Srv) (size : Int) : Res Srv Unit :=
  match flush o f with
  | (f, .error e) => (f, .error e)
  | (f, .ok ()) =>
    let f := { f with rbuf := [], realpos := f.pos }
    if size < 0 then (f, .error (.stream eStruct))
    else if !f.s.hopen then (f, .error (.stream eServer))
    else ({ f with s := srvTruncate f.s size.toNat }, .ok ())

/-- `SFTPFile.close()` -/
def close (o : Ops Srv) (f : BF Srv) : Res Srv Unit :=
  if f.closed then (f, .ok ())
  else match BufFile.close o f with
    | (f, .error e) => (f, .error e)
    | (f, .ok ()) => ({ f with s := { f.s with hopen := false } }, .ok ())

/-! ## opening: `SFTPClient.open` flags → `_convert_pflags` → `StubSFTPServer.open` → `SFTPFile.__init__` -/

/-- `fs` = the file's content if it exists.  Result: the open file, or `none` if OPEN failed. -/
def sftpOpen (fs : Option Bytes) (mode : List Char) (bufsize : Int) (dflt : Nat) (truncZero : Bool)
    (rbuffered : Bool := true) : Option (BF Srv) :=
  let has (c : Char) := mode.contains c
  let create := has 'w' || has 'a' || has 'x'
  let excl := has 'x'
  let trunc := has 'w'
  let app := has 'a'
  match fs, create, excl with
  | none, false, _ => none                 -- ENOENT
  | some _, _, true => none                -- EEXIST
  | _, _, _ =>
    let c := if trunc then [] else fs.getD []
    let s : Srv := { content := c, append := app, truncZero := truncZero, rbuffered := rbuffered }
    let f0 : BF Srv := { s := s, dflt := dflt, bufsize := dflt }
    some (setMode f0 mode bufsize (getSize s))

/-! ## programs -/

inductive FOp
  | read (n : Option Nat)
  | readline (n : Option Nat)
  | readlines (hint : Option Int)
  | write (d : Bytes)
  | seek (off : Int) (whence : Nat)
  | tell
  | flush
  | truncate (size : Int)
  | close
  deriving Repr

def sstep (o : Ops Srv) (f : BF Srv) : FOp → BF Srv × Out
  | .read n => outOf .bytes (BufFile.read o f n)
  | .readline n => outOf .bytes (BufFile.readline o f n)
  | .readlines h => outOf .lines (BufFile.readlines o f h)
  | .write d => outOf (fun _ => .unit) (BufFile.write o f d)
  | .seek off wh => outOf (fun _ => .unit) (seek o f off wh)
  | .tell => (f, .pos (BufFile.tell f))
  | .flush => outOf (fun _ => .unit) (BufFile.flush o f)
  | .truncate n => outOf (fun _ => .unit) (truncate o f n)
  | .close => outOf (fun _ => .unit) (close o f)

def srun (o : Ops Srv) : BF Srv → List FOp → BF Srv × List Out
  | f, [] => (f, [])
  | f, op :: ops =>
    let r := sstep o f op
    let rs := srun o r.1 ops
    (rs.1, r.2 :: rs.2)

end PV.SftpFile
