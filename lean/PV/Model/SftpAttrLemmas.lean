/-
  Helper lemmas for PV.Model.SftpAttr (property theorems: PV/Props/C33.lean).
-/
import PV.Base.WireLemmas
import PV.Model.SftpAttr
namespace PV.SftpAttr
open PV PV.Wire PV.Generated.C33

/-! ### exact reads -/

theorem getInt_exact (pre rest : Bytes) (n : Nat) (h : n < 4294967296) :
    Rd.getInt { content := pre ++ be32 n ++ rest, pos := pre.length }
      = (n, { content := pre ++ be32 n ++ rest, pos := pre.length + 4 }) := by
  have := getBytes_exact pre (be32 n) rest
  simp only [be32, beBytes_length] at this
  simp only [Rd.getInt, be32, this]
  rw [show beVal (beBytes 4 n) = n from beVal_be32 n h]

theorem getU64_exact (pre rest : Bytes) (n : Nat) (h : n < 18446744073709551616) :
    getU64 { content := pre ++ be64 n ++ rest, pos := pre.length }
      = (n, { content := pre ++ be64 n ++ rest, pos := pre.length + 8 }) := by
  have := getBytes_exact pre (be64 n) rest
  simp only [be64, beBytes_length] at this
  simp only [getU64, be64, this]
  rw [show beVal (beBytes 8 n) = n from beVal_be64 n h]

theorem getString_exact (pre s rest : Bytes) (h : s.length < 4294967296) :
    Rd.getString { content := pre ++ encStr s ++ rest, pos := pre.length }
      = (s, { content := pre ++ encStr s ++ rest, pos := pre.length + (4 + s.length) }) := by
  unfold Rd.getString encStr
  have h1 := getInt_exact pre (s ++ rest) s.length h
  have e1 : pre ++ (be32 s.length ++ s) ++ rest = pre ++ be32 s.length ++ (s ++ rest) := by
    simp [List.append_assoc]
  rw [e1, h1]
  simp only
  have h2 := getBytes_exact (pre ++ be32 s.length) s rest
  have e2 : (pre ++ be32 s.length).length = pre.length + 4 := by simp [be32]
  rw [e2] at h2
  have e3 : pre ++ be32 s.length ++ (s ++ rest) = pre ++ be32 s.length ++ s ++ rest := by
    simp [List.append_assoc]
  rw [e3, h2]
  simp [Nat.add_assoc]

@[simp] theorem encStr_length (s : Bytes) : (encStr s).length = 4 + s.length := by
  simp [encStr, be32]

/-! ### dict -/

theorem dictSet_fresh (acc : List (Bytes × Bytes)) (k v : Bytes)
    (h : k ∉ acc.map Prod.fst) : dictSet acc k v = acc ++ [(k, v)] := by
  induction acc with
  | nil => rfl
  | cons kv r ih =>
    obtain ⟨k', v'⟩ := kv
    simp only [List.map_cons, List.mem_cons, not_or] at h
    have hne : ¬ k' = k := fun e => h.1 e.symm
    simp only [dictSet, hne, if_false, ih h.2, List.cons_append]

/-! ### the extended loop reads back what `packExt` wrote -/

theorem packExt_length_cons (k v : Bytes) (l : List (Bytes × Bytes)) :
    (packExt ((k, v) :: l)).length = (4 + k.length) + (4 + v.length) + (packExt l).length := by
  simp [packExt, Nat.add_assoc]

theorem unpackExt_packExt (l : List (Bytes × Bytes)) :
    ∀ (acc : List (Bytes × Bytes)) (pre rest : Bytes),
      (∀ kv ∈ l, kv.1.length < 4294967296 ∧ kv.2.length < 4294967296) →
      ((acc ++ l).map Prod.fst).Nodup →
      unpackExt { content := pre ++ packExt l ++ rest, pos := pre.length } l.length acc
        = (acc ++ l, { content := pre ++ packExt l ++ rest, pos := pre.length + (packExt l).length }) := by
  induction l with
  | nil => intro acc pre rest _ _; simp [unpackExt, packExt]
  | cons kv l ih =>
    intro acc pre rest hlen hnd
    obtain ⟨k, v⟩ := kv
    have hk := (hlen (k, v) (by simp)).1
    have hv := (hlen (k, v) (by simp)).2
    have hl : ∀ kv ∈ l, kv.1.length < 4294967296 ∧ kv.2.length < 4294967296 :=
      fun kv h => hlen kv (by simp [h])
    simp only [List.length_cons, unpackExt]
    -- read the key
    have e1 : pre ++ packExt ((k, v) :: l) ++ rest
        = pre ++ encStr k ++ (encStr v ++ packExt l ++ rest) := by
      simp [packExt, List.append_assoc]
    have g1 := getString_exact pre k (encStr v ++ packExt l ++ rest) hk
    rw [e1, g1]
    simp only
    -- read the value
    have e2 : pre ++ encStr k ++ (encStr v ++ packExt l ++ rest)
        = (pre ++ encStr k) ++ encStr v ++ (packExt l ++ rest) := by
      simp [List.append_assoc]
    have g2 := getString_exact (pre ++ encStr k) v (packExt l ++ rest) hv
    have e3 : (pre ++ encStr k).length = pre.length + (4 + k.length) := by simp
    rw [e3] at g2
    rw [e2, g2]
    simp only
    -- the key is new
    have hfresh : k ∉ acc.map Prod.fst := by
      intro hin
      simp only [List.map_append, List.map_cons] at hnd
      have := (List.nodup_append.mp hnd).2.2
      exact this k hin k (by simp) rfl
    rw [dictSet_fresh acc k v hfresh]
    have e4 : (pre ++ encStr k) ++ encStr v ++ (packExt l ++ rest)
        = (pre ++ encStr k ++ encStr v) ++ packExt l ++ rest := by
      simp [List.append_assoc]
    have e5 : pre.length + (4 + k.length) + (4 + v.length) = (pre ++ encStr k ++ encStr v).length := by
      simp [Nat.add_assoc]
    rw [e4, e5]
    have hnd' : (((acc ++ [(k, v)]) ++ l).map Prod.fst).Nodup := by
      simpa [List.append_assoc] using hnd
    rw [ih (acc ++ [(k, v)]) (pre ++ encStr k ++ encStr v) rest hl hnd']
    simp [packExt, List.append_assoc, Nat.add_assoc]

/-! ### flag arithmetic: decided over the 32 presence combinations with the generated constants -/

theorem flags_table : ∀ s u p t e : Bool,
    has (flagsOf s u p t e) FLAG_SIZE = s ∧ has (flagsOf s u p t e) FLAG_UIDGID = u ∧
    has (flagsOf s u p t e) FLAG_PERMISSIONS = p ∧ has (flagsOf s u p t e) FLAG_AMTIME = t ∧
    has (flagsOf s u p t e) FLAG_EXTENDED = e ∧ flagsOf s u p t e < 4294967296 ∧
    flagsOf s u p t e = bit s FLAG_SIZE + bit u FLAG_UIDGID + bit p FLAG_PERMISSIONS
      + bit t FLAG_AMTIME + bit e FLAG_EXTENDED := by
  decide

end PV.SftpAttr

namespace PV.SftpAttr
open PV PV.Wire PV.Generated.C33

/-! ### the segments `_pack` writes -/

def opt64 : Option Nat → Bytes | some n => be64 n | none => []
def opt32 : Option Nat → Bytes | some n => be32 n | none => []
def segSize (a : Attrs) : Bytes := opt64 a.size
def segPair : Option Nat → Option Nat → Bytes
  | some u, some g => be32 u ++ be32 g
  | _, _ => []
def segMode (a : Attrs) : Bytes := opt32 a.mode
def segExt (a : Attrs) : Bytes :=
  if a.ext.isEmpty then [] else be32 a.ext.length ++ packExt a.ext

def packBytes (a : Attrs) : Bytes :=
  be32 (packFlags a) ++ segSize a ++ segPair a.uid a.gid ++ segMode a ++ segPair a.atime a.mtime ++ segExt a

theorem packFlags_has (a : Attrs) :
    has (packFlags a) FLAG_SIZE = a.size.isSome ∧
    has (packFlags a) FLAG_UIDGID = (a.uid.isSome && a.gid.isSome) ∧
    has (packFlags a) FLAG_PERMISSIONS = a.mode.isSome ∧
    has (packFlags a) FLAG_AMTIME = (a.atime.isSome && a.mtime.isSome) ∧
    has (packFlags a) FLAG_EXTENDED = !a.ext.isEmpty ∧ packFlags a < 4294967296 := by
  have := flags_table a.size.isSome (a.uid.isSome && a.gid.isSome) a.mode.isSome
    (a.atime.isSome && a.mtime.isSome) (!a.ext.isEmpty)
  exact ⟨this.1, this.2.1, this.2.2.1, this.2.2.2.1, this.2.2.2.2.1, this.2.2.2.2.2.1⟩

theorem pack_eq (a : Attrs) (h : a.WF) : pack a = .ok (packBytes a) := by
  obtain ⟨f1, f2, f3, f4, f5, flt⟩ := packFlags_has a
  have s0 : u32 (some (packFlags a)) = .ok (be32 (packFlags a)) := by simp [u32, flt]
  have s1 : whenFlag (packFlags a) FLAG_SIZE (u64 a.size) = .ok (segSize a) := by
    unfold whenFlag segSize; rw [f1]
    cases hs : a.size with
    | none => simp [opt64]
    | some n => simp [u64, h.size n hs, opt64]
  have pair : ∀ (x y : Option Nat) (F : Nat), has (packFlags a) F = (x.isSome && y.isSome) →
      (∀ n, x = some n → n < 4294967296) → (∀ n, y = some n → n < 4294967296) →
      whenFlag (packFlags a) F (do let p ← u32 x; let q ← u32 y; pure (p ++ q)) = .ok (segPair x y) := by
    intro x y F hF hx hy
    unfold whenFlag; rw [hF]
    cases x with
    | none => cases y <;> simp [segPair]
    | some u =>
      cases y with
      | none => simp [segPair]
      | some g =>
        have := hx u rfl; have := hy g rfl
        simp [segPair, u32, *, bind, Except.bind, pure, Except.pure]
  have s2 := pair a.uid a.gid FLAG_UIDGID f2 h.uid h.gid
  have s3 : whenFlag (packFlags a) FLAG_PERMISSIONS (u32 a.mode) = .ok (segMode a) := by
    unfold whenFlag segMode; rw [f3]
    cases hs : a.mode with
    | none => simp [opt32]
    | some n => simp [u32, h.mode n hs, opt32]
  have s4 := pair a.atime a.mtime FLAG_AMTIME f4 h.atime h.mtime
  have s5 : whenFlag (packFlags a) FLAG_EXTENDED
      (do let c ← u32 (some a.ext.length); pure (c ++ packExt a.ext)) = .ok (segExt a) := by
    unfold whenFlag segExt; rw [f5]
    by_cases he : a.ext.isEmpty
    · simp [he]
    · simp [he, u32, h.count, bind, Except.bind, pure, Except.pure]
  unfold pack
  simp only [s0, s1, s2, s3, s4, s5]
  simp only [bind, Except.bind, pure, Except.pure, packBytes]

/-! ### reading one segment back -/

theorem read_size (c pre rest : Bytes) (p : Nat) (o : Option Nat)
    (ho : ∀ n, o = some n → n < 18446744073709551616)
    (hc : c = pre ++ opt64 o ++ rest) (hp : p = pre.length) :
    (if o.isSome then (let (n, r') := getU64 { content := c, pos := p }; (some n, r'))
      else (none, ({ content := c, pos := p } : Rd)))
      = (o, { content := c, pos := p + (opt64 o).length }) := by
  subst hp
  cases o with
  | none => simp [opt64]
  | some n =>
    simp only [opt64] at hc ⊢
    subst hc
    simp only [Option.isSome_some, if_true, getU64_exact pre rest n (ho n rfl)]
    simp [be64]

theorem read_u32 (c pre rest : Bytes) (p : Nat) (o : Option Nat)
    (ho : ∀ n, o = some n → n < 4294967296)
    (hc : c = pre ++ opt32 o ++ rest) (hp : p = pre.length) :
    (if o.isSome then (let (n, r') := Rd.getInt { content := c, pos := p }; (some n, r'))
      else (none, ({ content := c, pos := p } : Rd)))
      = (o, { content := c, pos := p + (opt32 o).length }) := by
  subst hp
  cases o with
  | none => simp [opt32]
  | some n =>
    simp only [opt32] at hc ⊢
    subst hc
    simp only [Option.isSome_some, if_true, getInt_exact pre rest n (ho n rfl)]
    simp [be32]

theorem read_pair (c pre rest : Bytes) (p : Nat) (x y : Option Nat)
    (hx : ∀ n, x = some n → n < 4294967296) (hy : ∀ n, y = some n → n < 4294967296)
    (hxy : x.isSome = y.isSome)
    (hc : c = pre ++ segPair x y ++ rest) (hp : p = pre.length) :
    (if (x.isSome && y.isSome) then
        (let (u, r') := Rd.getInt { content := c, pos := p }; let (g, r'') := r'.getInt; (some u, some g, r''))
      else (none, none, ({ content := c, pos := p } : Rd)))
      = (x, y, { content := c, pos := p + (segPair x y).length }) := by
  subst hp
  cases x with
  | none =>
    cases y with
    | none => simp [segPair]
    | some g => simp at hxy
  | some u =>
    cases y with
    | none => simp at hxy
    | some g =>
      simp only [segPair] at hc ⊢
      have e1 : c = pre ++ be32 u ++ (be32 g ++ rest) := by rw [hc]; simp [List.append_assoc]
      have e2 : c = (pre ++ be32 u) ++ be32 g ++ rest := by rw [hc]; simp [List.append_assoc]
      have g1 := getInt_exact pre (be32 g ++ rest) u (hx u rfl)
      have g2 := getInt_exact (pre ++ be32 u) rest g (hy g rfl)
      have e3 : (pre ++ be32 u).length = pre.length + 4 := by simp [be32]
      rw [e3, ← e2] at g2
      rw [← e1] at g1
      simp only [Option.isSome_some, Bool.and_self, if_true, g1, g2]
      simp [be32, Nat.add_assoc]

theorem read_ext (c pre rest : Bytes) (p : Nat) (a : Attrs) (h : a.WF)
    (hc : c = pre ++ segExt a ++ rest) (hp : p = pre.length) :
    (if (!a.ext.isEmpty) then
        (let (n, r') := Rd.getInt { content := c, pos := p }; unpackExt r' n [])
      else ([], ({ content := c, pos := p } : Rd)))
      = (a.ext, { content := c, pos := p + (segExt a).length }) := by
  subst hp
  unfold segExt at hc ⊢
  by_cases he : a.ext.isEmpty
  · have : a.ext = [] := List.isEmpty_iff.mp he
    simp [this]
  · simp only [he] at hc ⊢
    have e1 : c = pre ++ be32 a.ext.length ++ (packExt a.ext ++ rest) := by
      rw [hc]; simp [List.append_assoc]
    have e2 : c = (pre ++ be32 a.ext.length) ++ packExt a.ext ++ rest := by
      rw [hc]; simp [List.append_assoc]
    have g1 := getInt_exact pre (packExt a.ext ++ rest) a.ext.length h.count
    rw [← e1] at g1
    have g2 := unpackExt_packExt a.ext [] (pre ++ be32 a.ext.length) rest h.lens (by simpa using h.keys)
    have e3 : (pre ++ be32 a.ext.length).length = pre.length + 4 := by simp [be32]
    rw [e3, ← e2] at g2
    simp only [Bool.not_false, if_true, g1, g2]
    simp [be32, Nat.add_assoc]

end PV.SftpAttr
