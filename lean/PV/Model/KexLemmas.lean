/-
  Helper lemmas for the key-exchange model (PV/Model/Kex.lean): square-and-multiply is
  exponentiation, `int.bit_length`, finite-field Diffie-Hellman commutes.
-/
import PV.Model.Kex
import PV.Base.WireLemmas
namespace PV.Kex
open PV PV.Wire

theorem powMod_eq (b e m : Nat) : powMod b e m = b ^ e % m := by
  induction e using Nat.strongRecOn with
  | _ e ih =>
    rw [powMod]
    by_cases h : e = 0
    · subst h; simp
    · simp only [h, dite_false]
      have ih2 := ih (e / 2) (by omega)
      rw [ih2]
      have he : e = e / 2 + e / 2 + e % 2 := by omega
      by_cases ho : e % 2 = 1
      · simp only [ho, if_true]
        conv => rhs; rw [he, ho, Nat.pow_succ, Nat.pow_add]
        simp [Nat.mul_mod]
      · have ho' : e % 2 = 0 := by omega
        simp only [ho']
        conv => rhs; rw [he, ho', Nat.add_zero, Nat.pow_add]
        simp [Nat.mul_mod]

theorem powMod_lt (b e m : Nat) (hm : 0 < m) : powMod b e m < m := by
  rw [powMod_eq]; exact Nat.mod_lt _ hm

/-- finite-field Diffie-Hellman: `(g^x mod p)^y mod p = (g^y mod p)^x mod p` (no hypothesis on `p`, `g`) -/
theorem dh_comm (g x y p : Nat) : powMod (powMod g x p) y p = powMod (powMod g y p) x p := by
  simp only [powMod_eq]
  rw [← Nat.pow_mod, ← Nat.pow_mod, ← Nat.pow_mul, ← Nat.pow_mul, Nat.mul_comm]

theorem pyPow_nat (b e m : Nat) : pyPow (b : Int) e m = b ^ e % m := by
  unfold pyPow
  have : ((b : Int) % (m : Int)).toNat = b % m := by
    omega
  rw [this, powMod_eq, ← Nat.pow_mod]

theorem pyPow_nat' (b e m : Nat) : pyPow (b : Int) e m = powMod b e m := by
  rw [pyPow_nat, powMod_eq]

theorem natBits_zero : natBits 0 = 0 := by rw [natBits]; simp

theorem natBits_eq_log2 (n : Nat) (h : n ≠ 0) : natBits n = Nat.log2 n + 1 := by
  induction n using Nat.strongRecOn with
  | _ n ih =>
    rw [natBits]
    simp only [h, dite_false]
    by_cases h2 : n / 2 = 0
    · rw [h2, natBits_zero, Nat.log2_def]
      have : ¬ 2 ≤ n := by omega
      simp [this]
    · rw [ih (n / 2) (by omega) h2]
      have : 2 ≤ n := by omega
      conv => rhs; rw [Nat.log2_def]
      simp [this]

/-- `k ≤ bit_length n ↔ 2^(k-1) ≤ n` and `bit_length n ≤ k ↔ n < 2^k` (for `n ≠ 0`, `k ≠ 0`) -/
theorem le_natBits (n k : Nat) (h : n ≠ 0) : k + 1 ≤ natBits n ↔ 2 ^ k ≤ n := by
  rw [natBits_eq_log2 n h, ← Nat.le_log2 h]; omega

theorem natBits_le (n k : Nat) (h : n ≠ 0) : natBits n ≤ k ↔ n < 2 ^ k := by
  rw [natBits_eq_log2 n h, ← Nat.log2_lt h]; omega

/-! ### reading back what `add_string` / `add_mpint` wrote -/

theorem getInt_exact (pre rest : Bytes) (n : Nat) (h : n < 4294967296) :
    Rd.getInt { content := pre ++ be32 n ++ rest, pos := pre.length }
      = (n, { content := pre ++ be32 n ++ rest, pos := pre.length + 4 }) := by
  have := getBytes_exact pre (be32 n) rest
  simp only [be32, beBytes_length] at this
  simp only [Rd.getInt, be32, this]
  rw [show beVal (beBytes 4 n) = n from beVal_be32 n h]

theorem getString_exact (pre s rest : Bytes) (h : s.length < 4294967296) :
    Rd.getString { content := pre ++ encStr s ++ rest, pos := pre.length }
      = (s, { content := pre ++ encStr s ++ rest, pos := pre.length + (encStr s).length }) := by
  unfold Rd.getString encStr
  have h1 := getInt_exact pre (s ++ rest) s.length h
  have e1 : pre ++ (be32 s.length ++ s) ++ rest = pre ++ be32 s.length ++ (s ++ rest) := by
    simp [List.append_assoc]
  rw [e1, h1]
  simp only
  have h2 := getBytes_exact (pre ++ be32 s.length) s rest
  have e2 : (pre ++ be32 s.length).length = pre.length + 4 := by simp [be32]
  rw [e2] at h2
  have e3 : pre ++ be32 s.length ++ (s ++ rest) = pre ++ be32 s.length ++ s ++ rest := by
    simp [List.append_assoc]
  rw [e3, h2]
  simp [be32]; omega

/-- the body of an mpint as `Message.add_mpint` writes it -/
def mpintBody (z : Int) : Bytes := if z = 0 then [] else deflate z

theorem encMpint_eq (z : Int) : encMpint z = encStr (mpintBody z) := rfl

/-- first field of a message -/
theorem getString_head (s rest : Bytes) (h : s.length < 4294967296) :
    (rd (encStr s ++ rest)).getString = (s, { content := encStr s ++ rest, pos := (encStr s).length }) := by
  have := getString_exact [] s rest h
  simpa [rd] using this

/-- second field of a message -/
theorem getString_second (a s rest : Bytes) (h : s.length < 4294967296) :
    Rd.getString { content := encStr a ++ encStr s ++ rest, pos := (encStr a).length }
      = (s, { content := encStr a ++ encStr s ++ rest, pos := (encStr a).length + (encStr s).length }) :=
  getString_exact (encStr a) s rest h

/-! ### three-string bodies, injectivity of `add_string` -/

theorem parse3 (a b c : Bytes) (ha : a.length < 4294967296) (hb : b.length < 4294967296)
    (hc : c.length < 4294967296) :
    (rd (encStr a ++ encStr b ++ encStr c)).getString.1 = a ∧
    (rd (encStr a ++ encStr b ++ encStr c)).getString.2.getString.1 = b ∧
    (rd (encStr a ++ encStr b ++ encStr c)).getString.2.getString.2.getString.1 = c := by
  have h1 := getString_exact [] a (encStr b ++ encStr c) ha
  have h2 := getString_exact (encStr a) b (encStr c) hb
  have h3 := getString_exact (encStr a ++ encStr b) c [] hc
  simp only [List.nil_append, List.length_nil, Nat.zero_add, List.append_nil, List.length_append] at h1 h2 h3
  have e : encStr a ++ encStr b ++ encStr c = encStr a ++ (encStr b ++ encStr c) := List.append_assoc _ _ _
  unfold rd
  rw [e, h1]
  simp only
  rw [← e, h2]
  simp only
  rw [h3]
  simp

theorem be32_inj (m n : Nat) (hm : m < 4294967296) (hn : n < 4294967296) (h : be32 m = be32 n) : m = n := by
  have := congrArg beVal h
  rwa [beVal_be32 m hm, beVal_be32 n hn] at this

theorem encStr_append_inj (a b x y : Bytes) (ha : a.length < 4294967296) (hb : b.length < 4294967296)
    (h : encStr a ++ x = encStr b ++ y) : a = b ∧ x = y := by
  unfold encStr at h
  rw [List.append_assoc, List.append_assoc] at h
  have hl : (be32 a.length).length = (be32 b.length).length := by simp [be32]
  have h1 := List.append_inj h hl
  have hlen := be32_inj _ _ ha hb h1.1
  have h2 := List.append_inj h1.2 hlen
  exact h2

end PV.Kex
