/-
  PV.Model.BufferedPipe — executable model of paramiko/buffered_pipe.py (class BufferedPipe).

  Concurrency convention (DESIGN.md §4 "Threads"): every method body runs under `self._lock`; the only place
  where the lock is given up inside a method is `self._cv.wait(timeout)` in `read`.  The atomic regions the code
  really has are therefore
    feed / empty / close / set_event / read_ready / __len__      — one region each
    read                                                          — region 1: entry … (return | raise | wait)
                                                                    region k: wake-up … (return | raise | wait)
  `step : St → Act → St` executes one region; a schedule is a list of actions, all schedules = all lists.
  A thread that sits in `cv.wait` is a `Waiter` in the state; `Act.wake tid elapsed` is "the wait of `tid`
  returned (notify, timeout or spurious) and `time.time() - then` was `elapsed`" — any wake-up at any moment with
  any elapsed time is allowed, which over-approximates what `threading.Condition` can do.
  Time is integer ticks (the harness uses integer-valued floats with a fake clock, so the arithmetic is exact).

  The model mirrors the code after `fix: BufferedPipe.read re-checks the buffer before raising PipeTimeout`
  (`fixedDeadline = true`); `stepG false` is the code before that fix and is kept for the witness theorem.
-/
import PV.Base.Bytes
namespace PV.BufferedPipe
open PV

/-- result of a completed `read` (bytes returned or PipeTimeout raised); `empty()` always gives `data`. -/
inductive Res where
  | data (b : Bytes)
  | timeout
  deriving DecidableEq, Repr

/-- a thread parked in `self._cv.wait(timeout)` inside `read(nbytes, timeout)`; `timeout` is the *remaining*
    time (`None` = wait forever) -/
structure Waiter where
  tid : Nat
  n : Nat
  timeout : Option Int
  deriving DecidableEq, Repr

/-- what happened in a step (ghost log entry) -/
inductive Ev where
  | fed (d : Bytes)
  | got (tid : Nat) (r : Res)        -- a read completed
  | emptied (tid : Nat) (d : Bytes)  -- `empty()` returned d
  | closedEv
  deriving DecidableEq, Repr

structure St where
  buf : Bytes := []
  closed : Bool := false
  /-- `none`: no event attached; `some b`: event attached and currently set (`true`) / cleared -/
  event : Option Bool := none
  waiting : List Waiter := []
  log : List Ev := []
  deriving Repr

def init : St := {}

inductive Act where
  | feed (d : Bytes)
  | read (tid : Nat) (n : Nat) (timeout : Option Int)
  | wake (tid : Nat) (elapsed : Int)
  | empty (tid : Nat)
  | close
  | setEvent
  deriving DecidableEq, Repr

def isWaiting (s : St) (tid : Nat) : Bool := s.waiting.any (·.tid == tid)
def findWaiter (s : St) (tid : Nat) : Option Waiter := s.waiting.find? (·.tid == tid)
def dropWaiter (s : St) (tid : Nat) : St := { s with waiting := s.waiting.filter (·.tid != tid) }

/-- `if (self._event is not None) and not self._closed: self._event.clear()` -/
def clearEvent (s : St) : St :=
  match s.event with
  | some _ => if s.closed then s else { s with event := some false }
  | none => s

/-- `if self._event is not None: self._event.set()` -/
def setEventFlag (s : St) : St :=
  match s.event with
  | some _ => { s with event := some true }
  | none => s

/-- the tail of `read` ("something's in the buffer and we have the lock!") -/
def deliver (s : St) (tid n : Nat) : St :=
  if s.buf.length ≤ n then
    let s1 := clearEvent { s with buf := [] }
    { s1 with log := s1.log ++ [.got tid (.data s.buf)] }
  else
    { s with buf := s.buf.drop n, log := s.log ++ [.got tid (.data (s.buf.take n))] }

def raiseTimeout (s : St) (tid : Nat) : St := { s with log := s.log ++ [.got tid .timeout] }

/-- `timeout is not None and timeout <= 0.0` -/
def isExpired : Option Int → Bool
  | some x => decide (x ≤ 0)
  | none => false

/-- the code after `self._cv.wait(timeout)` returned for waiter `w` (elapsed = `time.time() - then`) -/
def wakeWith (fixedDeadline : Bool) (s : St) (w : Waiter) (elapsed : Int) : St :=
  let s0 := dropWaiter s w.tid
  if isExpired (w.timeout.map (· - elapsed)) then
    if fixedDeadline && (!s.buf.isEmpty || s.closed) then deliver s0 w.tid w.n    -- `break`
    else raiseTimeout s0 w.tid
  else if s.buf.isEmpty && !s.closed then
    { s0 with waiting := s0.waiting ++ [{ w with timeout := w.timeout.map (· - elapsed) }] }   -- wait again
  else deliver s0 w.tid w.n

/-- one atomic region.  `fixedDeadline` selects the code after (true) / before (false) the C26 fix. -/
def stepG (fixedDeadline : Bool) (s : St) : Act → St
  | .feed d =>
    -- `if self._event is not None and len(data) > 0: self._event.set()`
    let s1 := if d.isEmpty then s else setEventFlag s
    { s1 with buf := s1.buf ++ d, log := s1.log ++ [.fed d] }
  | .read tid n timeout =>
    if isWaiting s tid then s            -- that thread is parked in cv.wait: it cannot start another call
    else if s.buf.isEmpty then
      if s.closed then { s with log := s.log ++ [.got tid (.data [])] }
      else if timeout == some 0 then raiseTimeout s tid
      else { s with waiting := s.waiting ++ [{ tid := tid, n := n, timeout := timeout }] }
    else deliver s tid n
  | .wake tid elapsed =>
    match findWaiter s tid with
    | none => s
    | some w => wakeWith fixedDeadline s w elapsed
  | .empty tid =>
    if isWaiting s tid then s
    else
      let s1 := clearEvent { s with buf := [] }
      { s1 with log := s1.log ++ [.emptied tid s.buf] }
  | .close =>
    let s1 := setEventFlag { s with closed := true }
    { s1 with log := s1.log ++ [.closedEv] }
  | .setEvent =>
    { s with event := some (s.closed || !s.buf.isEmpty) }

/-- the current code (after the fix) -/
def step : St → Act → St := stepG true

def run (s : St) (acts : List Act) : St := acts.foldl step s
def runG (f : Bool) (s : St) (acts : List Act) : St := acts.foldl (stepG f) s

/-! ## observations used by the property statements -/

/-- bytes handed out by an event (reads and empties) -/
def Ev.taken : Ev → Bytes
  | .got _ (.data b) => b
  | .emptied _ d => d
  | _ => []

def Ev.fedBytes : Ev → Bytes
  | .fed d => d
  | _ => []

/-- everything read or emptied so far, in the order in which it was taken out of the buffer -/
def takenOf (log : List Ev) : Bytes := log.flatMap Ev.taken
/-- everything fed so far, in order -/
def fedOf (log : List Ev) : Bytes := log.flatMap Ev.fedBytes

/-- feed payloads of a schedule, in order (a function of the schedule alone) -/
def Act.fedBytes : Act → Bytes
  | .feed d => d
  | _ => []
def fedOfActs (acts : List Act) : Bytes := acts.flatMap Act.fedBytes

/-- the event the step appended to the log, if any -/
def newEvents (s s' : St) : List Ev := s'.log.drop s.log.length

/-- read sizes ≥ 1 (the property's quantifier) -/
def Act.sizeOk : Act → Prop
  | .read _ n _ => 1 ≤ n
  | _ => True

def WaitersOk (s : St) : Prop := ∀ w ∈ s.waiting, 1 ≤ w.n

end PV.BufferedPipe
