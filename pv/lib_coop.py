"""Deterministic cooperative scheduler for running real (threaded) paramiko code under a chosen schedule.

Logical threads are real ``threading.Thread``s, but exactly one of them runs at any time: a logical thread runs
only between ``Coop.step(t)`` (called by the harness thread) and its next *park*.  A thread parks

* ``idle``   – its current job returned (result in ``t.result``) and it waits for the next job,
* ``line``   – (optional, ``trace=`` predicate on code objects) before executing a source line of a traced function
  (``sys.settrace``), i.e. statement granularity inside the selected paramiko functions,
* ``lock``   – in ``CoopLock.acquire`` when the lock is held by somebody else (enabled again once it is free),
* ``cv``     – in ``CoopCondition.wait`` (enabled whenever the condition's lock is free; the *harness* decides when the
  wait ends and how much time ``time.time()`` will have advanced for that thread → no real waiting, no sleeps),
* ``osread`` – in ``os.read`` on a descriptor that has nothing to read (``OsProxy``; enabled once it is readable),
* ``done``   – the thread ended.

Every blocking primitive the code under test uses is replaced by a cooperative one, so "run until the thread
parks" always terminates; the only timeout in here guards against bugs in the harness itself (→ InfraError).
"""
import os
import select
import sys
import threading
import _thread

from pv.core import InfraError

_HANG = 120.0  # seconds; a harness bug, never a verdict


class _Abort(BaseException):
    pass


class _Sem:
    """binary semaphore on a raw lock (much cheaper than threading.Semaphore; hand-offs strictly alternate)"""

    def __init__(self):
        self._l = _thread.allocate_lock()
        self._l.acquire()

    def acquire(self, timeout=-1):
        return self._l.acquire(True, timeout)

    def release(self):
        self._l.release()


def current():
    return getattr(threading.current_thread(), "_coop_lt", None)


class LThread:
    def __init__(self, sched, name):
        self.sched = sched
        self.name = name
        self.go = _Sem()
        self.state = "idle"
        self.info = None
        self.job = None
        self.result = None
        self.clock = 0.0  # per-thread fake clock (see FakeTime)
        self.notified = False
        self.timed_wait = None
        self.expired = False
        self.steps = 0
        self.traced_calls = 0
        self.thread = threading.Thread(target=self._main, daemon=True, name="coop-" + str(name))
        self.thread._coop_lt = self
        self.thread.start()

    def _main(self):
        self.go.acquire()
        if self.sched.trace is not None:
            sys.settrace(self._globaltrace)
        try:
            while self.job is not None and not self.sched.aborting:
                job, self.job = self.job, None
                try:
                    self.result = ("ok", job())
                except _Abort:
                    break
                except BaseException as e:  # the code under test raised: that is a result
                    self.result = ("exc", e)
                if self.sched.aborting:
                    break
                try:
                    self._park("idle")
                except _Abort:
                    break
        finally:
            sys.settrace(None)
            self.state = "done"
            self.sched.back.release()

    # -- called on the logical thread
    def _park(self, kind, info=None):
        self.state, self.info = kind, info
        self.sched.back.release()
        self.go.acquire()
        if self.sched.aborting:
            raise _Abort()
        self.state = "running"

    def _globaltrace(self, frame, event, arg):
        if event == "call" and self.sched.trace(frame.f_code):
            self.traced_calls += 1
            return self._localtrace
        return None

    def _localtrace(self, frame, event, arg):
        if event == "line" and (self.sched.line_filter is None or self.sched.line_filter(self, frame)):
            code = frame.f_code
            self._park("line", (os.path.basename(code.co_filename), frame.f_lineno, code.co_name, frame))
            self.info = None  # do not keep the frame alive
        return self._localtrace


class Coop:
    def __init__(self, trace=None):
        self.trace = trace
        self.line_filter = None  # optional (lthread, frame) -> bool: park only at these line events
        self.back = _Sem()
        self.threads = []
        self.aborting = False

    def thread(self, name):
        t = LThread(self, name)
        self.threads.append(t)
        return t

    def enabled(self, t):
        st = t.state
        if st in ("line", "event", "lockyield"):
            return True
        if st == "idle":
            return t.job is not None
        if st == "lock":
            return t.info.free_for(t)      # (a timed wait can also be ended by Coop.expire)
        if st == "cv":
            return t.info.lock.free_for(t)
        if st == "osread":
            return bool(select.select([t.info], [], [], 0)[0])
        return False

    def step(self, t):
        """Let ``t`` run until it parks again; returns its new state."""
        if t.state == "done":
            raise InfraError("coop: step of a finished thread")
        t.steps += 1
        t.go.release()
        if not self.back.acquire(timeout=_HANG):
            raise InfraError("coop: logical thread %s did not park (state %s)" % (t.name, t.state))
        return t.state

    def begin(self, t, fn):
        """Give idle thread ``t`` the job ``fn`` and run it to its first park."""
        if t.state != "idle" or t.job is not None:
            raise InfraError("coop: begin on a busy thread")
        t.job, t.result = fn, None
        return self.step(t)

    def wake(self, t, elapsed=0.0, notified=True):
        """End the ``cv.wait`` of ``t``: its clock advances by ``elapsed``; run to the next park."""
        if t.state != "cv":
            raise InfraError("coop: wake of a thread that is not in cv.wait")
        t.clock += elapsed
        t.notified = notified
        return self.step(t)

    def can_expire(self, t):
        """``t`` waits for a lock with a timeout and the lock is still held by somebody else"""
        return t.state == "lock" and getattr(t, "timed_wait", None) is not None and not t.info.free_for(t)

    def expire(self, t):
        """let the timed lock acquisition of ``t`` time out; run to the next park"""
        if not self.can_expire(t):
            raise InfraError("coop: expire of a thread that is not in a timed lock wait")
        t.expired = True
        return self.step(t)

    def run_to_idle(self, t, limit=100000):
        """Keep stepping ``t`` while it is enabled and not idle/done (used to finish an operation alone)."""
        n = 0
        while t.state not in ("idle", "done") and self.enabled(t):
            self.step(t)
            n += 1
            if n > limit:
                raise InfraError("coop: thread does not come to rest")
        return t.state

    def shutdown(self):
        """Unwind every logical thread (parked ones get an _Abort at their park point)."""
        self.aborting = True
        for t in self.threads:
            if t.state != "done":
                t.job = None
                t.go.release()
                if not self.back.acquire(timeout=_HANG):
                    raise InfraError("coop: thread %s did not unwind" % t.name)
        for t in self.threads:
            t.thread.join(_HANG)


class CoopLock:
    """Drop-in for ``threading.Lock`` / ``RLock`` (``reentrant=True``) whose blocking is a scheduler park."""

    def __init__(self, sched, name="", reentrant=False, always_yield=False, hook=None):
        self.sched, self.name, self.reentrant = sched, name, reentrant
        self.owner = None  # LThread, or "main" for the harness thread
        self.count = 0
        self.always_yield = always_yield  # a logical thread parks before every acquisition, also of a free lock
        self.hook = hook                  # called with the new owner after every acquisition

    def _me(self):
        return current() or "main"

    def free_for(self, t):
        return self.owner is None or (self.reentrant and self.owner is t)

    def acquire(self, blocking=True, timeout=-1):
        """``timeout`` >= 0 makes this a *timed* acquisition: while the lock is held by somebody else the logical thread
        parks with ``timed_wait`` set, and the harness may end the wait either by granting the lock once it is free or by
        letting it time out (``Coop.expire``) — then this returns False and the thread's fake clock has advanced by the
        timeout.  A zero timeout / non-blocking attempt on a held lock fails at once."""
        me = self._me()
        timed = blocking and timeout is not None and timeout >= 0
        if self.always_yield and me != "main" and blocking and not (self.reentrant and self.owner is me):
            me._park("lockyield", self)     # a pure yield point: always enabled
        while not self.free_for(me):
            if not blocking or (timed and timeout == 0):
                return False
            if me == "main":
                raise InfraError("coop: the harness thread would block on lock %s" % self.name)
            me.timed_wait = timeout if timed else None
            me.expired = False
            try:
                me._park("lock", self)
            finally:
                me.timed_wait = None
            if me.expired:
                me.expired = False
                me.clock += timeout
                return False
        self.owner = me
        self.count += 1
        if self.hook is not None:
            self.hook(me)
        return True

    def release(self):
        if self.owner is None:
            if self.sched.aborting:
                return
            raise RuntimeError("release unlocked lock")
        self.count -= 1
        if self.count == 0:
            self.owner = None

    def locked(self):
        return self.owner is not None

    def _is_owned(self):
        return self.owner is self._me()

    __enter__ = acquire

    def __exit__(self, *a):
        self.release()


class CoopCondition:
    """Drop-in for ``threading.Condition(lock)`` over a CoopLock."""

    def __init__(self, lock):
        self.lock = lock
        self.waiters = []

    def acquire(self, *a, **k):
        return self.lock.acquire(*a, **k)

    def release(self):
        self.lock.release()

    def __enter__(self):
        return self.lock.acquire()

    def __exit__(self, *a):
        self.lock.release()

    def wait(self, timeout=None):
        me = current()
        if me is None:
            raise InfraError("coop: the harness thread would wait on a condition")
        if self.lock.owner is not me:
            raise RuntimeError("cannot wait on un-acquired lock")
        saved, self.lock.count, self.lock.owner = self.lock.count, 0, None
        self.waiters.append(me)
        me.notified = False
        me.wait_timeout = timeout
        try:
            me._park("cv", self)
        finally:
            if me in self.waiters:
                self.waiters.remove(me)
        if not self.lock.free_for(me):
            raise InfraError("coop: woken while the condition's lock is held")
        self.lock.owner, self.lock.count = me, saved
        if self.lock.hook is not None:
            self.lock.hook(me)
        return me.notified

    def notify(self, n=1):
        for t in self.waiters[:n]:
            t.notified = True

    def notify_all(self):
        for t in self.waiters:
            t.notified = True

    notifyAll = notify_all


class CoopEvent:
    """Drop-in for ``threading.Event`` whose ``set``/``clear`` are yield points (the calling logical thread parks
    *before* the flag changes — typically while it holds the lock of the object that owns the event)."""

    def __init__(self, sched):
        self.sched = sched
        self.flag = False

    def _yield(self):
        me = current()
        if me is not None:
            me._park("event", self)

    def set(self):
        self._yield()
        self.flag = True

    def clear(self):
        self._yield()
        self.flag = False

    def is_set(self):
        return self.flag

    isSet = is_set


class ThreadingProxy:
    """Replacement for the ``threading`` module inside a module under test: Lock()/RLock() give cooperative locks."""

    def __init__(self, sched):
        self._sched = sched
        self.made = []

    def Lock(self):
        k = CoopLock(self._sched, "Lock#%d" % len(self.made))
        self.made.append(k)
        return k

    def RLock(self):
        k = CoopLock(self._sched, "RLock#%d" % len(self.made), reentrant=True)
        self.made.append(k)
        return k

    def Condition(self, lock=None):
        return CoopCondition(lock if lock is not None else self.RLock())

    def __getattr__(self, k):
        return getattr(threading, k)


class FakeTime:
    """Replacement for the ``time`` module inside the code under test: a per-logical-thread clock that only the
    harness advances (``Coop.wake(t, elapsed)``), so timeout arithmetic is exact and instantaneous."""

    def __init__(self, real):
        self._real = real

    def time(self):
        me = current()
        return me.clock if me is not None else 0.0

    def __getattr__(self, k):
        return getattr(self._real, k)


class OsProxy:
    """Replacement for ``os`` inside paramiko.pipe: ``read`` on an empty descriptor parks instead of blocking."""

    def __init__(self):
        self.reads = 0
        self.writes = 0

    def read(self, fd, n):
        me = current()
        while not select.select([fd], [], [], 0)[0]:
            if me is None:
                raise InfraError("coop: the harness thread would block in os.read")
            me._park("osread", fd)
        self.reads += 1
        return os.read(fd, n)

    def write(self, fd, data):
        self.writes += 1
        return os.write(fd, data)

    def __getattr__(self, k):
        return getattr(os, k)
