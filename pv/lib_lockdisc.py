"""Lock discipline facts from the AST (C13): every explicit ``X.acquire()`` on a lock used by the blocking
paths is released on every path, exceptions included.

A site is *safe* when, following the statements after the acquire in the same block (and after the enclosing loop
when the path leaves it by ``break``), a ``X.release()`` or a ``try … finally: X.release()`` is reached and every
statement before it is one that cannot raise (event tests/sets/clears, simple assignments, ``break``).  The form
``try: X.acquire(); … finally: X.release()`` is accepted as well.
"""
import ast
import os

FILES = ["transport.py", "channel.py", "buffered_pipe.py", "packet.py", "pipe.py", "sftp_client.py"]
HARMLESS_CALLS = {"is_set", "set", "clear", "notify", "notify_all", "isSet"}


def _src(n):
    try:
        return ast.unparse(n)
    except Exception:
        return "?"


def _is_call(stmt, attr, lock=None):
    if isinstance(stmt, ast.Expr) and isinstance(stmt.value, ast.Call) and isinstance(stmt.value.func, ast.Attribute) \
            and stmt.value.func.attr == attr:
        return lock is None or _src(stmt.value.func.value) == lock
    return False


def _harmless(stmt):
    if isinstance(stmt, (ast.Break, ast.Pass, ast.Continue)):
        return True
    if isinstance(stmt, ast.Assign):
        return all(not isinstance(n, ast.Call) or (isinstance(n.func, ast.Attribute) and n.func.attr in HARMLESS_CALLS)
                   for n in ast.walk(stmt.value))
    if isinstance(stmt, ast.Expr) and isinstance(stmt.value, ast.Call):
        f = stmt.value.func
        return isinstance(f, ast.Attribute) and f.attr in HARMLESS_CALLS
    return False


def _try_releases(stmt, lock):
    return isinstance(stmt, ast.Try) and any(_is_call(s, "release", lock) for s in stmt.finalbody)


def _follow(stmts, lock, after_loop):
    """True if the path through ``stmts`` reaches a release / try-finally-release with only harmless statements."""
    for i, st in enumerate(stmts):
        if _is_call(st, "release", lock) or _try_releases(st, lock):
            return True
        if isinstance(st, ast.If):
            test_ok = all(not isinstance(n, ast.Call) or (isinstance(n.func, ast.Attribute) and
                                                         n.func.attr in HARMLESS_CALLS) for n in ast.walk(st.test))
            if not test_ok:
                return False
            rest = stmts[i + 1:]
            for branch in (st.body, st.orelse):
                path = list(branch)
                if any(isinstance(s, ast.Break) for s in path):
                    path = [s for s in path if not isinstance(s, ast.Break)] + list(after_loop)
                else:
                    path = path + rest
                if not _follow(path, lock, after_loop):
                    return False
            return True
        if not _harmless(st):
            return False
    return False


def sites(repo):
    out = []
    for fn in FILES:
        path = os.path.join(repo, "paramiko", fn)
        if not os.path.exists(path):
            continue
        tree = ast.parse(open(path).read())

        def visit(node, func, loop_after):
            for field in ("body", "orelse", "finalbody", "handlers"):
                block = getattr(node, field, None)
                if not isinstance(block, list):
                    continue
                for i, st in enumerate(block):
                    if isinstance(st, ast.ExceptHandler):
                        visit(st, func, loop_after)
                        continue
                    f2 = st if isinstance(st, (ast.FunctionDef, ast.AsyncFunctionDef)) else func
                    la = loop_after
                    if isinstance(st, (ast.While, ast.For)):
                        la = block[i + 1:]
                    if isinstance(st, (ast.FunctionDef, ast.AsyncFunctionDef)):
                        la = []
                    if _is_call(st, "acquire"):
                        lock = _src(st.value.func.value)
                        # form A: acquire followed by statements leading to release / try-finally
                        ok = _follow(block[i + 1:], lock, loop_after)
                        # form B: acquire is the first statement of a try whose finally releases
                        if not ok and isinstance(node, ast.Try) and field == "body" and \
                                any(_is_call(s, "release", lock) for s in node.finalbody):
                            ok = True
                        out.append({"file": fn, "func": func.name if func else "<module>", "line": st.lineno,
                                    "lock": lock, "safe": ok})
                    visit(st, f2, la)

        visit(tree, None, [])
    return out


def _find_func(tree, cls, name):
    for n in ast.walk(tree):
        if isinstance(n, ast.ClassDef) and n.name == cls:
            for f in n.body:
                if isinstance(f, ast.FunctionDef) and f.name == name:
                    return f
    return None


def _call_src(st):
    if isinstance(st, ast.Expr) and isinstance(st.value, ast.Call):
        return _src(st.value.func)
    return None


def _events(stmts, guarded, out, tree):
    """Ordered walk of a teardown block: the statements that matter to a waiter, in source order."""
    for st in stmts:
        cs = _call_src(st)
        if isinstance(st, ast.Assign) and any(_src(t) == "self.active" for t in st.targets) and \
                isinstance(st.value, ast.Constant) and st.value.value is False:
            out.append(("set_inactive", guarded))
        elif isinstance(st, ast.For):
            body_calls = [_call_src(b) for b in st.body]
            if any(c and c.endswith("._unlink") for c in body_calls):
                out.append(("unlink_channels", guarded))
            elif "channel_events" in _src(st.iter) and any(c and c.endswith(".set") for c in body_calls):
                out.append(("channel_events_set", guarded))
            else:
                out.append(("other", guarded))
        elif isinstance(st, ast.If):
            t = _src(st.test)
            g = guarded or t == "self.active"
            if t == "not self.active" and any(isinstance(b, ast.Return) for b in st.body):
                continue  # close(): nothing to do on a dead transport
            _events(st.body, g, out, tree)
            _events(st.orelse, guarded, out, tree)
        elif isinstance(st, ast.Try):
            _events(st.body, guarded, out, tree)
            _events(st.finalbody, guarded, out, tree)
        elif isinstance(st, ast.While):
            if any(isinstance(n, ast.Call) and _src(n.func) == "self.join" for n in ast.walk(st)):
                out.append(("join_thread", guarded))
            else:
                out.append(("other", guarded))
        elif cs == "self.packetizer.close":
            out.append(("packetizer_close", guarded))
        elif cs == "self.completion_event.set":
            out.append(("completion_set", guarded))
        elif cs == "self.auth_handler.abort":
            out.append(("auth_abort", guarded))
        elif cs == "self.server_accept_cv.notify_all":
            out.append(("accept_notify_all", guarded))
        elif cs == "self.server_accept_cv.notify":
            out.append(("accept_notify_one", guarded))
        elif cs == "self.sock.close":
            out.append(("sock_close", guarded))
        elif cs in ("self.lock.acquire", "self.lock.release"):
            continue
        elif cs == "self.stop_thread":
            f = _find_func(tree, "Transport", "stop_thread")
            if f is not None:
                _events(f.body, guarded, out, tree)
            out.append(("run_tail", guarded))  # from here on the transport thread leaves its loop and runs its tail
        elif isinstance(st, ast.Expr) and isinstance(st.value, ast.Constant):
            continue  # docstring
        else:
            out.append(("other", guarded))


def teardown(repo):
    """The two shutdown paths in source order: the tail of Transport.run() (after the except ladder) and
    Transport.close() with stop_thread() inlined; plus whether Channel._event_pending clears the request event
    only while the channel is open, under the channel lock."""
    tree = ast.parse(open(os.path.join(repo, "paramiko", "transport.py")).read())
    run = _find_func(tree, "Transport", "run")
    tail = []
    if run is not None:
        ladder = None
        for n in ast.walk(run):
            if isinstance(n, ast.Try) and len(n.handlers) >= 3:
                if ladder is None or n.lineno > ladder.lineno:
                    ladder = n
        outer = None
        if ladder is not None:
            for n in ast.walk(run):
                if isinstance(n, ast.Try) and ladder in n.body:
                    outer = n
        if outer is not None:
            i = outer.body.index(ladder)
            _events(outer.body[i + 1:], False, tail, tree)
    close = _find_func(tree, "Transport", "close")
    cl = []
    if close is not None:
        _events(close.body, False, cl, tree)
    ctree = ast.parse(open(os.path.join(repo, "paramiko", "channel.py")).read())
    ep = _find_func(ctree, "Channel", "_event_pending")
    guarded = False
    if ep is not None:
        clears = [n for n in ast.walk(ep) if isinstance(n, ast.Call) and _src(n.func) == "self.event.clear"]
        ok = bool(clears)
        for c in clears:
            # inside `if not self.closed:` inside a try whose finally releases self.lock, acquired just before
            inside_if = any(isinstance(i, ast.If) and _src(i.test) == "not self.closed" and
                            any(c is x for b in i.body for x in ast.walk(b)) for i in ast.walk(ep))
            under_lock = any(isinstance(t, ast.Try) and any(_is_call(s, "release", "self.lock") for s in t.finalbody)
                             and any(c is x for b in t.body for x in ast.walk(b)) for t in ast.walk(ep)) and \
                any(_is_call(s, "acquire", "self.lock") for s in ast.walk(ep) if isinstance(s, ast.Expr))
            ok = ok and inside_if and under_lock
        guarded = ok
    return {"run_tail": tail, "close_seq": [e for e, _ in cl], "event_clear_guarded": guarded}


def lean_table(repo):
    ss = sites(repo)
    td = teardown(repo)
    lines = ["/- GENERATED by pv/lib_lockdisc.py from paramiko/*.py — do not edit. -/",
             "namespace PV.Generated.C13", "",
             "structure LockSite where", "  file : String", "  func : String", "  lock : String", "  safe : Bool",
             "  deriving Repr, DecidableEq", "",
             "/-- every explicit `X.acquire()` in the files behind the blocking APIs -/",
             "def lockSites : List LockSite := ["]
    lines.append(",\n".join('  { file := "%s", func := "%s", lock := "%s", safe := %s }' %
                            (s["file"], s["func"], s["lock"], "true" if s["safe"] else "false") for s in ss))
    lines += ["]", "",
              "/-- tail of `Transport.run()` after the except ladder, in source order: (event, inside `if self.active:`) -/",
              "def runTail : List (String × Bool) := [" +
              ", ".join('("%s", %s)' % (e, "true" if g else "false") for e, g in td["run_tail"]) + "]", "",
              "/-- `Transport.close()` with `stop_thread()` inlined, in source order -/",
              "def closeSeq : List String := [" + ", ".join('"%s"' % e for e in td["close_seq"]) + "]", "",
              "/-- `Channel._event_pending` clears the request event only while the channel is open, under the channel lock -/",
              "def eventClearGuarded : Bool := %s" % ("true" if td["event_clear_guarded"] else "false"), "",
              "end PV.Generated.C13", ""]
    return "\n".join(lines), ss
