"""Lock discipline facts from the AST (C13): every explicit ``X.acquire()`` on a lock used by the blocking
paths is released on every path, exceptions included.

A site is *safe* when, following the statements after the acquire in the same block (and after the enclosing loop
when the path leaves it by ``break``), a ``X.release()`` or a ``try … finally: X.release()`` is reached and every
statement before it is one that cannot raise (event tests/sets/clears, simple assignments, ``break``).  The form
``try: X.acquire(); … finally: X.release()`` is accepted as well.
"""
import ast
import os

FILES = ["transport.py", "channel.py", "buffered_pipe.py", "packet.py", "pipe.py", "sftp_client.py"]
HARMLESS_CALLS = {"is_set", "set", "clear", "notify", "notify_all", "isSet"}


def _src(n):
    try:
        return ast.unparse(n)
    except Exception:
        return "?"


def _is_call(stmt, attr, lock=None):
    if isinstance(stmt, ast.Expr) and isinstance(stmt.value, ast.Call) and isinstance(stmt.value.func, ast.Attribute) \
            and stmt.value.func.attr == attr:
        return lock is None or _src(stmt.value.func.value) == lock
    return False


def _harmless(stmt):
    if isinstance(stmt, (ast.Break, ast.Pass, ast.Continue)):
        return True
    if isinstance(stmt, ast.Assign):
        return all(not isinstance(n, ast.Call) or (isinstance(n.func, ast.Attribute) and n.func.attr in HARMLESS_CALLS)
                   for n in ast.walk(stmt.value))
    if isinstance(stmt, ast.Expr) and isinstance(stmt.value, ast.Call):
        f = stmt.value.func
        return isinstance(f, ast.Attribute) and f.attr in HARMLESS_CALLS
    return False


def _try_releases(stmt, lock):
    return isinstance(stmt, ast.Try) and any(_is_call(s, "release", lock) for s in stmt.finalbody)


def _follow(stmts, lock, after_loop):
    """True if the path through ``stmts`` reaches a release / try-finally-release with only harmless statements."""
    for i, st in enumerate(stmts):
        if _is_call(st, "release", lock) or _try_releases(st, lock):
            return True
        if isinstance(st, ast.If):
            test_ok = all(not isinstance(n, ast.Call) or (isinstance(n.func, ast.Attribute) and
                                                         n.func.attr in HARMLESS_CALLS) for n in ast.walk(st.test))
            if not test_ok:
                return False
            rest = stmts[i + 1:]
            for branch in (st.body, st.orelse):
                path = list(branch)
                if any(isinstance(s, ast.Break) for s in path):
                    path = [s for s in path if not isinstance(s, ast.Break)] + list(after_loop)
                else:
                    path = path + rest
                if not _follow(path, lock, after_loop):
                    return False
            return True
        if not _harmless(st):
            return False
    return False


def sites(repo):
    out = []
    for fn in FILES:
        path = os.path.join(repo, "paramiko", fn)
        if not os.path.exists(path):
            continue
        tree = ast.parse(open(path).read())

        def visit(node, func, loop_after):
            for field in ("body", "orelse", "finalbody", "handlers"):
                block = getattr(node, field, None)
                if not isinstance(block, list):
                    continue
                for i, st in enumerate(block):
                    if isinstance(st, ast.ExceptHandler):
                        visit(st, func, loop_after)
                        continue
                    f2 = st if isinstance(st, (ast.FunctionDef, ast.AsyncFunctionDef)) else func
                    la = loop_after
                    if isinstance(st, (ast.While, ast.For)):
                        la = block[i + 1:]
                    if isinstance(st, (ast.FunctionDef, ast.AsyncFunctionDef)):
                        la = []
                    if _is_call(st, "acquire"):
                        lock = _src(st.value.func.value)
                        # form A: acquire followed by statements leading to release / try-finally
                        ok = _follow(block[i + 1:], lock, loop_after)
                        # form B: acquire is the first statement of a try whose finally releases
                        if not ok and isinstance(node, ast.Try) and field == "body" and \
                                any(_is_call(s, "release", lock) for s in node.finalbody):
                            ok = True
                        out.append({"file": fn, "func": func.name if func else "<module>", "line": st.lineno,
                                    "lock": lock, "safe": ok})
                    visit(st, f2, la)

        visit(tree, None, [])
    return out


def _find_func(tree, cls, name):
    for n in ast.walk(tree):
        if isinstance(n, ast.ClassDef) and n.name == cls:
            for f in n.body:
                if isinstance(f, ast.FunctionDef) and f.name == name:
                    return f
    return None


def _call_src(st):
    if isinstance(st, ast.Expr) and isinstance(st.value, ast.Call):
        return _src(st.value.func)
    return None


def _events(stmts, guarded, out, tree):
    """Ordered walk of a teardown block: the statements that matter to a waiter, in source order."""
    for st in stmts:
        cs = _call_src(st)
        if isinstance(st, ast.Assign) and any(_src(t) == "self.active" for t in st.targets) and \
                isinstance(st.value, ast.Constant) and st.value.value is False:
            out.append(("set_inactive", guarded))
        elif isinstance(st, ast.For):
            body_calls = [_call_src(b) for b in st.body]
            if any(c and c.endswith("._unlink") for c in body_calls):
                out.append(("unlink_channels", guarded))
            elif "channel_events" in _src(st.iter) and any(c and c.endswith(".set") for c in body_calls):
                out.append(("channel_events_set", guarded))
            else:
                out.append(("other", guarded))
        elif isinstance(st, ast.If):
            t = _src(st.test)
            g = guarded or t == "self.active"
            if t == "not self.active" and any(isinstance(b, ast.Return) for b in st.body):
                continue  # close(): nothing to do on a dead transport
            _events(st.body, g, out, tree)
            _events(st.orelse, guarded, out, tree)
        elif isinstance(st, ast.Try):
            _events(st.body, guarded, out, tree)
            _events(st.finalbody, guarded, out, tree)
        elif isinstance(st, ast.While):
            if any(isinstance(n, ast.Call) and _src(n.func) == "self.join" for n in ast.walk(st)):
                out.append(("join_thread", guarded))
            else:
                out.append(("other", guarded))
        elif cs == "self.packetizer.close":
            out.append(("packetizer_close", guarded))
        elif cs == "self.completion_event.set":
            out.append(("completion_set", guarded))
        elif cs == "self.auth_handler.abort":
            out.append(("auth_abort", guarded))
        elif cs == "self.server_accept_cv.notify_all":
            out.append(("accept_notify_all", guarded))
        elif cs == "self.server_accept_cv.notify":
            out.append(("accept_notify_one", guarded))
        elif cs == "self.sock.close":
            out.append(("sock_close", guarded))
        elif cs in ("self.lock.acquire", "self.lock.release"):
            continue
        elif cs == "self.stop_thread":
            f = _find_func(tree, "Transport", "stop_thread")
            if f is not None:
                _events(f.body, guarded, out, tree)
            out.append(("run_tail", guarded))  # from here on the transport thread leaves its loop and runs its tail
        elif isinstance(st, ast.Expr) and isinstance(st.value, ast.Constant):
            continue  # docstring
        else:
            out.append(("other", guarded))


def teardown(repo):
    """The two shutdown paths in source order: the tail of Transport.run() (after the except ladder) and
    Transport.close() with stop_thread() inlined; plus whether Channel._event_pending clears the request event
    only while the channel is open, under the channel lock."""
    tree = ast.parse(open(os.path.join(repo, "paramiko", "transport.py")).read())
    run = _find_func(tree, "Transport", "run")
    tail = []
    if run is not None:
        ladder = None
        for n in ast.walk(run):
            if isinstance(n, ast.Try) and len(n.handlers) >= 3:
                if ladder is None or n.lineno > ladder.lineno:
                    ladder = n
        outer = None
        if ladder is not None:
            for n in ast.walk(run):
                if isinstance(n, ast.Try) and ladder in n.body:
                    outer = n
        if outer is not None:
            i = outer.body.index(ladder)
            _events(outer.body[i + 1:], False, tail, tree)
    close = _find_func(tree, "Transport", "close")
    cl = []
    if close is not None:
        _events(close.body, False, cl, tree)
    ctree = ast.parse(open(os.path.join(repo, "paramiko", "channel.py")).read())
    ep = _find_func(ctree, "Channel", "_event_pending")
    guarded = False
    if ep is not None:
        clears = [n for n in ast.walk(ep) if isinstance(n, ast.Call) and _src(n.func) == "self.event.clear"]
        ok = bool(clears)
        for c in clears:
            # inside `if not self.closed:` inside a try whose finally releases self.lock, acquired just before
            inside_if = any(isinstance(i, ast.If) and _src(i.test) == "not self.closed" and
                            any(c is x for b in i.body for x in ast.walk(b)) for i in ast.walk(ep))
            under_lock = any(isinstance(t, ast.Try) and any(_is_call(s, "release", "self.lock") for s in t.finalbody)
                             and any(c is x for b in t.body for x in ast.walk(b)) for t in ast.walk(ep)) and \
                any(_is_call(s, "acquire", "self.lock") for s in ast.walk(ep) if isinstance(s, ast.Expr))
            ok = ok and inside_if and under_lock
        guarded = ok
    return {"run_tail": tail, "close_seq": [e for e, _ in cl], "event_clear_guarded": guarded}


WAIT_TARGETS = [("transport.py", "Transport", "open_channel", "open_channel"),
                ("transport.py", "Transport", "global_request", "global_request"),
                ("transport.py", "Transport", "renegotiate_keys", "renegotiate_keys"),
                ("transport.py", "Transport", "start_client", "start_client"),
                ("auth_handler.py", "AuthHandler", "wait_for_response", "auth_wait_for_response"),
                ("transport.py", "Transport", "_send_user_message", "send_user_message"),
                ("channel.py", "Channel", "_wait_for_event", "channel_request"),
                ("channel.py", "Channel", "recv_exit_status", "recv_exit_status"),
                ("buffered_pipe.py", "BufferedPipe", "read", "recv"),
                ("channel.py", "Channel", "_wait_for_send_window", "send"),
                ("transport.py", "Transport", "accept", "accept"),
                ("transport.py", "ServiceRequestingTransport", "ensure_session", "ensure_session")]
_ACTIVE = ("self.active", "is_active()", "self.transport.active")
_FLAGS = ("self.closed", "self._closed", "self.eof_sent")


def _exits(stmts):
    return any(isinstance(x, (ast.Raise, ast.Return, ast.Break)) for st in stmts for x in ast.walk(st))


def wait_shapes(repo):
    """How each blocking API waits, read off its AST: every ``X.wait(..)`` / ``time.sleep(..)`` in the function.
    kind: poll (numeric time-out or sleep inside a loop) | event (untimed wait on an Event, no loop) | cvLoop (untimed
    wait inside a while loop) | cvOnce (untimed single wait on a condition variable).  A wait whose time-out is a
    variable is treated as untimed (the caller may pass None).  precheck: a test of ``not self.active`` before the wait
    that leaves without waiting; loopChecksActive / loopChecksFlag: the loop around the wait tests the transport's
    ``active`` / the object's closed flag and leaves."""
    out = []
    for fn, cls, name, row in WAIT_TARGETS:
        path = os.path.join(repo, "paramiko", fn)
        f = _find_func(ast.parse(open(path).read()), cls, name) if os.path.exists(path) else None
        if f is None:
            out.append({"row": row, "kind": "missing", "obj": "", "precheck": False, "loopChecksActive": False,
                        "loopChecksFlag": False})
            continue
        par = {}
        for n in ast.walk(f):
            for c in ast.iter_child_nodes(n):
                par[c] = n
        waits = [n for n in ast.walk(f) if isinstance(n, ast.Call) and isinstance(n.func, ast.Attribute)
                 and n.func.attr in ("wait", "sleep")]
        if not waits:
            out.append({"row": row, "kind": "nowait", "obj": "", "precheck": False, "loopChecksActive": False,
                        "loopChecksFlag": False})
            continue
        for k, w in enumerate(sorted(waits, key=lambda n: (n.lineno, n.col_offset))):
            timed = bool(w.args) and isinstance(w.args[0], ast.Constant) and \
                isinstance(w.args[0].value, (int, float)) and not isinstance(w.args[0].value, bool)
            loop, n = None, w
            while n in par:
                n = par[n]
                if isinstance(n, ast.While):
                    loop = n
                    break
            obj = _src(w.func.value)
            chk_active = chk_flag = False
            if loop is not None:
                for st in ast.walk(loop):
                    if isinstance(st, ast.If) and _exits(st.body):
                        t = _src(st.test)
                        chk_active = chk_active or any(a in t for a in _ACTIVE)
                        chk_flag = chk_flag or any(a in t for a in _FLAGS)
                t = _src(loop.test)
                chk_flag = chk_flag or any(("not " + a) in t for a in _FLAGS)
            pre = False
            for st in ast.walk(f):
                if isinstance(st, ast.If) and "not self.active" in _src(st.test) and st.lineno < w.lineno and \
                        not any(x is w for b in st.body for x in ast.walk(b)) and \
                        (loop is None or not any(x is st for x in ast.walk(loop))):
                    pre = True
            if w.func.attr == "sleep" or (timed and loop is not None):
                kind = "poll"
            elif loop is not None:
                kind = "cvLoop"
            elif "event" in obj:
                kind = "event"
            else:
                kind = "cvOnce"
            out.append({"row": row if k == 0 else "%s#%d" % (row, k + 1), "kind": kind, "obj": obj, "precheck": pre,
                        "loopChecksActive": chk_active, "loopChecksFlag": chk_flag})
    return out


def _unconditional(f):
    """Statements of ``f`` that run on every call: top level of the body and of top-level try bodies / finally."""
    out = []

    def walk(stmts):
        for st in stmts:
            if isinstance(st, ast.Try):
                walk(st.body)
                walk(st.finalbody)
            elif isinstance(st, ast.Assign):
                for t in st.targets:
                    out.append("%s=%s" % (_src(t), _src(st.value)))
            elif isinstance(st, ast.Expr) and isinstance(st.value, ast.Call):
                out.append(_src(st.value.func))
    if f is not None:
        walk(f.body)
    return out


def closing_stmts(repo):
    """What Channel._set_closed and BufferedPipe.close do unconditionally (the wake-ups a channel waiter relies on)."""
    ctree = ast.parse(open(os.path.join(repo, "paramiko", "channel.py")).read())
    ptree = ast.parse(open(os.path.join(repo, "paramiko", "buffered_pipe.py")).read())
    return (_unconditional(_find_func(ctree, "Channel", "_set_closed")),
            _unconditional(_find_func(ptree, "BufferedPipe", "close")))


_BLOCKERS = ("_send_user_message", "_send_message", ".wait", ".sleep", ".join")


def _cv_bindings(tree):
    """{cv expression: lock expression} for every ``X = threading.Condition(Y)`` in the file"""
    out = {}
    for n in ast.walk(tree):
        if isinstance(n, ast.Assign) and isinstance(n.value, ast.Call) and _src(n.value.func).endswith("Condition") \
                and n.value.args:
            for t in n.targets:
                out[_src(t)] = _src(n.value.args[0])
    return out


def blocking_under_lock(repo):
    """Every call that can wait for something (the send gate, a condition variable, sleep, join) made while a lock is
    held, lexically or through same-class helpers (two levels): the shutdown paths take the channel lock, the transport
    lock and the pipe locks, so a caller parked with one of them held stalls the teardown.  ok = the wait releases that
    very lock (Condition.wait on a condition built over it) or the lock is not one the teardown takes."""
    out = []
    for fn in ("channel.py", "transport.py", "buffered_pipe.py"):
        path = os.path.join(repo, "paramiko", fn)
        tree = ast.parse(open(path).read())
        cvs = _cv_bindings(tree)
        for cls in [n for n in ast.walk(tree) if isinstance(n, ast.ClassDef)]:
            methods = {f.name: f for f in cls.body if isinstance(f, ast.FunctionDef)}

            def calls_in(stmts, depth, seen):
                res = []
                for c in ast.walk(ast.Module(body=list(stmts), type_ignores=[])):
                    if not isinstance(c, ast.Call):
                        continue
                    name = _src(c.func)
                    if any(name.endswith(b) for b in _BLOCKERS):
                        res.append(name)
                    elif depth > 0 and isinstance(c.func, ast.Attribute) and _src(c.func.value) == "self" and \
                            c.func.attr in methods and c.func.attr not in seen:
                        res += ["%s>%s" % (c.func.attr, x)
                                for x in calls_in(methods[c.func.attr].body, depth - 1, seen | {c.func.attr})]
                return res

            for f in methods.values():
                for n in ast.walk(f):
                    regions = []
                    if isinstance(n, ast.Try):
                        for st in n.finalbody:
                            if _is_call(st, "release"):
                                regions.append((_src(st.value.func.value), n.body))
                    if isinstance(n, ast.With):
                        for it in n.items:
                            if "lock" in _src(it.context_expr):
                                regions.append((_src(it.context_expr), n.body))
                    for lock, body in regions:
                        for name in calls_in(body, 2, {f.name}):
                            leaf = name.split(">")[-1]
                            cv = leaf[:-5] if leaf.endswith(".wait") else None
                            releases = cv is not None and cvs.get(cv) == lock
                            teardown_lock = lock in ("self.lock", "self._lock")
                            out.append({"file": fn, "func": f.name, "lock": lock, "call": name,
                                        "ok": releases or not teardown_lock})
    return out


def channel_map_deletes(repo):
    """Every ``self._channels.delete(..)`` in transport.py.  Both shutdown paths close the channels they find in the map,
    so an open channel must stay in it: a delete is ok inside ``_unlink_channel`` (the channel removes itself when it
    closes) or under ``if chanid in self.channel_events:`` (an open that is still pending, not an established channel)."""
    tree = ast.parse(open(os.path.join(repo, "paramiko", "transport.py")).read())
    out = []
    for f in [n for n in ast.walk(tree) if isinstance(n, ast.FunctionDef)]:
        par = {}
        for n in ast.walk(f):
            for c in ast.iter_child_nodes(n):
                par[c] = n
        for n in ast.walk(f):
            if isinstance(n, ast.Call) and _src(n.func) == "self._channels.delete":
                guarded, x = False, n
                while x in par:
                    p = par[x]
                    if isinstance(p, ast.If) and "in self.channel_events" in _src(p.test) and \
                            any(x is y for b in p.body for y in ast.walk(b)):
                        guarded = True
                    x = p
                out.append({"file": "transport.py", "func": f.name, "lock": "self._channels.delete",
                            "safe": f.name == "_unlink_channel" or guarded})
    return out


def socket_poll_forced(repo):
    """Transport.__init__ puts its own short poll timeout on the socket it is given, as an unconditional top-level
    statement `self.sock.settimeout(self._active_check_timeout)`, and the class constant is at most one second.
    (The transport thread notices `close()` / `active = False` only when its read times out.)"""
    import ast

    tree = ast.parse(open(os.path.join(repo, "paramiko", "transport.py")).read())
    for cls in ast.walk(tree):
        if isinstance(cls, ast.ClassDef) and cls.name == "Transport":
            const = None
            for st in cls.body:
                if isinstance(st, ast.Assign) and any(isinstance(t, ast.Name) and t.id == "_active_check_timeout"
                                                      for t in st.targets):
                    if isinstance(st.value, ast.Constant) and isinstance(st.value.value, (int, float)):
                        const = st.value.value
            for fn in cls.body:
                if isinstance(fn, ast.FunctionDef) and fn.name == "__init__":
                    for st in fn.body:  # top level of __init__ only: not under an if / try
                        if (isinstance(st, ast.Expr) and isinstance(st.value, ast.Call)
                                and ast.unparse(st.value.func) == "self.sock.settimeout"
                                and len(st.value.args) == 1
                                and ast.unparse(st.value.args[0]) == "self._active_check_timeout"):
                            return const is not None and 0 < const <= 1
    return False


def lean_table(repo):
    ss = sites(repo)
    td = teardown(repo)
    bl = blocking_under_lock(repo)
    cd = channel_map_deletes(repo)
    ws = wait_shapes(repo)
    sc, pc = closing_stmts(repo)
    lines = ["/- GENERATED by pv/lib_lockdisc.py from paramiko/*.py — do not edit. -/",
             "namespace PV.Generated.C13", "",
             "structure LockSite where", "  file : String", "  func : String", "  lock : String", "  safe : Bool",
             "  deriving Repr, DecidableEq", "",
             "/-- every explicit `X.acquire()` in the files behind the blocking APIs -/",
             "def lockSites : List LockSite := ["]
    lines.append(",\n".join('  { file := "%s", func := "%s", lock := "%s", safe := %s }' %
                            (s["file"], s["func"], s["lock"], "true" if s["safe"] else "false") for s in ss))
    lines += ["]", "",
              "/-- tail of `Transport.run()` after the except ladder, in source order: (event, inside `if self.active:`) -/",
              "def runTail : List (String × Bool) := [" +
              ", ".join('("%s", %s)' % (e, "true" if g else "false") for e, g in td["run_tail"]) + "]", "",
              "/-- `Transport.close()` with `stop_thread()` inlined, in source order -/",
              "def closeSeq : List String := [" + ", ".join('"%s"' % e for e in td["close_seq"]) + "]", "",
              "/-- `Channel._event_pending` clears the request event only while the channel is open, under the channel lock -/",
              "def eventClearGuarded : Bool := %s" % ("true" if td["event_clear_guarded"] else "false"), "",
              "/-- statements `Channel._set_closed` executes unconditionally -/",
              "def setClosedStmts : List String := [" + ", ".join('"%s"' % x.replace('"', "'") for x in sc) + "]", "",
              "/-- statements `BufferedPipe.close` executes unconditionally -/",
              "def pipeCloseStmts : List String := [" + ", ".join('"%s"' % x.replace('"', "'") for x in pc) + "]", "",
              "/-- every call that can wait, made while a lock is held (lexically or through same-class helpers) -/",
              "def blockingUnderLock : List LockSite := [",
              ",\n".join('  { file := "%s", func := "%s", lock := "%s via %s", safe := %s }' %
                         (b["file"], b["func"], b["lock"], b["call"].replace('"', "'"), "true" if b["ok"] else "false")
                         for b in bl),
              "]", "",
              "/-- every removal from the transport's channel map -/",
              "def channelMapDeletes : List LockSite := [",
              ",\n".join('  { file := "%s", func := "%s", lock := "%s", safe := %s }' %
                         (c["file"], c["func"], c["lock"], "true" if c["safe"] else "false") for c in cd),
              "]", "",
              "structure WaitShape where", "  row : String", "  kind : String", "  obj : String", "  precheck : Bool",
              "  loopChecksActive : Bool", "  loopChecksFlag : Bool", "  deriving Repr, DecidableEq", "",
              "/-- every `X.wait(..)` / `time.sleep(..)` in the functions behind the blocking APIs, classified -/",
              "def waitShapes : List WaitShape := [",
              ",\n".join('  { row := "%s", kind := "%s", obj := "%s", precheck := %s, loopChecksActive := %s, '
                         'loopChecksFlag := %s }' % (w["row"], w["kind"], w["obj"].replace('"', "'"),
                                                     "true" if w["precheck"] else "false",
                                                     "true" if w["loopChecksActive"] else "false",
                                                     "true" if w["loopChecksFlag"] else "false") for w in ws),
              "]", "",
              "/-- `Transport.__init__` unconditionally puts its own poll timeout (a class constant ≤ 1 s) on the socket -/",
              "def socketPollForced : Bool := %s" % ("true" if socket_poll_forced(repo) else "false"), "",
              "end PV.Generated.C13", ""]
    return "\n".join(lines), ss
