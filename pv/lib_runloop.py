"""Shared pieces for the run-loop / rekey properties (C09, C10, C11, C12).

* table generation from the paramiko source (-> lean/PV/Generated/C12.lean)
* real transport pairs over tests._loop.LoopSocket, raw scripted peers, barriers that need no sleeps
"""
import ast
import inspect
import socket
import textwrap
import threading
import time

from pv.core import InfraError


# ----------------------------------------------------------------------------- tables from the source
MODEL_CONSTS = {  # the numbers lean/PV/Model/RunLoop.lean uses literally
    "MSG_DISCONNECT": 1, "MSG_IGNORE": 2, "MSG_UNIMPLEMENTED": 3, "MSG_DEBUG": 4, "MSG_EXT_INFO": 7,
    "MSG_KEXINIT": 20, "MSG_NEWKEYS": 21, "MSG_GLOBAL_REQUEST": 80, "MSG_REQUEST_FAILURE": 82,
    "MSG_CHANNEL_OPEN": 90, "MSG_CHANNEL_OPEN_FAILURE": 92,
}


def unguarded_name_lookups():
    """Every `MSG_NAMES[expr]` subscript (load) in paramiko/packet.py and paramiko/transport.py that is not inside the
    body of an `if expr in MSG_NAMES:` test: [(file, function, line)].  These raise KeyError for a type number
    without a debug name.  None when a source cannot be read."""
    import paramiko.packet as P
    import paramiko.transport as T

    out = []
    for mod in (P, T):
        try:
            tree = ast.parse(open(mod.__file__, encoding="utf-8").read())
        except (OSError, SyntaxError):
            return None
        fname = mod.__file__.rsplit("/", 1)[-1]

        def visit(node, guards, func):
            if isinstance(node, (ast.FunctionDef, ast.AsyncFunctionDef)):
                func = node.name
            if isinstance(node, ast.If):
                g = None
                t = node.test
                if (isinstance(t, ast.Compare) and len(t.ops) == 1 and isinstance(t.ops[0], ast.In)
                        and isinstance(t.comparators[0], ast.Name) and t.comparators[0].id == "MSG_NAMES"):
                    g = ast.dump(t.left)
                visit(node.test, guards, func)
                for st in node.body:
                    visit(st, guards | ({g} if g else set()), func)
                for st in node.orelse:
                    visit(st, guards, func)
                return
            if (isinstance(node, ast.Subscript) and isinstance(node.value, ast.Name) and node.value.id == "MSG_NAMES"
                    and isinstance(node.ctx, ast.Load) and ast.dump(node.slice) not in guards):
                out.append((fname, func, node.lineno))
            for ch in ast.iter_child_nodes(node):
                visit(ch, guards, func)

        visit(tree, set(), "<module>")
    return out


def fallback_lookup_total():
    """Are all debug-name lookups on the receive/reply path total?  True: no unguarded `MSG_NAMES[...]` subscript is
    left in packet.py / transport.py (Transport.run's fallback, Packetizer.read_message, send_message, …); False:
    some lookup raises KeyError for unnamed types; None: cannot tell."""
    sites = unguarded_name_lookups()
    return None if sites is None else not sites


def run_check_order():
    """In the `while self.active:` loop of Transport.run: does the `_expected_packet` test come before every use of a
    dispatch table and before the pre-auth gate `_ensure_authed` (statement order of the loop body)?  None if the
    loop cannot be found."""
    import paramiko.transport as T

    try:
        tree = ast.parse(textwrap.dedent(inspect.getsource(T.Transport.run)))
    except (OSError, SyntaxError):
        return None
    loop = None
    for n in ast.walk(tree):
        if isinstance(n, ast.While) and isinstance(n.test, ast.Attribute) and n.test.attr == "active":
            loop = n
            break
    if loop is None:
        return None
    first_expected = first_dispatch = None
    for i, st in enumerate(loop.body):
        names = {x.attr for x in ast.walk(st) if isinstance(x, ast.Attribute)}
        if first_expected is None and isinstance(st, ast.If) and any(
                isinstance(x, ast.Attribute) and x.attr == "_expected_packet" for x in ast.walk(st.test)):
            first_expected = i
        if first_dispatch is None and names & {"_ensure_authed", "_handler_table", "_channel_handler_table"}:
            # the expected-packet statement itself hands kex types to the engine only
            if not (isinstance(st, ast.If) and any(isinstance(x, ast.Attribute) and x.attr == "_expected_packet"
                                                   for x in ast.walk(st.test))):
                first_dispatch = i
    if first_expected is None or first_dispatch is None:
        return None
    return first_expected < first_dispatch


def run_replies_fixed_width():
    """AST of Transport.run: no call of `Message.add()` / `add_adaptive_int()` (variable-width integer encoding) when
    the loop builds a reply — UNIMPLEMENTED carries a uint32.  None if unreadable."""
    import paramiko.transport as T

    try:
        tree = ast.parse(textwrap.dedent(inspect.getsource(T.Transport.run)))
    except (OSError, SyntaxError):
        return None
    for n in ast.walk(tree):
        if isinstance(n, ast.Call) and isinstance(n.func, ast.Attribute) and n.func.attr in ("add", "add_adaptive_int"):
            return False
    return True


def read_message_one_packet_per_call():
    """AST of Packetizer.read_message: no call of read_message from within itself and no loop — every well-framed
    packet is handed to the caller, the packetizer never skips one on its own.  None if unreadable."""
    import paramiko.packet as P

    try:
        tree = ast.parse(textwrap.dedent(inspect.getsource(P.Packetizer.read_message)))
    except (OSError, SyntaxError):
        return None
    for n in ast.walk(tree):
        if isinstance(n, (ast.While, ast.For)):
            return False
        if isinstance(n, ast.Call) and isinstance(n.func, ast.Attribute) and n.func.attr == "read_message":
            return False
    return True


def marker_scan_covers_whole_list():
    """AST of Transport._parse_kex_init: the scan for `kex-strict-` / `ext-info-` names is a `for` loop over (an
    enumeration of) the whole kex name list, and the function contains no `while` loop and no `[-1]` look at the tail of
    that list.  None if unreadable."""
    import paramiko.transport as T

    try:
        tree = ast.parse(textwrap.dedent(inspect.getsource(T.Transport._parse_kex_init)))
    except (OSError, SyntaxError):
        return None
    has_for = False
    for n in ast.walk(tree):
        if isinstance(n, ast.While):
            return False
        if isinstance(n, ast.Subscript) and isinstance(n.value, ast.Name) and n.value.id == "kex_algo_list":
            sl = n.slice
            if isinstance(sl, ast.UnaryOp) and isinstance(sl.op, ast.USub):
                return False
        if isinstance(n, ast.For) and any(isinstance(x, ast.Name) and x.id == "kex_algo_list" for x in ast.walk(n.iter)):
            if any(isinstance(x, ast.Constant) and x.value == "kex-strict-" for x in ast.walk(n)):
                has_for = True
    return has_for


def reorder_strict_marker(peer, position):
    """Peer-side tool: every KEXINIT this transport sends lists its `kex-strict-*` name at index `position` of the kex
    list (clamped) instead of at the end; the transport's own copy of the KEXINIT (hashed into the exchange) is
    updated accordingly."""
    return rewrite_kexinit(peer, marker_pos=position)


def rewrite_kexinit(peer, marker_pos=None, follows=None, kex_first=None):
    """Peer-side tool: rewrite every KEXINIT this transport sends — strict marker moved to index `marker_pos`,
    `first_kex_packet_follows` set to `follows`, the kex name `kex_first` moved to the front of the list — and keep the
    transport's own copy of the KEXINIT (hashed into the exchange) in step."""
    want_follows = follows
    from paramiko import Message

    orig = peer._send_message

    def send_message(m):
        b = m.asbytes()
        if b[:1] != b"\x14":
            return orig(m)
        mm = Message(b[1:])
        cookie = mm.get_bytes(16)
        lists = [mm.get_list() for _ in range(10)]
        follows = mm.get_boolean()
        reserved = mm.get_int()
        kex = lists[0]
        if kex_first is not None and kex_first in kex:
            kex = [kex_first] + [x for x in kex if x != kex_first]
        if marker_pos is not None:
            markers = [x for x in kex if x.startswith("kex-strict-")]
            rest = [x for x in kex if not x.startswith("kex-strict-")]
            pos = max(0, min(marker_pos, len(rest)))
            kex = rest[:pos] + markers + rest[pos:]
        lists[0] = kex
        if want_follows is not None:
            follows = bool(want_follows)
        new = Message()
        new.add_byte(b"\x14")
        new.add_bytes(cookie)
        for lst in lists:
            new.add_list(lst)
        new.add_boolean(bool(follows))
        new.add_int(reserved)
        peer.local_kex_init = peer._latest_kex_init = new.asbytes()
        return orig(new)

    peer._send_message = send_message


def run_judges_every_packet():
    """AST of Transport.run, loop body: between the statement that calls `packetizer.read_message()` and the
    `_expected_packet` test, every branch that leaves the iteration with `continue` first calls `_enforce_strict_kex`
    (the IGNORE and DEBUG branches); nothing else on that path can skip a packet.  None if the shape is not found."""
    import paramiko.transport as T

    try:
        tree = ast.parse(textwrap.dedent(inspect.getsource(T.Transport.run)))
    except (OSError, SyntaxError):
        return None
    loop = next((n for n in ast.walk(tree) if isinstance(n, ast.While) and isinstance(n.test, ast.Attribute)
                 and n.test.attr == "active"), None)
    if loop is None:
        return None
    read_at = exp_at = None
    for i, st in enumerate(loop.body):
        if read_at is None and isinstance(st, ast.Try) and any(
                isinstance(x, ast.Attribute) and x.attr == "read_message" for x in ast.walk(st)):
            read_at = i
        if exp_at is None and isinstance(st, ast.If) and any(
                isinstance(x, ast.Attribute) and x.attr == "_expected_packet" for x in ast.walk(st.test)):
            exp_at = i
    if read_at is None or exp_at is None or read_at >= exp_at:
        return None
    ok = True

    def check_block(stmts):
        nonlocal ok
        if any(isinstance(x, ast.Continue) for x in stmts):
            if not any(isinstance(c, ast.Call) and isinstance(c.func, ast.Attribute)
                       and c.func.attr == "_enforce_strict_kex" for x in stmts for c in ast.walk(x)):
                ok = False
        for x in stmts:
            if isinstance(x, ast.If):
                check_block(x.body)
                check_block(x.orelse)
            elif isinstance(x, (ast.While, ast.For, ast.With, ast.Try)):
                ok = False          # nothing of that kind belongs between reading and judging a packet

    between = loop.body[read_at + 1:exp_at]
    for st in between:
        if isinstance(st, ast.If):
            check_block(st.body)
            check_block(st.orelse)
        elif not isinstance(st, (ast.Assign, ast.Expr)):
            ok = False
    return ok


def rollover_guard_reads_assigned_value():
    """AST of Packetizer.read_message and send_message: the roll-over guard `if <name> == 0 and not
    self._initial_kex_done: raise …` tests the very name that is then assigned to the sequence-number counter
    (`self.__sequence_number_in/out = <name>`), i.e. the masked uint32 value — not an unmasked intermediate.  None if
    the shape is not found."""
    import paramiko.packet as P

    res = []
    for fn, attr in ((P.Packetizer.read_message, "sequence_number_in"), (P.Packetizer.send_message, "sequence_number_out")):
        try:
            tree = ast.parse(textwrap.dedent(inspect.getsource(fn)))
        except (OSError, SyntaxError):
            return None
        guard_names = set()
        for n in ast.walk(tree):
            if isinstance(n, ast.If) and any(isinstance(x, ast.Raise) for x in n.body):
                for c in ast.walk(n.test):
                    if (isinstance(c, ast.Compare) and isinstance(c.left, ast.Name) and len(c.ops) == 1
                            and isinstance(c.ops[0], ast.Eq) and isinstance(c.comparators[0], ast.Constant)
                            and c.comparators[0].value == 0):
                        if any(isinstance(y, ast.Attribute) and y.attr == "_initial_kex_done" for y in ast.walk(n.test)):
                            guard_names.add(c.left.id)
        assigned = [n.value for n in ast.walk(tree) if isinstance(n, ast.Assign) and any(
            isinstance(t, ast.Attribute) and t.attr.endswith(attr) for t in n.targets)]
        if not guard_names or not assigned:
            return None
        res.append(all(isinstance(v, ast.Name) and v.id in guard_names for v in assigned))
    return all(res)


def seqno_reset_guard_is_strict_only():
    """AST of Transport._activate_inbound / _activate_outbound: the `if` whose body calls `reset_seqno_in()` /
    `reset_seqno_out()` tests exactly `self.agreed_on_strict_kex` — no further conjunct (cipher family, AEAD …).
    None if a reset call is not found."""
    import paramiko.transport as T

    res = []
    for fn, meth in ((T.Transport._activate_inbound, "reset_seqno_in"), (T.Transport._activate_outbound, "reset_seqno_out")):
        try:
            tree = ast.parse(textwrap.dedent(inspect.getsource(fn)))
        except (OSError, SyntaxError):
            return None
        found = None
        for n in ast.walk(tree):
            if isinstance(n, ast.If) and any(isinstance(c, ast.Call) and isinstance(c.func, ast.Attribute)
                                             and c.func.attr == meth for x in n.body for c in ast.walk(x)):
                t = n.test
                found = (isinstance(t, ast.Attribute) and t.attr == "agreed_on_strict_kex"
                         and isinstance(t.value, ast.Name) and t.value.id == "self")
        if found is None:
            return None
        res.append(found)
    return all(res)


def read_tables():
    """Key sets of every dispatch table, read from live objects of the tree under test."""
    import paramiko
    import paramiko.common as C
    from paramiko.auth_handler import AuthHandler, AuthOnlyHandler, GssapiWithMicAuthHandler
    from paramiko.transport import Transport, ServiceRequestingTransport
    from tests._loop import LoopSocket

    def keys(d):
        return sorted(int(k) for k in d)

    t = Transport(LoopSocket())
    srt = ServiceRequestingTransport(LoopSocket())
    out = {
        "names": keys(C.MSG_NAMES),
        "transport": keys(t._handler_table),
        "transportSRT": keys(srt._handler_table),
        "channel": keys(Transport._channel_handler_table),
        "highestUserauth": int(C.HIGHEST_USERAUTH_MESSAGE_ID),
    }
    ah = AuthHandler(t)
    out["authServer"] = keys(ah._server_handler_table)
    out["authClient"] = keys(ah._client_handler_table)
    ao = AuthOnlyHandler(srt)
    out["authOnlyServer"] = keys(ao._server_handler_table)
    out["authOnlyClient"] = keys(ao._client_handler_table)
    out["gssMic"] = keys(GssapiWithMicAuthHandler(ah, None)._handler_table)
    consts = {k: int(v) for k, v in vars(C).items() if k.startswith("MSG_") and isinstance(v, int)}
    for o in (t, srt):
        o.sock.close()
    return out, consts


def lean_tables(tables, consts, total):
    def lst(xs):
        return "[" + ", ".join(str(x) for x in xs) + "]"

    fields = ["names", "transport", "transportSRT", "channel", "authServer", "authClient", "authOnlyServer",
              "authOnlyClient", "gssMic"]
    body = ",\n".join("    %s := %s" % (f, lst(tables[f])) for f in fields)
    cl = ", ".join('("%s", %d)' % (k, v) for k, v in sorted(consts.items(), key=lambda kv: (kv[1], kv[0])))
    return (
        "/- GENERATED from the paramiko tree under test by pv/lib_runloop.py on every run of C09/C11/C12 -- do not edit.\n"
        "   Key sets of MSG_NAMES and of every dispatch table of Transport.run, every MSG_* constant, and whether every\n"
        "   MSG_NAMES lookup in packet.py/transport.py (run() fallback, read_message, send_message) is total. -/\n"
        "import PV.Model.RunLoop\n"
        "namespace PV.Generated.C12\n"
        "open PV.RunLoop\n\n"
        "/-- every `MSG_*` integer constant of paramiko/common.py -/\n"
        "def msgConsts : List (String × Nat) := [%s]\n\n"
        "def tables : Tables :=\n  { namesTotal := %s,\n    highestUserauth := %d,\n%s }\n\n"
        "/-- Transport.run, loop body: the `_expected_packet` test precedes every table dispatch and `_ensure_authed` -/\n"
        "def expectedCheckBeforeDispatch : Bool := %s\n\n"
        "/-- Transport.run builds its replies without Message.add() / add_adaptive_int() -/\n"
        "def runRepliesUseFixedWidth : Bool := %s\n\n"
        "/-- Packetizer.read_message: no recursion, no loop — one packet per call, none skipped -/\n"
        "def readMessageDeliversEveryPacket : Bool := %s\n\n"
        "/-- Transport._parse_kex_init scans the whole kex name list for the pseudo-algorithm names -/\n"
        "def markerScanCoversWholeList : Bool := %s\n\n"
        "/-- Transport.run: no packet is skipped between read_message() and the strict-kex / expected-packet tests -/\n"
        "def runJudgesEveryPacket : Bool := %s\n\n"
        "/-- Packetizer: the roll-over guard tests the (masked) value that is assigned to the sequence-number counter -/\n"
        "def rolloverGuardReadsAssignedValue : Bool := %s\n\n"
        "/-- _activate_inbound/_activate_outbound reset the sequence number under `self.agreed_on_strict_kex` alone -/\n"
        "def seqnoResetGuardIsStrictOnly : Bool := %s\n\n"
        "end PV.Generated.C12\n" % (cl, "true" if total else "false", tables["highestUserauth"], body,
                                      "true" if run_check_order() else "false",
                                      "true" if run_replies_fixed_width() else "false",
                                      "true" if read_message_one_packet_per_call() else "false",
                                      "true" if marker_scan_covers_whole_list() else "false",
                                      "true" if run_judges_every_packet() else "false",
                                      "true" if rollover_guard_reads_assigned_value() else "false",
                                      "true" if seqno_reset_guard_is_strict_only() else "false")
    )


def write_generated(ctx):
    """Regenerate lean/PV/Generated/C12.lean; returns (tables, consts, lookup_total)."""
    tables, consts = read_tables()
    total = fallback_lookup_total()
    if total is None:
        ctx.broken.append({"kind": "generator", "what": "Transport.run fallback lookup",
                           "detail": "cannot read the source of Transport.run"})
        total = False
    ctx.extra["unguarded_MSG_NAMES_subscripts"] = unguarded_name_lookups()
    ctx.extra["run_expected_check_before_dispatch"] = run_check_order()
    ctx.write_generated("C12", lean_tables(tables, consts, total))
    return tables, consts, total


# ----------------------------------------------------------------------------- real transports
def stub_gss():
    import paramiko.auth_handler as ah
    import paramiko.transport as tr

    class StubGSS:
        def __init__(self, *a, **k):
            pass

    for mod in (ah, tr):
        if getattr(mod, "GSSAuth", None) is None or True:
            mod.GSSAuth = lambda *a, **k: StubGSS()


_HOSTKEY = None


def host_key():
    global _HOSTKEY
    if _HOSTKEY is None:
        from paramiko import ECDSAKey
        from tests._util import _support

        _HOSTKEY = ECDSAKey.from_private_key_file(_support("ecdsa-256.key"))
    return _HOSTKEY


def make_server_class():
    from paramiko import ServerInterface
    from paramiko.common import AUTH_FAILED, AUTH_SUCCESSFUL, OPEN_SUCCEEDED

    class Srv(ServerInterface):
        def check_auth_password(self, u, p):
            return AUTH_SUCCESSFUL if p == "pw" else AUTH_FAILED

        def check_auth_none(self, u):
            return AUTH_FAILED

        def get_allowed_auths(self, u):
            return "password"

        def check_channel_request(self, kind, chanid):
            return OPEN_SUCCEEDED

        def check_channel_exec_request(self, ch, cmd):
            return True

        def check_channel_shell_request(self, ch):
            return True

        def check_global_request(self, kind, msg):
            return kind.startswith("ok")

    return Srv


def wait_until(pred, limit, what):
    """Poll a predicate that is guaranteed to become true on the clean tree (event-like); harness timeout =
    infrastructure error, never a verdict."""
    t0 = time.time()
    while not pred():
        if time.time() - t0 > limit:
            raise InfraError("timed out waiting for " + what)
        time.sleep(0.002)


def quiet_logging():
    import logging

    logging.getLogger("paramiko").setLevel(logging.CRITICAL + 1)
    logging.getLogger("paramiko.transport").setLevel(logging.CRITICAL + 1)


def msg(t, *fields):
    """Message of type t; ints -> uint32, bools -> boolean, bytes/str -> string, ("raw", b) -> raw bytes."""
    from paramiko import Message
    from paramiko.common import byte_chr

    m = Message()
    m.add_byte(byte_chr(t))
    for f in fields:
        if isinstance(f, tuple) and f[0] == "raw":
            m.add_bytes(f[1])
        elif isinstance(f, bool):
            m.add_boolean(f)
        elif isinstance(f, int):
            m.add_int(f)
        else:
            m.add_string(f)
    return m


def seq_out(t):
    return t.packetizer._Packetizer__sequence_number_out


def seq_in(t):
    return t.packetizer._Packetizer__sequence_number_in


def root_exc(e):
    """the exception that really ended the loop (the transport thread wraps unexpected classes in SSHException)"""
    c = getattr(e, "__cause__", None)
    return c if (c is not None and str(e).startswith("Unexpected ")) else e


def exc_class(e):
    """saved_exception -> the model's error enum"""
    import paramiko
    from paramiko.ssh_exception import IncompatiblePeer, MessageOrderError, SSHException

    if e is None:
        return "-"
    cause = getattr(e, "__cause__", None)
    if isinstance(e, SSHException) and cause is not None and str(e).startswith("Unexpected "):
        # the transport thread reports unexpected exception classes wrapped in SSHException (cause preserved)
        return "key-error" if isinstance(cause, KeyError) else "internal"
    if isinstance(e, MessageOrderError):
        return "strict-order"
    if isinstance(e, IncompatiblePeer):
        return "incompatible"
    if isinstance(e, SSHException):
        return "rollover" if "rolled over" in str(e) else "ssh"
    if isinstance(e, KeyError):
        return "key-error"
    if isinstance(e, EOFError):
        return "eof"
    return "internal"


def strict_u32(m):
    """the body of an UNIMPLEMENTED message read strictly: exactly one uint32, nothing before or after (paramiko's own
    getters pad short data with zeros and ignore trailing bytes)"""
    body = m.get_remainder()
    if len(body) != 4:
        return ("malformed", body.hex())
    return int.from_bytes(body, "big")


class Pair:
    """A real client and a real server Transport over a LoopSocket pair.  `subject` is the side under test,
    `peer` the other one, used as a raw sender (its own `_send_message`) and as the observer (hooks in the
    *peer's* per-instance handler table; the subject is not touched)."""

    def __init__(self, subject_role, cls="Transport", auth=True, strict=True, socks=None, cipher=None,
                 subject_kwargs=None, compression=None):
        import paramiko
        from paramiko.transport import ServiceRequestingTransport, Transport
        from tests._loop import LoopSocket

        a, b = socks if socks else (LoopSocket(), LoopSocket())
        if not socks:
            a.link(b)
        sub_cls = ServiceRequestingTransport if cls == "SRT" else Transport
        c_cls = sub_cls if subject_role == "client" else Transport
        s_cls = sub_cls if subject_role == "server" else Transport
        da = None
        if cipher:
            da = {"ciphers": [c for c in Transport._preferred_ciphers if c != cipher]}
        if compression == "zlib":
            da = dict(da or {}, compression=["zlib@openssh.com", "none"])
        kc = dict(subject_kwargs or {}) if subject_role == "client" else {}
        ks = dict(subject_kwargs or {}) if subject_role == "server" else {}
        self.tc = c_cls(a, strict_kex=strict, disabled_algorithms=da, **kc)
        self.ts = s_cls(b, strict_kex=strict, disabled_algorithms=da, **ks)
        if compression:
            self.tc.use_compression(True)
            self.ts.use_compression(True)
        self.ts.add_server_key(host_key())
        self.server_obj = make_server_class()()
        ev = threading.Event()
        self.ts.start_server(ev, self.server_obj)
        self.tc.start_client(timeout=20)
        if auth:
            self.tc.auth_password("u", "pw")
        if not ev.wait(20):
            raise InfraError("server side of the handshake did not finish")
        self.subject = self.tc if subject_role == "client" else self.ts
        self.peer = self.ts if subject_role == "client" else self.tc
        self.unimpl = []
        self.pong = threading.Event()
        self.peer._handler_table[3] = lambda m: self.unimpl.append(strict_u32(m))
        self.peer._handler_table[81] = lambda m: self.pong.set()
        self.peer._handler_table[82] = lambda m: self.pong.set()

    def situation(self):
        from paramiko.auth_handler import AuthHandler, AuthOnlyHandler, GssapiWithMicAuthHandler
        from paramiko.transport import ServiceRequestingTransport

        s = self.subject
        ah = s.auth_handler
        kind = ("none" if ah is None else "gss" if isinstance(ah, GssapiWithMicAuthHandler)
                else "only" if isinstance(ah, AuthOnlyHandler) else "std" if isinstance(ah, AuthHandler) else "?")
        return {"server": 1 if s.server_mode else 0, "srt": 1 if isinstance(s, ServiceRequestingTransport) else 0,
                "authH": kind, "authed": 1 if s.is_authenticated() else 0}

    def handled_types(self):
        """the harness's own reading of 'has a handler in the current role and state'"""
        s = self.subject
        h = {1, 2, 4} | set(s._handler_table) | set(s._channel_handler_table)
        if s.auth_handler is not None:
            h |= set(s.auth_handler._handler_table)
        return sorted(int(x) for x in h)

    def wrong_direction_types(self):
        """types that, by protocol direction (RFC 4253 §10, RFC 4252, GSSAPI userauth), are only ever sent *by* a
        transport in the subject's role, never to it: whatever the tables say, the subject has no handler for them.
        (ServiceRequestingTransport is a client-side class that registers SERVICE_ACCEPT per instance: not judged
        in the server role.)"""
        from paramiko.transport import ServiceRequestingTransport

        s = self.subject
        if s.server_mode and isinstance(s, ServiceRequestingTransport):
            return []
        return [6, 51, 52, 53, 60, 64, 65] if s.server_mode else [5, 50, 61, 63, 66]

    def barrier(self, limit=30, soft=False):
        """Round trip through the subject's run loop (GLOBAL_REQUEST with want_reply).  Returns True when the
        answer arrived, False when the subject's loop ended instead."""
        self.pong.clear()
        try:
            self.peer._send_message(msg(80, "pv-ping@verif", True))
        except Exception:
            pass
        t0 = time.time()
        while not self.pong.wait(0.02):
            if not self.subject.is_alive() or not self.peer.is_alive():
                # the loop ended; a reply already in flight would have been delivered before the EOF
                return self.pong.is_set()
            if time.time() - t0 > limit:
                if soft:
                    # both loops run, but a request that must be answered is not: an observation, not a harness fault
                    self.barrier_timed_out = True
                    return False
                raise InfraError("barrier timed out with both transport threads alive")
        return True

    def close(self):
        for t in (self.tc, self.ts):
            try:
                t.close()
            except Exception:
                pass
        for t in (self.tc, self.ts):
            t.join(5)


# ----------------------------------------------------------------------------- plaintext-phase man in the middle
def plain_packet(t, payload=b""):
    """an unencrypted SSH packet (block size 8, zero padding)"""
    import struct

    body = bytes([t]) + payload
    pad = 8 - ((len(body) + 5) % 8)
    if pad < 4:
        pad += 8
    return struct.pack(">IB", len(body) + pad + 1, pad) + body + b"\0" * pad


class Relay(threading.Thread):
    """Copies src -> dst.  Parses the banner line and then plaintext packets up to and including NEWKEYS; each
    packet goes through edit(direction, index, ptype, packet) -> list of packets to forward.  Raw copy afterwards."""

    def __init__(self, src, dst, direction, edit):
        super().__init__(daemon=True)
        self.src, self.dst, self.direction, self.edit = src, dst, direction, edit
        self.types = []
        self.stop = False

    def _rd(self, n):
        buf = b""
        while len(buf) < n:
            if self.stop:
                raise EOFError
            try:
                x = self.src.recv(n - len(buf))
            except socket.timeout:
                continue
            if not x:
                raise EOFError
            buf += x
        return buf

    def run(self):
        import struct

        try:
            line = b""
            while not line.endswith(b"\n"):
                line += self._rd(1)
            self.dst.send(line)
            idx = 0
            while True:
                hdr = self._rd(4)
                body = self._rd(struct.unpack(">I", hdr)[0])
                t = body[1]
                self.types.append(t)
                for p in self.edit(self.direction, idx, t, hdr + body):
                    self.dst.send(p)
                idx += 1
                if t == 21:
                    break
            while not self.stop:
                try:
                    x = self.src.recv(65536)
                except socket.timeout:
                    continue
                if not x:
                    break
                self.dst.send(x)
        except (EOFError, OSError):
            pass
        for s in (self.dst, self.src):
            try:
                s.close()
            except Exception:
                pass


class Tap:
    """records what a transport's packetizer reads and writes (type, sequence number), from the outside"""

    def __init__(self, t):
        self.rx, self.tx, self.kexinit_names = [], [], []
        pk = t.packetizer
        orig_read, orig_send = pk.read_message, pk.send_message

        def read_message():
            ptype, m = orig_read()
            names = None
            if ptype == 20:
                try:
                    from paramiko import Message

                    mm = Message(m.asbytes())
                    mm.get_bytes(16)
                    names = mm.get_list()
                except Exception:
                    names = "malformed"
            self.rx.append((ptype, m.seqno, names))
            return ptype, m

        def send_message(data):
            b = data.asbytes()
            arg = int.from_bytes(b[1:5], "big") if b[0] == 3 else 0
            with pk._Packetizer__write_lock:
                self.tx.append((b[0], pk._Packetizer__sequence_number_out, arg))
                return orig_send(data)

        pk.read_message, pk.send_message = read_message, send_message


_MODPACK = None


def modulus_pack():
    """a ModulusPack with one safe 2048-bit prime (RFC 3526 group 14), enough for server-side group exchange"""
    global _MODPACK
    if _MODPACK is None:
        from paramiko.kex_group14 import KexGroup14
        from paramiko.primes import ModulusPack

        mp = ModulusPack()
        mp.pack = {2048: [(2, KexGroup14.P)]}
        _MODPACK = mp
    return _MODPACK


def gate_socket():
    """A LoopSocket whose *reader* can be held back (see frag_gate_socket): while the gate is closed recv() behaves
    like an idle link, the bytes stay queued and are delivered in order once it opens."""
    return frag_gate_socket()


def frag_gate_socket():
    """gate_socket() plus a delivery script: while `script` is non-empty, an int k makes the next recv() return at
    most k bytes, "t" makes it raise socket.timeout; afterwards (and when the gate is set) delivery is normal."""
    from tests._loop import LoopSocket

    class FragGate(LoopSocket):
        def __init__(self):
            super().__init__()
            self.gate = threading.Event()
            self.gate.set()
            self.script = []
            self.delivered = []
            self.asked = []
            self.parked = threading.Event()
            self.idle_eagain = False      # report "nothing pending" as socket.error(EAGAIN) instead of socket.timeout
            self.idle_polls = 0

        def close_gate(self, limit=20):
            """close the gate and wait until the reader has run into it: a recv() that was already waiting inside
            the socket when the gate closed can no longer pick up what is sent from now on"""
            self.parked.clear()
            self.gate.clear()
            if not self.parked.wait(limit):
                raise InfraError("the reader never reached the closed gate")

        def recv(self, n):
            if self.script:
                ev = self.script.pop(0)
                if ev in ("t", "T"):
                    if ev == "T":
                        time.sleep(0.03)        # a real idle gap on the link (longer than a keepalive interval)
                    self.delivered.append("t")
                    raise socket.timeout
                r = super().recv(min(n, ev))
                self.asked.append(n)
                self.delivered.append(len(r))
                return r
            if not self.gate.wait(0.05):
                self.parked.set()
                raise socket.timeout
            if self.script:          # a script installed while we were waiting at the gate comes first
                return self.recv(n)
            try:
                return super().recv(n)
            except socket.timeout:
                self.idle_polls += 1
                if self.idle_eagain:
                    import errno

                    raise OSError(errno.EAGAIN, "Resource temporarily unavailable")
                raise

    return FragGate()


def swallow_unimplemented(transport, sink):
    """Peer-side tool: UNIMPLEMENTED messages are recorded and dropped below the peer's run loop (a paramiko
    peer would treat one as a protocol error while it is itself in a key exchange)."""
    orig = transport.packetizer.read_message

    def read_message():
        while True:
            ptype, m = orig()
            if ptype == 3:
                sink.append(strict_u32(m))
                continue
            return ptype, m

    transport.packetizer.read_message = read_message


# ----------------------------------------------------------------------------- channel.py: who sends under Channel.lock
def _is_self_lock(node):
    return (isinstance(node, ast.Attribute) and node.attr == "lock" and isinstance(node.value, ast.Name)
            and node.value.id == "self")


def _lock_call(stmt, what):
    """`self.lock.acquire()` / `self.lock.release()` as an expression statement"""
    return (isinstance(stmt, ast.Expr) and isinstance(stmt.value, ast.Call)
            and isinstance(stmt.value.func, ast.Attribute) and stmt.value.func.attr == what
            and _is_self_lock(stmt.value.func.value))


def channel_lock_table():
    """From the AST of paramiko/channel.py: every call site of `_send_user_message` with (function, line, lexically
    inside a `with self.lock:` body or an acquire()…try…finally release() region), and for every method whether it
    takes Channel.lock itself or through a `self.method()` it calls.  Returns (sites, takes_lock: {name: bool})."""
    import paramiko.channel as C

    tree = ast.parse(open(C.__file__.replace(".pyc", ".py"), encoding="utf-8").read())
    cls = next(n for n in tree.body if isinstance(n, ast.ClassDef) and n.name == "Channel")
    sites, direct_lock, calls = [], {}, {}

    def walk(stmts, locked, fn):
        pending = False      # an acquire() seen in this statement list: the next try body is the locked region
        for st in stmts:
            if _lock_call(st, "acquire"):
                pending = True
                direct_lock[fn] = True
                continue
            here = locked
            if isinstance(st, ast.With) and any(_is_self_lock(i.context_expr) for i in st.items):
                direct_lock[fn] = True
                visit_exprs(st, True, fn, skip_body=True)
                walk(st.body, True, fn)
                continue
            if isinstance(st, ast.Try):
                releases = any(_lock_call(f, "release") for f in st.finalbody)
                inner = locked or (pending and releases)
                walk(st.body, inner, fn)
                for h in st.handlers:
                    walk(h.body, inner, fn)
                walk(st.orelse, inner, fn)
                walk(st.finalbody, locked, fn)
                if releases:
                    pending = False
                continue
            if _lock_call(st, "release"):
                pending = False
                locked = False if not isinstance(st, ast.With) else locked
                continue
            here = locked or pending
            visit_exprs(st, here, fn)
            for field in ("body", "orelse"):
                sub = getattr(st, field, None)
                if isinstance(sub, list) and sub and isinstance(sub[0], ast.stmt):
                    walk(sub, here, fn)

    def visit_exprs(st, locked, fn, skip_body=False):
        # expressions of this statement itself (not of nested statement lists)
        nodes = []
        for name, val in ast.iter_fields(st):
            if name in ("body", "orelse", "finalbody", "handlers"):
                continue
            vals = val if isinstance(val, list) else [val]
            for v in vals:
                if isinstance(v, ast.AST):
                    nodes += list(ast.walk(v))
        for n in nodes:
            if isinstance(n, ast.Call) and isinstance(n.func, ast.Attribute):
                if n.func.attr == "_send_user_message":
                    sites.append({"func": fn, "line": n.lineno, "under_lock": bool(locked)})
                if isinstance(n.func.value, ast.Name) and n.func.value.id == "self":
                    calls.setdefault(fn, set()).add(n.func.attr)

    for f in cls.body:
        if isinstance(f, (ast.FunctionDef, ast.AsyncFunctionDef)):
            direct_lock.setdefault(f.name, False)
            calls.setdefault(f.name, set())
            walk(f.body, False, f.name)
    takes = dict(direct_lock)
    changed = True
    while changed:
        changed = False
        for fn, cs in calls.items():
            if not takes.get(fn) and any(takes.get(c) for c in cs):
                takes[fn] = True
                changed = True
    return sites, takes


def _attr_call(node, obj, meth):
    """`self.<obj>.<meth>(...)`"""
    return (isinstance(node, ast.Call) and isinstance(node.func, ast.Attribute) and node.func.attr == meth
            and isinstance(node.func.value, ast.Attribute) and node.func.value.attr == obj
            and isinstance(node.func.value.value, ast.Name) and node.func.value.value.id == "self")


def send_gate_facts():
    """From the AST of Transport._send_user_message and _send_kex_init:
      rechecks_under_lock — every way out of the wait loop towards `_send_message` passes an
        `if self.clear_to_send.is_set():` test evaluated while `clear_to_send_lock` is held (acquired earlier in the same
        block without a release in between, or inside `with self.clear_to_send_lock`), and `_send_message` is called;
      clears_before_write — in `_send_kex_init`, `clear_to_send.clear()` happens while the lock is held and before the
        `_send_message` call that writes KEXINIT."""
    import paramiko.transport as T

    tree = ast.parse(textwrap.dedent(inspect.getsource(T.Transport._send_user_message)))
    fn = tree.body[0]
    facts = {"guarded_breaks": 0, "unguarded_breaks": 0, "send_calls": 0, "send_under_lock": 0}

    def walk(stmts, held, guarded):
        for st in stmts:
            if isinstance(st, ast.Expr) and _attr_call(st.value, "clear_to_send_lock", "acquire"):
                held = True
                continue
            if isinstance(st, ast.Expr) and _attr_call(st.value, "clear_to_send_lock", "release"):
                held = False
                guarded = False
                continue
            if isinstance(st, ast.Break):
                facts["guarded_breaks" if guarded else "unguarded_breaks"] += 1
                continue
            for n in ast.walk(st) if not isinstance(st, (ast.If, ast.While, ast.With, ast.Try, ast.For)) else []:
                if isinstance(n, ast.Call) and isinstance(n.func, ast.Attribute) and n.func.attr == "_send_message":
                    facts["send_calls"] += 1
                    facts["send_under_lock"] += 1 if held else 0
            if isinstance(st, ast.If):
                is_test = _attr_call(st.test, "clear_to_send", "is_set")
                walk(st.body, held, guarded or (is_test and held))
                walk(st.orelse, held, guarded)
            elif isinstance(st, ast.While) or isinstance(st, ast.For):
                walk(st.body, held, False)
                # what holds after the loop: a guarded break leaves the lock held
                if facts["guarded_breaks"] and not facts["unguarded_breaks"]:
                    held = True
                walk(st.orelse, held, guarded)
            elif isinstance(st, ast.With):
                h2 = held or any(isinstance(i.context_expr, ast.Attribute) and i.context_expr.attr == "clear_to_send_lock"
                                 for i in st.items)
                walk(st.body, h2, guarded)
            elif isinstance(st, ast.Try):
                walk(st.body, held, guarded)
                for h in st.handlers:
                    walk(h.body, held, guarded)
                walk(st.finalbody, held, guarded)

    walk(fn.body, False, False)
    rechecks = (facts["guarded_breaks"] >= 1 and facts["unguarded_breaks"] == 0 and facts["send_calls"] >= 1
                and facts["send_under_lock"] == facts["send_calls"])

    tree2 = ast.parse(textwrap.dedent(inspect.getsource(T.Transport._send_kex_init)))
    order = []           # ("acquire"|"clear"|"release"|"send", lineno) in source order

    for n in ast.walk(tree2):
        if _attr_call(n, "clear_to_send_lock", "acquire"):
            order.append((n.lineno, "acquire"))
        elif _attr_call(n, "clear_to_send_lock", "release"):
            order.append((n.lineno, "release"))
        elif _attr_call(n, "clear_to_send", "clear"):
            order.append((n.lineno, "clear"))
        elif isinstance(n, ast.Call) and isinstance(n.func, ast.Attribute) and n.func.attr == "_send_message":
            order.append((n.lineno, "send"))
        elif isinstance(n, ast.With) and any(isinstance(i.context_expr, ast.Attribute)
                                             and i.context_expr.attr == "clear_to_send_lock" for i in n.items):
            order.append((n.lineno, "acquire"))
            order.append((max(x.lineno for x in ast.walk(n) if hasattr(x, "lineno")) + 0.5, "release"))
    order.sort()
    kinds = [k for _l, k in order]
    clears = False
    if "clear" in kinds and "send" in kinds and "acquire" in kinds:
        ci, si = kinds.index("clear"), kinds.index("send")
        ai = kinds.index("acquire")
        ri = kinds.index("release") if "release" in kinds else len(kinds)
        clears = ai < ci < ri and ci < si
    return {"rechecks_under_lock": bool(rechecks), "clears_before_write": bool(clears), "detail": facts}


def clears_under_lock():
    """Every `self.clear_to_send.clear()` in paramiko/transport.py with whether it is lexically inside a
    `clear_to_send_lock` region (acquire()…try…finally release(), acquire()…release() in one block, or `with`):
    [(function, line, under_lock)]"""
    import paramiko.transport as T

    tree = ast.parse(open(T.__file__, encoding="utf-8").read())
    out = []

    def is_lock_with(st):
        return isinstance(st, ast.With) and any(
            isinstance(i.context_expr, ast.Attribute) and i.context_expr.attr == "clear_to_send_lock" for i in st.items)

    def walk(stmts, held, fn):
        pending = False
        for st in stmts:
            if isinstance(st, (ast.FunctionDef, ast.AsyncFunctionDef)):
                walk(st.body, False, st.name)
                continue
            if isinstance(st, ast.ClassDef):
                walk(st.body, False, fn)
                continue
            if isinstance(st, ast.Expr) and _attr_call(st.value, "clear_to_send_lock", "acquire"):
                pending = True
                continue
            if isinstance(st, ast.Expr) and _attr_call(st.value, "clear_to_send_lock", "release"):
                pending = False
                continue
            here = held or pending
            if isinstance(st, ast.Try):
                walk(st.body, here, fn)
                for h in st.handlers:
                    walk(h.body, here, fn)
                walk(st.orelse, here, fn)
                walk(st.finalbody, here, fn)
                if any(isinstance(f, ast.Expr) and _attr_call(f.value, "clear_to_send_lock", "release")
                       for f in st.finalbody):
                    pending = False
                continue
            if is_lock_with(st):
                walk(st.body, True, fn)
                continue
            sub_lists = [getattr(st, f) for f in ("body", "orelse") if isinstance(getattr(st, f, None), list)
                         and getattr(st, f) and isinstance(getattr(st, f)[0], ast.stmt)]
            if sub_lists:
                for f in ("test", "iter", "items"):
                    v = getattr(st, f, None)
                    for n in (ast.walk(v) if isinstance(v, ast.AST) else []):
                        if _attr_call(n, "clear_to_send", "clear"):
                            out.append((fn, n.lineno, bool(here)))
                for sl in sub_lists:
                    walk(sl, here, fn)
                continue
            for n in ast.walk(st):
                if _attr_call(n, "clear_to_send", "clear"):
                    out.append((fn, n.lineno, bool(here)))

    walk(tree.body, False, "<module>")
    return out


def newkeys_keeps_auth_handler():
    """AST of Transport._parse_newkeys: every assignment to `self.auth_handler` is inside an `if` whose test includes
    `self.auth_handler is None` (a re-exchange must not replace the authenticated handler).  None if unreadable."""
    import paramiko.transport as T

    try:
        tree = ast.parse(textwrap.dedent(inspect.getsource(T.Transport._parse_newkeys)))
    except (OSError, SyntaxError):
        return None
    ok = True

    def guarded_test(test):
        for c in ast.walk(test):
            if (isinstance(c, ast.Compare) and len(c.ops) == 1 and isinstance(c.ops[0], ast.Is)
                    and isinstance(c.left, ast.Attribute) and c.left.attr == "auth_handler"
                    and isinstance(c.comparators[0], ast.Constant) and c.comparators[0].value is None):
                return True
        return False

    def walk(stmts, guarded):
        nonlocal ok
        for st in stmts:
            if isinstance(st, ast.Assign) and any(isinstance(t, ast.Attribute) and t.attr == "auth_handler"
                                                  for t in st.targets):
                ok = ok and guarded
            if isinstance(st, ast.If):
                walk(st.body, guarded or guarded_test(st.test))
                walk(st.orelse, guarded)
            else:
                for f in ("body", "orelse", "finalbody"):
                    sub = getattr(st, f, None)
                    if isinstance(sub, list) and sub and isinstance(sub[0], ast.stmt):
                        walk(sub, guarded)

    walk(tree.body[0].body, False)
    return ok


def send_timeout_reads_clock():
    """AST of Transport._send_user_message: the test that raises "Key-exchange timed out" compares a `time.time()`
    reading with `start + self.clear_to_send_timeout`, where `start` was assigned from `time.time()` before the loop
    (the bound is elapsed time, not a number of loop passes).  None if unreadable."""
    import paramiko.transport as T

    try:
        tree = ast.parse(textwrap.dedent(inspect.getsource(T.Transport._send_user_message)))
    except (OSError, SyntaxError):
        return None

    def is_time_call(n):
        return (isinstance(n, ast.Call) and isinstance(n.func, ast.Attribute) and n.func.attr == "time"
                and isinstance(n.func.value, ast.Name) and n.func.value.id == "time")

    start_from_clock = any(isinstance(n, ast.Assign) and is_time_call(n.value) and any(
        isinstance(t, ast.Name) and t.id == "start" for t in n.targets) for n in ast.walk(tree))
    for n in ast.walk(tree):
        if isinstance(n, ast.If) and any(isinstance(x, ast.Raise) for x in n.body):
            t = n.test
            if (isinstance(t, ast.Compare) and is_time_call(t.left) and len(t.ops) == 1
                    and isinstance(t.ops[0], (ast.Gt, ast.GtE))
                    and any(isinstance(x, ast.Name) and x.id == "start" for x in ast.walk(t.comparators[0]))
                    and any(isinstance(x, ast.Attribute) and x.attr == "clear_to_send_timeout"
                            for x in ast.walk(t.comparators[0]))):
                return bool(start_from_clock)
            return False
    return None


def keepalive_silent_while_rekey_pending():
    """AST of Packetizer._check_keepalive: an early `return` whose test includes `self.__need_rekey` precedes the call
    of the keepalive callback (the callback sends through _send_user_message on the transport thread).  None if
    unreadable."""
    import paramiko.packet as P

    try:
        tree = ast.parse(textwrap.dedent(inspect.getsource(P.Packetizer._check_keepalive)))
    except (OSError, SyntaxError):
        return None
    body = tree.body[0].body
    guard_at = call_at = None
    for i, st in enumerate(body):
        if guard_at is None and isinstance(st, ast.If) and any(isinstance(x, ast.Return) for x in st.body) and any(
                isinstance(x, ast.Attribute) and x.attr.endswith("need_rekey") for x in ast.walk(st.test)):
            guard_at = i
        if call_at is None and any(isinstance(x, ast.Call) and isinstance(x.func, ast.Attribute)
                                   and x.func.attr.endswith("keepalive_callback") for x in ast.walk(st)):
            call_at = i
    if call_at is None:
        return None
    return guard_at is not None and guard_at < call_at


def recv_sends_every_computed_ack():
    """AST of Channel.recv / recv_stderr: the window credit `ack = self._check_add_window(...)` (which has already
    zeroed in_window_sofar) is sent under the plain test `if ack > 0:` — no further condition that could skip the
    WINDOW_ADJUST and drop the credit.  None if unreadable."""
    import paramiko.channel as C

    ok = True
    found = 0
    for fn in (C.Channel.recv, C.Channel.recv_stderr):
        try:
            tree = ast.parse(textwrap.dedent(inspect.getsource(fn)))
        except (OSError, SyntaxError):
            return None
        for n in ast.walk(tree):
            if isinstance(n, ast.If) and any(isinstance(x, ast.Name) and x.id == "ack" for x in ast.walk(n.test)):
                found += 1
                t = n.test
                plain = (isinstance(t, ast.Compare) and isinstance(t.left, ast.Name) and t.left.id == "ack"
                         and len(t.ops) == 1 and isinstance(t.ops[0], ast.Gt)
                         and isinstance(t.comparators[0], ast.Constant) and t.comparators[0].value == 0)
                sends = any(isinstance(x, ast.Call) and isinstance(x.func, ast.Attribute)
                            and x.func.attr == "_send_user_message" for x in ast.walk(n))
                ok = ok and plain and sends
    return ok and found >= 2


def read_all_idle_branches_share_rekey_test():
    """AST of Packetizer.read_all: the `raise NeedRekeyException` is not written into an individual `except` clause;
    it follows the `try` statement (the got_timeout pattern), so `socket.timeout` and `socket.error(EAGAIN)` reach the
    same test — or, if it is written into handlers, every handler has it.  None if unreadable."""
    import paramiko.packet as P

    try:
        tree = ast.parse(textwrap.dedent(inspect.getsource(P.Packetizer.read_all)))
    except (OSError, SyntaxError):
        return None

    def raises_rekey(node):
        return any(isinstance(x, ast.Raise) and x.exc is not None and any(
            isinstance(y, ast.Name) and y.id == "NeedRekeyException" for y in ast.walk(x.exc)) for x in ast.walk(node))

    tries = [n for n in ast.walk(tree) if isinstance(n, ast.Try)]
    if not tries or not raises_rekey(tree):
        return None
    t = tries[0]
    in_handlers = [raises_rekey(h) for h in t.handlers]
    if any(in_handlers):
        return all(in_handlers)
    return True


def kex_init_marks_exchange_open():
    """AST of Transport._send_kex_init: `self.in_kex = True` is an unconditional top-level statement of the function
    and comes before the `self._send_message(...)` call that writes KEXINIT — whoever sends a KEXINIT (the run loop,
    renegotiate_keys, or `_negotiate_keys` answering the peer's) marks the exchange open, so the run loop's
    `need_rekey() and not in_kex` test cannot start a second exchange inside a running one.  None if unreadable."""
    import paramiko.transport as T

    try:
        tree = ast.parse(textwrap.dedent(inspect.getsource(T.Transport._send_kex_init)))
    except (OSError, SyntaxError):
        return None
    fn = tree.body[0]
    set_at = send_at = None
    for i, st in enumerate(fn.body):
        if (isinstance(st, ast.Assign) and len(st.targets) == 1 and ast.unparse(st.targets[0]) == "self.in_kex"
                and isinstance(st.value, ast.Constant) and st.value.value is True and set_at is None):
            set_at = i
        if send_at is None and any(isinstance(n, ast.Call) and ast.unparse(n.func) == "self._send_message"
                                   for n in ast.walk(st)):
            send_at = i
    return set_at is not None and send_at is not None and set_at < send_at


def send_message_callers():
    """Every method of paramiko/transport.py that calls `self._send_message(...)` directly (bypassing the
    clear_to_send gate), as `Class.method` names in source order.  None if unreadable."""
    import paramiko.transport as T

    try:
        tree = ast.parse(open(T.__file__, encoding="utf-8").read())
    except (OSError, SyntaxError):
        return None
    out = []
    for cls in [n for n in tree.body if isinstance(n, ast.ClassDef)]:
        for f in cls.body:
            if isinstance(f, ast.FunctionDef) and any(
                    isinstance(c, ast.Call) and isinstance(c.func, ast.Attribute) and c.func.attr == "_send_message"
                    for c in ast.walk(f)):
                out.append("%s.%s" % (cls.name, f.name))
    return out


def overflow_test_facts():
    """From the AST of Packetizer.read_message: inside `if self.__need_rekey:` the test that raises "ignoring rekey
    requests" compares which counters with which limits?  Returns [(counter attribute, limit attribute)] (names
    without the class prefix) or None."""
    import paramiko.packet as P

    try:
        tree = ast.parse(textwrap.dedent(inspect.getsource(P.Packetizer.read_message)))
    except (OSError, SyntaxError):
        return None

    def attr(n):
        return n.attr if isinstance(n, ast.Attribute) and isinstance(n.value, ast.Name) and n.value.id == "self" else None

    pairs = []
    for node in ast.walk(tree):
        if isinstance(node, ast.If) and attr(node.test) is not None and attr(node.test).endswith("need_rekey"):
            for inner in ast.walk(node):
                if isinstance(inner, ast.If) and inner is not node and any(isinstance(x, ast.Raise) for x in inner.body):
                    for c in ast.walk(inner.test):
                        if isinstance(c, ast.Compare) and len(c.comparators) == 1:
                            a, b = attr(c.left), attr(c.comparators[0])
                            if a and b:
                                pairs.append((a.split("__")[-1], b))
            break
    return pairs


def lean_channel_table(sites, takes, handlers, gate):
    rows = ",\n".join('    ⟨"%s", %d, %s, %s⟩' % (s["func"], s["line"], "true" if s["under_lock"] else "false",
                                                  "true" if s["func"] in handlers else "false") for s in sites)
    hrows = ", ".join('("%s", %s)' % (h, "true" if takes.get(h) else "false") for h in sorted(handlers))
    return (
        "/- GENERATED from the AST of paramiko/channel.py of the tree under test by pv/lib_runloop.py on every run of C11\n"
        "   -- do not edit.  Every call site of `_send_user_message` in class Channel: function, line, whether it is\n"
        "   lexically inside a `with self.lock` / acquire…release region, whether the function is a transport-thread\n"
        "   handler (member of Transport._channel_handler_table).  And per handler: does it take Channel.lock. -/\n"
        "namespace PV.Generated.C11\n\n"
        "structure Site where\n  func : String\n  line : Nat\n  underLock : Bool\n  onTransportThread : Bool\n"
        "  deriving Repr, DecidableEq\n\n"
        "def sites : List Site := [\n%s ]\n\n"
        "/-- transport-thread channel handlers and whether they (or a method they call) take Channel.lock -/\n"
        "def handlers : List (String × Bool) := [%s]\n\n"
        "/-- Transport._send_user_message: the `_send_message` call is reached only through an `is_set()` test made while\n"
        "clear_to_send_lock is held -/\n"
        "def sendRechecksUnderLock : Bool := %s\n\n"
        "/-- Transport._send_kex_init: clear_to_send is cleared under the lock before KEXINIT is written -/\n"
        "def kexInitClearsBeforeWrite : Bool := %s\n\n"
        "/-- Packetizer.read_message, branch `if need_rekey`: (counter, limit) of each comparison in the test that raises\n"
        "\"Remote transport is ignoring rekey requests\" -/\n"
        "def overflowTests : List (String × String) := [%s]\n\n"
        "/-- every `clear_to_send.clear()` in transport.py: (function, line, inside a clear_to_send_lock region) -/\n"
        "def clearSites : List (String × Nat × Bool) := [%s]\n\n"
        "def allClearsUnderLock : Bool := clearSites.all (·.2.2) && !clearSites.isEmpty\n\n"
        "/-- Transport._parse_newkeys assigns `self.auth_handler` only under an `auth_handler is None` test -/\n"
        "def newkeysKeepsAuthHandler : Bool := %s\n\n"
        "/-- Packetizer._check_keepalive returns before the callback while a rekey request is pending -/\n"
        "def keepaliveSilentWhileRekeyPending : Bool := %s\n\n"
        "/-- Channel.recv / recv_stderr send the window credit whenever one was computed (`if ack > 0:` only) -/\n"
        "def recvSendsEveryComputedAck : Bool := %s\n\n"
        "/-- Transport._send_user_message: the give-up test reads the clock (`time.time() > start + timeout`) -/\n"
        "def sendTimeoutReadsClock : Bool := %s\n\n"
        "/-- Packetizer.read_all: socket.timeout and socket.error(EAGAIN) reach one and the same NeedRekeyException test -/\n"
        "def readAllIdleBranchesShareRekeyTest : Bool := %s\n\n"
        "/-- the methods of transport.py that call `_send_message` directly (not through the clear_to_send gate) -/\n"
        "def sendMessageCallers : List String := [%s]\n\n"
        "/-- Transport._send_kex_init sets `in_kex` unconditionally, before it writes KEXINIT -/\n"
        "def kexInitMarksExchangeOpen : Bool := %s\n\n"
        "end PV.Generated.C11\n" % (rows, hrows, "true" if gate["rechecks_under_lock"] else "false",
                                      "true" if gate["clears_before_write"] else "false",
                                      ", ".join('("%s", "%s")' % p for p in (gate.get("overflow_tests") or [])),
                                      ", ".join('("%s", %d, %s)' % (f, l, "true" if u else "false")
                                                for f, l, u in (gate.get("clear_sites") or [])),
                                      "true" if gate.get("newkeys_keeps_auth_handler") else "false",
                                      "true" if gate.get("keepalive_guard") else "false",
                                      "true" if gate.get("recv_sends_every_ack") else "false",
                                      "true" if gate.get("send_timeout_reads_clock") else "false",
                                      "true" if gate.get("read_all_idle_shared") else "false",
                                      ", ".join('"%s"' % x for x in (gate.get("send_message_callers") or [])),
                                      "true" if gate.get("kex_init_marks_open") else "false")
    )


def write_generated_c11(ctx):
    from paramiko.transport import Transport

    sites, takes = channel_lock_table()
    handlers = {f.__name__ for f in Transport._channel_handler_table.values()}
    gate = send_gate_facts()
    gate["overflow_tests"] = overflow_test_facts()
    gate["clear_sites"] = clears_under_lock()
    gate["newkeys_keeps_auth_handler"] = newkeys_keeps_auth_handler()
    gate["keepalive_guard"] = keepalive_silent_while_rekey_pending()
    gate["recv_sends_every_ack"] = recv_sends_every_computed_ack()
    gate["send_timeout_reads_clock"] = send_timeout_reads_clock()
    gate["read_all_idle_shared"] = read_all_idle_branches_share_rekey_test()
    gate["send_message_callers"] = send_message_callers()
    gate["kex_init_marks_open"] = kex_init_marks_exchange_open()
    ctx.extra["send_gate_facts"] = gate
    ctx.write_generated("C11", lean_channel_table(sites, takes, handlers, gate))
    return sites, takes, handlers



def parked_sender_vs_self_rekey(role):
    """A user thread of the subject is stopped inside `_send_user_message` after its `is_set()` test, right before it
    hands its packet to `_send_message`; the subject then starts a re-exchange itself (`_send_kex_init`, what a
    threshold crossing or renegotiate_keys() does) on another thread.  The sender is released once the starter has
    either reached `clear_to_send_lock.acquire()` (it must wait for the sender) or written KEXINIT."""
    from tests._loop import LoopSocket

    a, b = LoopSocket(), LoopSocket()
    a.link(b)
    pair = Pair(role, "Transport", True, socks=(a, b))
    sub, peer = pair.subject, pair.peer
    out = {"role": role}
    try:
        ch = pair.tc.open_session(timeout=30)
        sch = pair.ts.accept(30)
        if sch is None:
            raise InfraError("accept timed out")
        sub_ch, peer_ch = (sch, ch) if role == "server" else (ch, sch)
        tap = Tap(sub)
        sub.clear_to_send_timeout = 3.0
        if not pair.barrier():
            raise InfraError("session not usable before the re-exchange")
        at_write, go, starter_at_lock = threading.Event(), threading.Event(), threading.Event()
        threads = {}
        orig_send = sub._send_message

        def send_message(m):                       # observation point: between the is_set() test and the write
            if threading.current_thread() is threads.get("user") and not at_write.is_set():
                at_write.set()
                go.wait(30)
            return orig_send(m)

        sub._send_message = send_message
        real_lock = sub.clear_to_send_lock

        class LockProxy:
            def acquire(self, *a, **k):
                if threading.current_thread() is threads.get("starter"):
                    starter_at_lock.set()
                return real_lock.acquire(*a, **k)

            def release(self):
                return real_lock.release()

            def locked(self):
                return real_lock.locked()

            def __enter__(self):
                self.acquire()
                return self

            def __exit__(self, *a):
                self.release()

        sub.clear_to_send_lock = LockProxy()
        user_exc = []

        def user():
            try:
                sub_ch.sendall(b"parked-before-write")
            except Exception as e:
                user_exc.append(e)

        threads["user"] = threading.Thread(target=user, daemon=True)
        threads["user"].start()
        if not at_write.wait(20):
            raise InfraError("the user thread never reached its write")
        mark = len(tap.tx)
        threads["starter"] = threading.Thread(target=sub._send_kex_init, daemon=True)
        threads["starter"].start()
        t0 = time.time()
        while not (starter_at_lock.is_set() or any(r[0] == 20 for r in tap.tx[mark:])):
            if time.time() - t0 > 20:
                raise InfraError("the re-exchange starter neither reached the lock nor wrote KEXINIT")
            time.sleep(0.002)
        out["starter_waited_for_sender"] = starter_at_lock.is_set() and not any(r[0] == 20 for r in tap.tx[mark:])
        go.set()

        def settled():
            return (not sub.is_alive() or not peer.is_alive()) or (
                not sub.in_kex and not peer.in_kex and sub.clear_to_send.is_set() and peer.clear_to_send.is_set()
                and any(r[0] == 21 for r in tap.tx[mark:]))

        t0 = time.time()
        while not (settled() and not threads["user"].is_alive()) and time.time() - t0 < 12:
            time.sleep(0.01)
        for t in (sub, peer):
            if not t.is_active():
                t.join(10)
        types = [r[0] for r in tap.tx[mark:]]
        i20 = types.index(20) if 20 in types else len(types)
        window = []
        for t in types[i20 + 1:]:
            if t == 21:
                break
            window.append(t)
        out["before_kexinit"] = types[:i20]
        out["window"] = window
        out["completed"] = bool(21 in types and sub.is_active() and peer.is_active() and settled())
        out["user_exc"] = repr(user_exc[0]) if user_exc else "-"
        out["sub_exc"] = repr(sub.saved_exception)
        out["peer_exc"] = repr(root_exc(peer.saved_exception)) if peer.saved_exception is not None else "None"
        got = b""
        if out["completed"] and not user_exc:
            peer_ch.settimeout(20)
            try:
                while len(got) < 19:
                    x = peer_ch.recv(64)
                    if not x:
                        break
                    got += x
            except Exception:
                pass
        out["delivered"] = got == b"parked-before-write"
        return out
    finally:
        pair.close()
