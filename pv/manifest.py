"""Regenerate MANIFEST.json from the META dict of every pv/props/cNN.py (run at development time)."""
import importlib
import json
import os
import re

from pv.core import VERIF

NOT_BUILT = "no Lean model/check is built for this property yet (plan: DESIGN.md section 8); not claimed"


def main():
    props = [json.loads(l) for l in open(os.path.join(VERIF, "properties.jsonl"))]
    checks, na = [], []
    overrides = {}
    na_path = os.path.join(VERIF, "not_applicable.json")
    if os.path.exists(na_path):
        overrides = json.load(open(na_path))
    for p in props:
        pid = p["id"]
        path = os.path.join(VERIF, "pv", "props", pid.lower() + ".py")
        if not os.path.exists(path) or pid in overrides:
            na.append({"property_id": pid, "reason": overrides.get(pid, NOT_BUILT)})
            continue
        try:
            mod = importlib.import_module("pv.props." + pid.lower())
            meta = getattr(mod, "META", None)
        except Exception as e:  # a module that does not import must never silently drop a claim
            print("ERROR", pid, "import failed:", e, "- MANIFEST.json left as it is")
            raise SystemExit(3)
        if not meta or not meta.get("claimed", False):
            na.append({"property_id": pid, "reason": (meta or {}).get("reason", NOT_BUILT)})
            continue
        checks.append({
            "property_id": pid,
            "quick_cmd": "./check %s --tier quick" % pid,
            "thorough_cmd": "./check %s --tier thorough" % pid,
            "evidence_file": "evidence/%s.json" % pid,
            "replay_cmd_template": "./check %s --replay {path}" % pid,
            "engine": "lean4-proof+correspondence",
            "level_claimed": {"category": "proof", "text": meta["level"], "design_ref": "DESIGN.md section 8, " + pid},
            "level_note": meta["note"],
            "technique": meta.get("technique", "Lean 4 theorems about an executable model + differential correspondence with the real code"),
        })
    man = {
        "version": 1,
        "setup_cmd": "./setup.sh",
        "hooks": {
            "guard": "PARAMIKO_VERIF",
            "enable": "no source hooks: checks import /repo's working tree in-process and wrap/patch from outside; PARAMIKO_VERIF=1 is exported by the harness but read by no paramiko code",
            "baseline_off_cmd": "tools/baseline.sh /repo",
            "source_commits": [],
            "add_only": True,
        },
        "engines": [{
            "name": "lean4-proof+correspondence",
            "path": "lean/ (Lean 4 project) + pv/ (Python harness)",
            "serves_properties": [c["property_id"] for c in checks],
            "kind_free_text": "machine-checked Lean 4 theorems about executable models; models tied to /repo by generated tables and a differential line-protocol correspondence run on every check",
        }],
        "checks": checks,
        "notes": "See DESIGN.md. Exit 0 = held; 1 = VIOLATION line; 2 = infrastructure failure (timeout), never used to hide a result.",
        "not_applicable": na,
    }
    with open(os.path.join(VERIF, "MANIFEST.json"), "w") as f:
        json.dump(man, f, indent=1)
        f.write("\n")
    print("claimed:", [c["property_id"] for c in checks])
    print("not claimed:", len(na))


if __name__ == "__main__":
    main()
