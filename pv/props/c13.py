"""C13 — Blocking calls return once the connection ends (partial).

The order of the wake-ups on both shutdown paths (tail of Transport.run(), Transport.close()) and the guard of
Channel._event_pending are read from the AST on every run (pv/lib_lockdisc.teardown) and the model's rows are
built from them, so the theorems are about the order the source has now.

Model: lean/PV/Model/Blocking.lean (wait-loop shapes + the two shutdown paths, any interleaving);
theorems: lean/PV/Props/C13.lean; driver: lean/Driver/C13.lean.
Correspondence + oracle: every blocking API x loss mode x phase (blocked before the loss / called after it)
on real Transports over an in-memory gated socket pair, under a watchdog; the model's prediction
(returns promptly / stays blocked) is compared with what the real call did.  ProxyCommand.recv at EOF is
driven with real child processes in a subprocess (an old-style spin cannot be interrupted in-process).
"""
import os
import subprocess
import sys
import threading
import time
from concurrent.futures import ThreadPoolExecutor

from pv import lib_net
from pv.core import REPO, exc_site

# "<api>@<pre>": the channel is first put into a half-closed state by the application (pre = shutdown_read | shutdown_2)
PRE_APIS = ["recv@stray_open_failure", "recv_exit_status@stray_open_failure", "send@stray_open_failure",
            "exec_command@stray_open_failure", "recv@stray_open_success",
            "recv@shutdown_read", "recv@shutdown_2", "recv_stderr@shutdown_read", "recv_stderr@shutdown_2",
            "recv_stderr", "send_stderr", "recv_exit_status@shutdown_read"]
# "<api>@presock": the application had set a long timeout on the socket before handing it to Transport
PRESOCK_APIS = ["accept@presock", "recv@presock", "open_session@presock", "recv_exit_status@presock",
                "global_request@presock", "sendall@presock"]
APIS = ["recv", "recv_timeout", "send", "sendall", "exec_command", "recv_exit_status", "open_session",
        "global_request", "renegotiate_keys", "auth_password", "start_client", "accept", "ensure_session"]
ROW = {"recv_stderr": "recv", "send_stderr": "send", "recv": "recv", "recv_timeout": "recv", "send": "send", "sendall": "send",
       "exec_command": "channel_request", "recv_exit_status": "recv_exit_status",
       "open_session": "open_channel", "global_request": "global_request",
       "renegotiate_keys": "renegotiate_keys", "auth_password": "auth_wait_for_response",
       "start_client": "start_client", "accept": "accept", "ensure_session": "ensure_session"}
LOSSES = ["eof", "disconnect", "garbage", "local_close", "recv_error", "recv_errno"]
PHASES = ["before", "after"]
# "during": the call is made from inside the shutdown path, at every point of it that can be reached from outside
REQ_APIS = ["exec_command", "invoke_shell", "get_pty", "invoke_subsystem", "request_x11"]


def _disconnect_msg():
    from paramiko.message import Message
    from paramiko.common import cMSG_DISCONNECT

    m = Message()
    m.add_byte(cMSG_DISCONNECT)
    m.add_int(11)
    m.add_string("bye")
    m.add_string("en")
    return m


def scenario(api, loss, phase, T, seed):
    """Returns dict(outcome='returned'|'raised:Cls'|'blocked'|'inconclusive', inactive=bool, detail=...)."""
    import random

    from paramiko.transport import ServiceRequestingTransport

    rng = random.Random(seed)
    api, _, pre = api.partition("@")
    server_side = api == "accept"
    kw = {}
    if api in ("auth_password", "start_client"):
        kw["auth"] = False
    if api == "ensure_session":
        kw["auth"] = False
        kw["client_cls"] = ServiceRequestingTransport
    if pre == "presock":
        kw["sock_timeout"] = 30.0
    tc = ts = None
    try:
        if api == "start_client":
            tc, ts, sc, ss, srv = lib_net.make_pair(start=False)
            ev = threading.Event()
            ss.hold()  # the server never hears the client: the handshake cannot complete
            ts.start_server(ev, srv)
        else:
            tc, ts, sc, ss, srv = lib_net.make_pair(**kw)
        target, tsock, peer = (ts, ss, tc) if server_side else (tc, sc, ts)
        chan = None
        if api in ("recv", "recv_timeout", "send", "sendall", "exec_command", "recv_exit_status", "recv_stderr",
                   "send_stderr") or \
                api in REQ_APIS or (api == "accept" and phase == "during"):
            chan = tc.open_session(timeout=15)
            schan = ts.accept(5)  # keep a reference: a collected Channel closes itself
            if schan is None:
                raise RuntimeError("server did not accept the channel")
        if api == "recv_timeout":
            chan.settimeout(120)
        if api in ("send", "sendall", "send_stderr"):
            with chan.lock:
                chan.out_window_size = 0  # the peer's window is exhausted: the sender must wait
        if pre.startswith("stray_"):
            # the peer slips in a message that names this (established) channel or a dead one; nothing may change
            from paramiko.message import Message
            from paramiko import common as _c

            m = Message()
            if pre == "stray_open_failure":
                m.add_byte(_c.cMSG_CHANNEL_OPEN_FAILURE)
                m.add_int(chan.chanid)
                m.add_int(1)
                m.add_string("no")
                m.add_string("en")
            elif pre == "stray_open_success":
                m.add_byte(_c.cMSG_CHANNEL_OPEN_SUCCESS)
                m.add_int(chan.chanid)
                m.add_int(77)
                m.add_int(1 << 20)
                m.add_int(1 << 15)
            ts._send_message(m)
            probe = tc.open_session(timeout=15)  # a round trip: the stray message has been handled
            ts.accept(5)
            del probe
        if pre == "shutdown_read":
            chan.shutdown_read()
        elif pre == "shutdown_2":
            chan.shutdown(2)
        if api in ("exec_command", "open_session", "global_request", "renegotiate_keys", "auth_password",
                   "ensure_session") or api in REQ_APIS:
            ss.hold()  # the peer never hears the request, so no reply ever comes

        def call():
            if api in ("recv", "recv_timeout"):
                return chan.recv(10)
            if api == "recv_stderr":
                return chan.recv_stderr(10)
            if api == "send_stderr":
                return chan.send_stderr(b"x" * 10)
            if api == "send":
                return chan.send(b"x" * 10)
            if api == "sendall":
                return chan.sendall(b"x" * 10)
            if api == "exec_command":
                return chan.exec_command("x")
            if api == "invoke_shell":
                return chan.invoke_shell()
            if api == "get_pty":
                return chan.get_pty()
            if api == "invoke_subsystem":
                return chan.invoke_subsystem("x")
            if api == "request_x11":
                return chan.request_x11()
            if api == "recv_exit_status":
                return chan.recv_exit_status()
            if api == "open_session":
                return tc.open_session(timeout=120)
            if api == "global_request":
                return tc.global_request("x@y", wait=True)
            if api == "renegotiate_keys":
                return tc.renegotiate_keys()
            if api == "auth_password":
                return tc.auth_password("u", "pw")
            if api == "start_client":
                return tc.start_client()
            if api == "accept":
                return ts.accept(None)
            if api == "ensure_session":
                return tc.auth_none("u")
            raise AssertionError(api)

        def lose():
            if loss == "eof":
                tsock.eof()
            elif loss == "local_close":
                target.close()
            elif loss == "disconnect":
                if api == "start_client":
                    tsock.eof()  # no keys yet: a clean DISCONNECT cannot be framed; same shutdown path
                else:
                    peer._send_message(_disconnect_msg())
            elif loss == "garbage":
                tsock.inject(rng.randbytes(4096))
            elif loss == "recv_error":
                tsock.fail_reads(OSError("link lost"))  # a socket-like object without errno
            elif loss == "recv_errno":
                tsock.fail_reads(ConnectionResetError(104, "Connection reset by peer"))

        res = {}

        def runner():
            try:
                res["value"] = call()
                res["outcome"] = "returned"
            except BaseException as e:  # noqa
                res["outcome"] = "raised:" + type(e).__name__
                res["site"] = exc_site(e)

        if phase == "during":
            return _during(api, loss, T, target, tsock, call, lose)
        if phase == "race":
            return _race(api, loss, T, target, chan, call, lose)
        th = threading.Thread(target=runner, daemon=True)
        if phase == "before":
            th.start()
            # let the call reach its wait; it cannot complete (nothing answers), so any state is "before"
            lib_net.wait_until(lambda: "outcome" in res, 0.3)
            if "outcome" in res:
                return {"outcome": "inconclusive", "detail": "call finished before the loss: %r" % res,
                        "inactive": None}
            lose()
        else:
            lose()
            gone = lib_net.wait_until(lambda: not target.is_active(), T)
            if not gone:
                if loss == "garbage":
                    return {"outcome": "inconclusive", "inactive": False,
                            "detail": "garbage was absorbed as the start of a long packet"}
                return {"outcome": "still-active", "inactive": False, "detail": "transport stayed active"}
            th.start()
        th.join(T)
        inactive = lib_net.wait_until(lambda: not target.is_active(), 0.5 if not th.is_alive() else 0.05)
        if th.is_alive():
            if loss == "garbage" and target.is_active():
                return {"outcome": "inconclusive", "inactive": False,
                        "detail": "garbage was absorbed as the start of a long packet"}
            return {"outcome": "blocked", "inactive": inactive, "detail": "still blocked after %.1fs" % T}
        return {"outcome": res["outcome"], "inactive": inactive, "detail": res.get("site", "")}
    finally:
        for t in (tc, ts):
            try:
                if t is not None:
                    t.close()
            except Exception:
                pass


def _spawn(call):
    res = {}

    def runner():
        try:
            call()
            res["outcome"] = "returned"
        except BaseException as e:  # noqa
            res["outcome"] = "raised:" + type(e).__name__

    th = threading.Thread(target=runner, daemon=True)
    th.start()
    return th, res


def _during(api, loss, T, target, tsock, call, lose):
    """The call is made from inside the shutdown path: after each step of it that can be wrapped from outside
    (each channel's _unlink, packetizer.close, auth_handler.abort, sock.close) a fresh caller thread enters the API;
    the shutdown continues once that caller has returned or is parked.  Every caller must return."""
    injected = []
    seen = set()
    guard = threading.Lock()

    def inject(hook):
        with guard:
            if hook in seen:
                return
            seen.add(hook)
        th, res = _spawn(call)
        th.join(0.25)  # returned, or parked in its wait
        injected.append((hook, th, res))

    def wrap(obj, name, hook):
        try:
            orig = getattr(obj, name)
        except AttributeError:
            return

        def w(*a, **k):
            try:
                return orig(*a, **k)
            finally:
                inject(hook)

        try:
            setattr(obj, name, w)
        except Exception:
            pass

    for ch in list(target._channels.values()):
        wrap(ch, "_unlink", "unlink")
    wrap(target.packetizer, "close", "packetizer_close")
    if getattr(target, "auth_handler", None) is not None:
        wrap(target.auth_handler, "abort", "auth_abort")
    wrap(tsock, "close", "sock_close")
    lose()
    gone = lib_net.wait_until(lambda: not target.is_active(), T)
    if not gone:
        if loss == "garbage":
            return {"outcome": "inconclusive", "inactive": False, "detail": "garbage absorbed"}
        return {"outcome": "still-active", "inactive": False, "detail": "transport stayed active"}
    end = time.monotonic() + T
    lib_net.wait_until(lambda: "sock_close" in seen, 2.0)
    lib_net.wait_until(lambda: len(injected) == len(seen), 2.0)  # every entered caller has returned or is parked
    blocked = []
    for hook, th, res in injected:
        th.join(max(0.0, end - time.monotonic()))
        if th.is_alive():
            blocked.append(hook)
    if not injected:
        return {"outcome": "inconclusive", "inactive": True, "detail": "no shutdown step could be wrapped"}
    if blocked:
        return {"outcome": "blocked", "inactive": True, "hooks": blocked,
                "detail": "call entered after %s still blocked %.1fs after the loss" % ("/".join(blocked), T)}
    return {"outcome": "returned", "inactive": True, "detail": "entered after: " + ",".join(h for h, _, _ in injected)}


class _RacingEvent:
    """Stands in for Channel.event: the first clear() lets the connection be lost first (the caller was
    descheduled between its openness check and re-arming the event)."""

    def __init__(self, ev, before_clear):
        self._ev = ev
        self._before = before_clear
        self._done = False

    def clear(self):
        if not self._done:
            self._done = True
            self._before()
        return self._ev.clear()

    def __getattr__(self, n):
        return getattr(self._ev, n)


def _race(api, loss, T, target, chan, call, lose):
    """Channel requests re-arm Channel.event after their openness check: the loss lands exactly in between."""
    def before_clear():
        if loss == "local_close":
            threading.Thread(target=target.close, daemon=True).start()
        else:
            lose()
        lib_net.wait_until(lambda: not target.is_active() and chan.closed, T)
        time.sleep(0.05)

    chan.event = _RacingEvent(chan.event, before_clear)
    th, res = _spawn(call)
    th.join(2 * T)
    if not chan.event._done:
        return {"outcome": "inconclusive", "inactive": None, "detail": "the request did not re-arm the event"}
    if th.is_alive():
        return {"outcome": "blocked", "inactive": not target.is_active(),
                "detail": "request still blocked %.1fs after the loss that raced it" % T}
    return {"outcome": res["outcome"], "inactive": not target.is_active(), "detail": ""}


MULTI = [("send", 3), ("sendall", 3), ("recv", 2), ("accept", 2), ("recv_exit_status", 2)]


def multi_scenario(api, n, loss, T):
    """n threads blocked in the same call on the same channel/transport; the connection is lost;
    every one of them must return.  Returns (number returned, n, detail)."""
    tc = ts = None
    try:
        tc, ts, sc, ss, srv = lib_net.make_pair()
        server_side = api == "accept"
        target, tsock, peer = (ts, ss, tc) if server_side else (tc, sc, ts)
        chan = None
        if not server_side:
            chan = tc.open_session(timeout=15)
            schan = ts.accept(5)
            if schan is None:
                raise RuntimeError("server did not accept the channel")
        if api in ("send", "sendall"):
            with chan.lock:
                chan.out_window_size = 0
        done = [None] * n

        def runner(k):
            try:
                if api == "send":
                    chan.send(b"x" * 10)
                elif api == "sendall":
                    chan.sendall(b"x" * 10)
                elif api == "recv":
                    chan.recv(10)
                elif api == "recv_exit_status":
                    chan.recv_exit_status()
                elif api == "accept":
                    ts.accept(None)
                done[k] = "returned"
            except BaseException as e:  # noqa
                done[k] = "raised:" + type(e).__name__

        ths = [threading.Thread(target=runner, args=(k,), daemon=True) for k in range(n)]
        for t in ths:
            t.start()
        # all of them must be parked (nothing can complete these calls)
        lib_net.wait_until(lambda: any(d is not None for d in done), 0.3)
        if any(d is not None for d in done):
            return None, n, "a call finished before the loss: %r" % done
        if loss == "eof":
            tsock.eof()
        elif loss == "local_close":
            target.close()
        elif loss == "disconnect":
            peer._send_message(_disconnect_msg())
        end = time.monotonic() + T
        for t in ths:
            t.join(max(0.0, end - time.monotonic()))
        return sum(1 for d in done if d is not None), n, repr(done)
    finally:
        for t in (tc, ts):
            try:
                if t is not None:
                    t.close()
            except Exception:
                pass


def failed_kexinit_scenario(api, T):
    """The KEXINIT of a re-exchange cannot be written (socket dead for writing, reader not yet aware); a call
    made in that window blocks on the send gate; then the transport is closed: the call must return."""
    tc = ts = None
    try:
        tc, ts, sc, ss, srv = lib_net.make_pair()
        chan = tc.open_session(timeout=15)
        schan = ts.accept(5)
        if schan is None:
            raise RuntimeError("server did not accept the channel")
        sc.break_writes()
        try:
            tc.renegotiate_keys()
        except BaseException:  # noqa - the write failure is expected to surface here
            pass
        res = {}

        def runner():
            try:
                if api == "send":
                    chan.send(b"x" * 10)
                elif api == "exec_command":
                    chan.exec_command("x")
                elif api == "global_request":
                    tc.global_request("x@y", wait=True)
                res["r"] = "returned"
            except BaseException as e:  # noqa
                res["r"] = "raised:" + type(e).__name__

        th = threading.Thread(target=runner, daemon=True)
        th.start()
        lib_net.wait_until(lambda: "r" in res, 0.3)
        tc.close()
        th.join(T)
        return ("blocked" if th.is_alive() else res.get("r", "returned")), (not tc.is_active())
    finally:
        for t in (tc, ts):
            try:
                if t is not None:
                    t.close()
            except Exception:
                pass


STUCK_APIS = ["send", "send_stderr", "exec_command", "shutdown_write", "shutdown_2", "chan_close", "open_session",
              "global_request", "resize_pty", "send_exit_status"]


def stuck_rekey_scenario(api, loss, T):
    """A re-exchange that cannot complete (our KEXINIT is out, the peer is silent) keeps the send gate closed; a call
    that sends through the gate is made in that window; then the connection is lost.  The transport must become
    inactive and the call (and renegotiate_keys) must return.  Returns (outcome, detail)."""
    tc = ts = None
    try:
        tc, ts, sc, ss, srv = lib_net.make_pair()
        chan = tc.open_session(timeout=15)
        schan = ts.accept(5)
        if schan is None:
            raise RuntimeError("server did not accept the channel")
        ss.hold()  # the server hears nothing from now on: it never answers the KEXINIT
        rk, rres = _spawn(tc.renegotiate_keys)
        if not lib_net.wait_until(lambda: not tc.clear_to_send.is_set(), 3.0):
            return "inconclusive", "the send gate did not close"

        def call():
            if api == "send":
                return chan.send(b"x" * 10)
            if api == "send_stderr":
                return chan.send_stderr(b"x" * 10)
            if api == "exec_command":
                return chan.exec_command("x")
            if api == "shutdown_write":
                return chan.shutdown_write()
            if api == "shutdown_2":
                return chan.shutdown(2)
            if api == "chan_close":
                return chan.close()
            if api == "open_session":
                return tc.open_session(timeout=120)
            if api == "global_request":
                return tc.global_request("x@y", wait=True)
            if api == "resize_pty":
                return chan.resize_pty(100, 40)
            if api == "send_exit_status":
                return chan.send_exit_status(3)
            raise AssertionError(api)

        th, res = _spawn(call)
        th.join(0.3)
        if loss == "eof":
            sc.eof()
        else:
            threading.Thread(target=tc.close, daemon=True).start()
        gone = lib_net.wait_until(lambda: not tc.is_active(), T)
        end = time.monotonic() + T
        th.join(max(0.0, end - time.monotonic()))
        rk.join(max(0.0, end - time.monotonic()))
        if not gone:
            return "still-active", "transport still active %.1fs after the loss (call %s)" % (
                T, "blocked" if th.is_alive() else res.get("outcome"))
        if th.is_alive():
            return "blocked", "call still blocked %.1fs after the loss" % T
        if rk.is_alive():
            return "blocked-rekey", "renegotiate_keys still blocked %.1fs after the loss" % T
        return "returned", res.get("outcome", "")
    finally:
        for t in (tc, ts):
            try:
                if t is not None:
                    t.close()
            except Exception:
                pass


PROXY_CHILD = r'''
import sys, time, threading, os
sys.path.insert(0, sys.argv[1])
import paramiko
from paramiko.proxy import ProxyCommand
mode = sys.argv[2]
out = {}
if mode == "recv":
    # child writes 3 bytes and exits; recv(10) must come back (short) instead of spinning at EOF
    p = ProxyCommand("sh -c 'printf abc'")
    def f():
        try:
            out["r"] = ("ret", p.recv(10))
        except BaseException as e:
            out["r"] = ("exc", type(e).__name__)
    th = threading.Thread(target=f, daemon=True); th.start(); th.join(float(sys.argv[3]))
    print("RESULT", "blocked" if th.is_alive() else out["r"][0], flush=True)
elif mode == "reaped":
    # the application ignores SIGCHLD (daemon idiom), so the kernel reaps the proxy command the moment it exits;
    # the transport's shutdown must still wake a thread parked in accept() and set the caller's event
    import signal; signal.signal(signal.SIGCHLD, signal.SIG_IGN)
    import logging; logging.getLogger("paramiko").setLevel(logging.CRITICAL); logging.getLogger("paramiko").addHandler(logging.NullHandler())
    sys.stderr = open(os.devnull, "w")
    p = ProxyCommand("sh -c 'sleep 0.4'")
    t = paramiko.Transport(p)
    ev = threading.Event()
    t.start_client(event=ev)
    def f():
        try:
            out["r"] = ("ret", t.accept(None))
        except BaseException as e:
            out["r"] = ("exc", type(e).__name__)
    th = threading.Thread(target=f, daemon=True); th.start(); th.join(float(sys.argv[3]))
    print("RESULT", "blocked" if th.is_alive() else out["r"][0], "active" if t.is_active() else "inactive",
          "event-set" if ev.is_set() else "event-not-set", flush=True)
else:
    # transport over a proxy command that exits at once: start_client must fail promptly, transport inactive
    import logging; logging.getLogger("paramiko").setLevel(logging.CRITICAL); logging.getLogger("paramiko").addHandler(logging.NullHandler())
    p = ProxyCommand("sh -c 'exit 0'")
    t = paramiko.Transport(p)
    def f():
        try:
            t.start_client(timeout=60); out["r"] = ("ret", None)
        except BaseException as e:
            out["r"] = ("exc", type(e).__name__)
    th = threading.Thread(target=f, daemon=True); th.start(); th.join(float(sys.argv[3]))
    print("RESULT", "blocked" if th.is_alive() else out["r"][0], "active" if t.is_active() else "inactive", flush=True)
os._exit(0)
'''


def proxy_case(mode, T):
    try:
        p = subprocess.run([sys.executable, "-W", "ignore", "-c", PROXY_CHILD, REPO, mode, str(T)],
                           capture_output=True, text=True, timeout=T + 30)
    except subprocess.TimeoutExpired:
        return "blocked"
    for ln in p.stdout.splitlines():
        if ln.startswith("RESULT"):
            return ln[7:].strip()
    return "error: " + (p.stderr[-200:] or p.stdout[-200:])


def run(ctx):
    lib_net.quiet_logging()
    ctx.rule = ("every blocking API x loss mode (eof, peer DISCONNECT, garbage bytes, local close, recv() raising an "
                "OSError with / without errno) x phase "
                "(blocked before the loss / called after it / entered from inside the shutdown path after each of its "
                "steps / channel request with the loss between its openness check and its wait) on real Transports over "
                "a gated in-memory socket, "
                "watchdog T per call; + ProxyCommand child exit (real processes). distinct = (api, loss, phase); "
                "non-trivial = the call was really blocked before the loss or really made after the transport died")
    ctx.assume("wake-up latency of threading primitives and OS process/pipe signalling are outside the model",
               "a call that has not returned T seconds after the loss is classified as blocked (T = 4 s quick, "
               "10 s thorough; poll period in the code is 0.1 s)")
    from pv import lib_lockdisc

    table, lock_sites = lib_lockdisc.lean_table(REPO)
    ctx.write_generated("C13", table)
    ctx.extra["lock_sites"] = len(lock_sites)
    ctx.extra["lock_sites_unsafe"] = [x for x in lock_sites if not x["safe"]]
    ctx.build()
    T = 10.0 if ctx.thorough else 4.0
    reps = 3 if ctx.thorough else 1

    # ---- model side: predictions for both phases, plus schedule sweep consistency
    rows_lm = [(r, lm) for r in sorted(set(ROW.values())) for lm in ("remote", "local")]
    prog_len = {}
    pl = ctx.driver("C13", ["prog %s %s" % k for k in rows_lm])
    if pl is not None:
        for k, line in zip(rows_lm, pl):
            prog_len[k] = 0 if not line else len(line.split(","))
        ctx.extra["wakeups_from_source"] = {"%s/%s" % k: v for k, v in zip(rows_lm, pl)}
    reqs, keys = [], []
    for api in APIS + ["recv_stderr", "send_stderr"]:
        for lm in ("remote", "local"):
            for phase in PHASES:
                n = prog_len.get((ROW[api], lm), 3)
                sch = ("c" + "l" * n) if phase == "before" else ("l" * n + "c")
                reqs.append("run %s %s %s" % (ROW[api], lm, sch))
                keys.append((api, lm, phase))
    replies = ctx.driver("C13", reqs)
    predict = {}
    if replies is not None:
        for k, r in zip(keys, replies):
            predict[k] = "prompt=1" in r and "fin=1" in r

    # ---- real side
    jobs = [(a, l, p, rep) for a in APIS for l in LOSSES for p in PHASES for rep in range(reps)]
    jobs += [(a, l, p, 0) for a in PRE_APIS for l in ("eof", "disconnect", "local_close") for p in PHASES]
    jobs += [(a, l, p, 0) for a in PRESOCK_APIS for l in ("local_close", "eof", "disconnect") for p in PHASES]
    ctx.rng.shuffle(jobs)

    def do(job):
        a, l, p, rep = job
        try:
            return job, scenario(a, l, p, T, (ctx.seed, a, l, p, rep).__repr__())
        except Exception as e:  # setup problems are infrastructure, reported as inconclusive
            return job, {"outcome": "inconclusive", "inactive": None, "detail": "setup: %r %s" % (e, exc_site(e))}

    with ThreadPoolExecutor(max_workers=8) as ex:
        results = list(ex.map(do, jobs))
    inconclusive = 0
    for (a, l, p, rep), r in results:
        out = r["outcome"]
        ctx.dist("outcome:" + out.split(":")[0])
        if out == "inconclusive":
            inconclusive += 1
            ctx.dist("inconclusive:%s" % l)
            continue
        if (a, l, p) == ("start_client", "local_close", "after"):
            ctx.dist("skipped:close-before-start-is-a-no-op")
            continue
        ctx.case((a, l, p), True)
        if len(ctx.samples) < 6 and rep == 0:
            ctx.sample({"api": a, "loss": l, "phase": p, "result": r})
        returned = out == "returned" or out.startswith("raised:")
        lm = "local" if l == "local_close" else "remote"
        want = predict.get((a.partition("@")[0], lm, p))
        if want is not None and want != returned:
            ctx.disagree("returns-after-loss", {"api": a, "loss": l, "phase": p}, "returns" if want else "blocks", out)
        if out == "blocked":
            ctx.fail("blocked:%s:%s:%s" % (a, "local_close" if l == "local_close" else "remote-loss", p),
                     {"api": a, "loss": l, "phase": p}, r["detail"])
        elif out == "still-active":
            ctx.fail("transport-stays-active:%s" % l, {"api": a, "loss": l, "phase": p}, r["detail"])
        elif r.get("inactive") is False and l != "garbage":
            ctx.fail("transport-stays-active:%s" % l, {"api": a, "loss": l, "phase": p}, "call returned but is_active()")
    # ---- calls entered DURING the shutdown (every wrap point of it), and channel requests raced by the loss
    dreqs, dkeys = [], []
    for row in sorted(set(ROW.values())):
        for lm in ("remote", "local"):
            n = prog_len.get((row, lm), 3)
            for k in range(n + 1):
                # k loss steps, the caller enters, (for a request: one more loss step between check and clear), rest
                for split in (0, 1):
                    sch = "l" * k + "c" + ("l" * min(split, n - k)) + "c" + "l" * (n - k - min(split, n - k))
                    dreqs.append("run %s %s %s" % (row, lm, sch))
                    dkeys.append((row, lm))
    drep = ctx.driver("C13", dreqs)
    dpred = {}
    if drep is not None:
        for k, r in zip(dkeys, drep):
            dpred[k] = dpred.get(k, True) and ("prompt=1" in r and "fin=1" in r)
    DAPIS = [a for a in APIS if a != "start_client"] + PRE_APIS
    djobs = [(a, l, "during") for a in DAPIS for l in ("eof", "disconnect", "local_close")]
    djobs += [(a, l, "race") for a in REQ_APIS for l in ("eof", "disconnect", "local_close")]
    ctx.rng.shuffle(djobs)

    def ddo(job):
        a, l, p = job
        try:
            return job, scenario(a, l, p, T, repr((ctx.seed, a, l, p)))
        except Exception as e:
            return job, {"outcome": "inconclusive", "inactive": None, "detail": "setup: %r %s" % (e, exc_site(e))}

    with ThreadPoolExecutor(max_workers=8) as ex:
        dres = list(ex.map(ddo, djobs))
    for (a, l, p), r in dres:
        out = r["outcome"]
        ctx.dist("%s:%s" % (p, out.split(":")[0]))
        if out == "inconclusive":
            continue
        ctx.case((a, l, p), True)
        if p == "race" and sum(1 for x in ctx.samples if isinstance(x, dict) and x.get("phase") == "race") < 1:
            ctx.sample({"api": a, "loss": l, "phase": p, "result": r})
        returned = out == "returned" or out.startswith("raised:")
        lm = "local" if l == "local_close" else "remote"
        row = ROW.get(a.partition("@")[0], "channel_request")
        want = dpred.get((row, lm))
        if want is not None and want != returned:
            ctx.disagree("returns-after-loss:" + p, {"api": a, "loss": l, "phase": p},
                         "returns" if want else "blocks", out)
        if out == "blocked":
            where = ("during@" + "/".join(r.get("hooks", []))) if p == "during" else "loss-between-check-and-wait"
            ctx.fail("blocked:%s:%s:%s" % (a, "local_close" if l == "local_close" else "remote-loss", where),
                     {"api": a, "loss": l, "phase": p}, r["detail"])
        elif out == "still-active":
            ctx.fail("transport-stays-active:%s" % l, {"api": a, "loss": l, "phase": p}, r["detail"])

    if inconclusive > len(jobs) // 3:
        from pv.core import InfraError

        raise InfraError("too many inconclusive scenarios: %d of %d" % (inconclusive, len(jobs)))

    # ---- several callers blocked on the same object (notify_all must reach every one)
    mreqs, mkeys = [], []
    for api, n in MULTI:
        for lm in ("remote", "local"):
            sch = ",".join("c%d" % i for i in range(n)) + "," + ",".join(["l"] * max(1, prog_len.get((ROW[api], lm), 3)))
            mreqs.append("mrun %s %s all %d %s" % (ROW[api], lm, n, sch))
            mkeys.append((api, n, lm))
    mrep = ctx.driver("C13", mreqs)
    mpred = {}
    if mrep is not None:
        for k, r in zip(mkeys, mrep):
            mpred[k] = ("fin=1" in r) and r.endswith("prompt=" + "1" * k[1])
    mjobs = [(a, n, l) for a, n in MULTI for l in ("eof", "disconnect", "local_close")]

    def mdo(job):
        a, n, l = job
        try:
            return job, multi_scenario(a, n, l, T)
        except Exception as e:
            return job, (None, n, "setup: %r %s" % (e, exc_site(e)))

    with ThreadPoolExecutor(max_workers=6) as ex:
        mres = list(ex.map(mdo, mjobs))
    for (a, n, l), (got, n_, detail) in mres:
        if got is None:
            ctx.dist("multi:inconclusive")
            continue
        ctx.case(("multi", a, n, l), True)
        ctx.dist("multi:%s" % ("all-returned" if got == n else "stranded"))
        lm = "local" if l == "local_close" else "remote"
        want = mpred.get((a, n, lm))
        if want is not None and want != (got == n):
            ctx.disagree("all-callers-return", {"api": a, "callers": n, "loss": l},
                         "all return" if want else "some stranded", "%d of %d returned" % (got, n))
        if got != n:
            ctx.fail("blocked:%s-x%d:%s" % (a, n, "local_close" if l == "local_close" else "remote-loss"),
                     {"api": a, "callers": n, "loss": l}, "%d of %d callers returned: %s" % (got, n, detail))
    if len(ctx.samples) < 8:
        ctx.sample({"multi_caller_cases": len(mjobs)})

    # ---- a re-exchange whose KEXINIT cannot be written, then calls through the send gate, then close()
    for api in ("send", "exec_command", "global_request"):
        try:
            out, inactive = failed_kexinit_scenario(api, T)
        except Exception as e:
            ctx.dist("failed-kexinit:inconclusive")
            continue
        ctx.case(("failed-kexinit", api), True)
        ctx.dist("failed-kexinit:" + out.split(":")[0])
        if out == "blocked":
            ctx.fail("blocked:%s:after-failed-kexinit-write" % api,
                     {"api": api, "scenario": "socket dead for writing; renegotiate_keys() fails; call; close()"},
                     "still blocked %.1fs after Transport.close()" % T)

    # ---- calls through the send gate while a re-exchange is stuck, then the loss
    sjobs = [(a, l) for a in STUCK_APIS for l in ("eof", "local_close")]

    def sdo(job):
        try:
            return job, stuck_rekey_scenario(job[0], job[1], T)
        except Exception as e:
            return job, ("inconclusive", "setup: %r %s" % (e, exc_site(e)))

    with ThreadPoolExecutor(max_workers=8) as ex:
        sres = list(ex.map(sdo, sjobs))
    for (a, l), (out, detail) in sres:
        ctx.dist("stuck-rekey:" + out)
        if out == "inconclusive":
            continue
        ctx.case(("stuck-rekey", a, l), True)
        if out in ("blocked", "blocked-rekey"):
            ctx.fail("blocked:%s:%s:during-stuck-rekey" % (a if out == "blocked" else "renegotiate_keys",
                                                           "local_close" if l == "local_close" else "remote-loss"),
                     {"api": a, "loss": l, "scenario": "KEXINIT sent, peer silent; call; loss"}, detail)
        elif out == "still-active":
            ctx.fail("transport-stays-active:%s:during-stuck-rekey" % l,
                     {"api": a, "loss": l, "scenario": "KEXINIT sent, peer silent; call; loss"}, detail)

    # ---- ProxyCommand at EOF (model: proxyRecv fixed) vs real child processes
    pm = ctx.driver("C13", ["proxy fixed 10 0 3 4", "proxy fixed 10 0 - 2"])
    r1 = proxy_case("recv", T)
    r2 = proxy_case("transport", T)
    r3 = proxy_case("reaped", T)
    ctx.case(("proxy", "reaped"), True)
    ctx.dist("proxy-reaped:" + r3)
    if r3.startswith("blocked") or " active" in r3 or "event-not-set" in r3:
        ctx.fail("blocked:proxy-exit-child-already-reaped",
                 {"proxy": "Transport over a command that exits, SIGCHLD ignored (child reaped at once)",
                  "waiting": "accept(None) and the event given to start_client"}, r3)
    elif r3.startswith("error"):
        ctx.dist("proxy-reaped-harness-error")
    ctx.case(("proxy", "recv"), True)
    ctx.case(("proxy", "transport"), True)
    ctx.sample({"proxy_recv": r1, "proxy_transport": r2})
    if pm is not None and (pm[0] != "some 3" or pm[1] != "some 0"):
        ctx.disagree("proxy-model", "eof after 3 bytes / immediate eof", pm, ["some 3", "some 0"])
    if r1.startswith("blocked"):
        ctx.fail("blocked:proxy-recv-at-eof", {"proxy": "recv(10) after child wrote 3 bytes and exited"}, r1)
    elif pm is not None and not r1.startswith("ret"):
        ctx.disagree("proxy-recv", "child wrote abc and exited", "returns 3 bytes", r1)
    if r2.startswith("blocked") or r2.endswith(" active"):
        ctx.fail("blocked:proxy-exit-transport", {"proxy": "Transport over a command that exits"}, r2)


META = {
    "claimed": True,
    "level": ("Partial. Proved in Lean for every interleaving of a caller with either shutdown path (so calls made "
              "before, during and after the loss): each of the 12 wait-loop rows read off transport.py/channel.py/"
              "buffered_pipe.py/auth_handler.py returns within two caller steps once the shutdown path has finished "
              "(closed reachable set, decide +kernel, lifted to schedules of any length by induction); `done` is "
              "absorbing; the same for ANY NUMBER of callers blocked on the same object (projection onto the one-caller "
              "system: with notify_all callers do not interact; witness that notify() strands the second sender); "
              "ProxyCommand.recv returns at EOF; witness theorems for the three repaired hangs (old "
              "accept(), old ensure_session(), old ProxyCommand.recv). The rows are tied to the code behaviourally: "
              "13 APIs x 6 loss modes (eof, DISCONNECT, garbage, local close, recv() raising OSError with / without errno) x 2 phases "
              "on real Transports under a watchdog (also with a socket the application had put its own long timeout on, and a "
              "ProxyCommand whose child is reaped the moment it exits), compared with the model's "
              "prediction, every run; plus calls entered from inside the shutdown path after each of its steps and "
              "channel requests raced by the loss. The ORDER of the wake-ups on both shutdown paths and the guard of "
              "Channel._event_pending are regenerated from the AST every run and the rows are built from them "
              "(accept_is_notified_after_inactive, both_paths_close_channels, closing_a_channel_wakes_every_waiter, "
              "no_caller_waits_with_a_teardown_lock_held, open_channels_stay_in_the_map, every_api_has_a_row, "
              "no_unclassified_wait_site; witnesses "
              "accept_notify_before_inactive_hangs_witness, channel_request_old_hangs_when_loss_races_the_call_witness)."),
    "note": ("Not modelled: wake-up latency, OS thread scheduling, sockets and child-process signalling. On the real "
             "code the `during` phase is sampled at the steps of the shutdown that can be wrapped from outside (only the "
             "model covers all interleavings). The table rows abstract each API to its wait shape, classified from the AST "
             "of the function behind it on every run (every X.wait()/time.sleep() site: poll / event / cv loop / single "
             "cv wait, pre-check of `active`, loop tests of `active` and of the closed flag) and validated by the "
             "behavioural correspondence; the wake-ups each shutdown path delivers and their order "
             "come from the AST as well (trusted: the recognisers in pv/lib_lockdisc: wait_shapes, teardown). A call still blocked T "
             "seconds after the loss counts as blocked."),
    "technique": "Lean 4 proof (closed reachable set of a 2-thread interleaving model, decide +kernel + induction) + watchdog correspondence on real transports",
}
