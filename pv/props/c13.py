"""C13 — Blocking calls return once the connection ends (partial).

Model: lean/PV/Model/Blocking.lean (wait-loop shapes + the two shutdown paths, any interleaving);
theorems: lean/PV/Props/C13.lean; driver: lean/Driver/C13.lean.
Correspondence + oracle: every blocking API x loss mode x phase (blocked before the loss / called after it)
on real Transports over an in-memory gated socket pair, under a watchdog; the model's prediction
(returns promptly / stays blocked) is compared with what the real call did.  ProxyCommand.recv at EOF is
driven with real child processes in a subprocess (an old-style spin cannot be interrupted in-process).
"""
import os
import subprocess
import sys
import threading
import time
from concurrent.futures import ThreadPoolExecutor

from pv import lib_net
from pv.core import REPO, exc_site

APIS = ["recv", "recv_timeout", "send", "sendall", "exec_command", "recv_exit_status", "open_session",
        "global_request", "renegotiate_keys", "auth_password", "start_client", "accept", "ensure_session"]
ROW = {"recv": "recv", "recv_timeout": "recv", "send": "send", "sendall": "send",
       "exec_command": "channel_request", "recv_exit_status": "recv_exit_status",
       "open_session": "open_channel", "global_request": "global_request",
       "renegotiate_keys": "renegotiate_keys", "auth_password": "auth_wait_for_response",
       "start_client": "start_client", "accept": "accept", "ensure_session": "ensure_session"}
LOSSES = ["eof", "disconnect", "garbage", "local_close"]
PHASES = ["before", "after"]


def _disconnect_msg():
    from paramiko.message import Message
    from paramiko.common import cMSG_DISCONNECT

    m = Message()
    m.add_byte(cMSG_DISCONNECT)
    m.add_int(11)
    m.add_string("bye")
    m.add_string("en")
    return m


def scenario(api, loss, phase, T, seed):
    """Returns dict(outcome='returned'|'raised:Cls'|'blocked'|'inconclusive', inactive=bool, detail=...)."""
    import random

    from paramiko.transport import ServiceRequestingTransport

    rng = random.Random(seed)
    server_side = api == "accept"
    kw = {}
    if api in ("auth_password", "start_client"):
        kw["auth"] = False
    if api == "ensure_session":
        kw["auth"] = False
        kw["client_cls"] = ServiceRequestingTransport
    tc = ts = None
    try:
        if api == "start_client":
            tc, ts, sc, ss, srv = lib_net.make_pair(start=False)
            ev = threading.Event()
            ss.hold()  # the server never hears the client: the handshake cannot complete
            ts.start_server(ev, srv)
        else:
            tc, ts, sc, ss, srv = lib_net.make_pair(**kw)
        target, tsock, peer = (ts, ss, tc) if server_side else (tc, sc, ts)
        chan = None
        if api in ("recv", "recv_timeout", "send", "sendall", "exec_command", "recv_exit_status"):
            chan = tc.open_session(timeout=15)
            schan = ts.accept(5)  # keep a reference: a collected Channel closes itself
            if schan is None:
                raise RuntimeError("server did not accept the channel")
        if api == "recv_timeout":
            chan.settimeout(120)
        if api in ("send", "sendall"):
            with chan.lock:
                chan.out_window_size = 0  # the peer's window is exhausted: the sender must wait
        if api in ("exec_command", "open_session", "global_request", "renegotiate_keys", "auth_password",
                   "ensure_session"):
            ss.hold()  # the peer never hears the request, so no reply ever comes

        def call():
            if api in ("recv", "recv_timeout"):
                return chan.recv(10)
            if api == "send":
                return chan.send(b"x" * 10)
            if api == "sendall":
                return chan.sendall(b"x" * 10)
            if api == "exec_command":
                return chan.exec_command("x")
            if api == "recv_exit_status":
                return chan.recv_exit_status()
            if api == "open_session":
                return tc.open_session(timeout=120)
            if api == "global_request":
                return tc.global_request("x@y", wait=True)
            if api == "renegotiate_keys":
                return tc.renegotiate_keys()
            if api == "auth_password":
                return tc.auth_password("u", "pw")
            if api == "start_client":
                return tc.start_client()
            if api == "accept":
                return ts.accept(None)
            if api == "ensure_session":
                return tc.auth_none("u")
            raise AssertionError(api)

        def lose():
            if loss == "eof":
                tsock.eof()
            elif loss == "local_close":
                target.close()
            elif loss == "disconnect":
                if api == "start_client":
                    tsock.eof()  # no keys yet: a clean DISCONNECT cannot be framed; same shutdown path
                else:
                    peer._send_message(_disconnect_msg())
            elif loss == "garbage":
                tsock.inject(rng.randbytes(4096))

        res = {}

        def runner():
            try:
                res["value"] = call()
                res["outcome"] = "returned"
            except BaseException as e:  # noqa
                res["outcome"] = "raised:" + type(e).__name__
                res["site"] = exc_site(e)

        th = threading.Thread(target=runner, daemon=True)
        if phase == "before":
            th.start()
            # let the call reach its wait; it cannot complete (nothing answers), so any state is "before"
            lib_net.wait_until(lambda: "outcome" in res, 0.3)
            if "outcome" in res:
                return {"outcome": "inconclusive", "detail": "call finished before the loss: %r" % res,
                        "inactive": None}
            lose()
        else:
            lose()
            gone = lib_net.wait_until(lambda: not target.is_active(), T)
            if not gone:
                if loss == "garbage":
                    return {"outcome": "inconclusive", "inactive": False,
                            "detail": "garbage was absorbed as the start of a long packet"}
                return {"outcome": "still-active", "inactive": False, "detail": "transport stayed active"}
            th.start()
        th.join(T)
        inactive = lib_net.wait_until(lambda: not target.is_active(), 0.5 if not th.is_alive() else 0.05)
        if th.is_alive():
            if loss == "garbage" and target.is_active():
                return {"outcome": "inconclusive", "inactive": False,
                        "detail": "garbage was absorbed as the start of a long packet"}
            return {"outcome": "blocked", "inactive": inactive, "detail": "still blocked after %.1fs" % T}
        return {"outcome": res["outcome"], "inactive": inactive, "detail": res.get("site", "")}
    finally:
        for t in (tc, ts):
            try:
                if t is not None:
                    t.close()
            except Exception:
                pass


MULTI = [("send", 3), ("sendall", 3), ("recv", 2), ("accept", 2), ("recv_exit_status", 2)]


def multi_scenario(api, n, loss, T):
    """n threads blocked in the same call on the same channel/transport; the connection is lost;
    every one of them must return.  Returns (number returned, n, detail)."""
    tc = ts = None
    try:
        tc, ts, sc, ss, srv = lib_net.make_pair()
        server_side = api == "accept"
        target, tsock, peer = (ts, ss, tc) if server_side else (tc, sc, ts)
        chan = None
        if not server_side:
            chan = tc.open_session(timeout=15)
            schan = ts.accept(5)
            if schan is None:
                raise RuntimeError("server did not accept the channel")
        if api in ("send", "sendall"):
            with chan.lock:
                chan.out_window_size = 0
        done = [None] * n

        def runner(k):
            try:
                if api == "send":
                    chan.send(b"x" * 10)
                elif api == "sendall":
                    chan.sendall(b"x" * 10)
                elif api == "recv":
                    chan.recv(10)
                elif api == "recv_exit_status":
                    chan.recv_exit_status()
                elif api == "accept":
                    ts.accept(None)
                done[k] = "returned"
            except BaseException as e:  # noqa
                done[k] = "raised:" + type(e).__name__

        ths = [threading.Thread(target=runner, args=(k,), daemon=True) for k in range(n)]
        for t in ths:
            t.start()
        # all of them must be parked (nothing can complete these calls)
        lib_net.wait_until(lambda: any(d is not None for d in done), 0.3)
        if any(d is not None for d in done):
            return None, n, "a call finished before the loss: %r" % done
        if loss == "eof":
            tsock.eof()
        elif loss == "local_close":
            target.close()
        elif loss == "disconnect":
            peer._send_message(_disconnect_msg())
        end = time.monotonic() + T
        for t in ths:
            t.join(max(0.0, end - time.monotonic()))
        return sum(1 for d in done if d is not None), n, repr(done)
    finally:
        for t in (tc, ts):
            try:
                if t is not None:
                    t.close()
            except Exception:
                pass


def failed_kexinit_scenario(api, T):
    """The KEXINIT of a re-exchange cannot be written (socket dead for writing, reader not yet aware); a call
    made in that window blocks on the send gate; then the transport is closed: the call must return."""
    tc = ts = None
    try:
        tc, ts, sc, ss, srv = lib_net.make_pair()
        chan = tc.open_session(timeout=15)
        schan = ts.accept(5)
        if schan is None:
            raise RuntimeError("server did not accept the channel")
        sc.break_writes()
        try:
            tc.renegotiate_keys()
        except BaseException:  # noqa - the write failure is expected to surface here
            pass
        res = {}

        def runner():
            try:
                if api == "send":
                    chan.send(b"x" * 10)
                elif api == "exec_command":
                    chan.exec_command("x")
                elif api == "global_request":
                    tc.global_request("x@y", wait=True)
                res["r"] = "returned"
            except BaseException as e:  # noqa
                res["r"] = "raised:" + type(e).__name__

        th = threading.Thread(target=runner, daemon=True)
        th.start()
        lib_net.wait_until(lambda: "r" in res, 0.3)
        tc.close()
        th.join(T)
        return ("blocked" if th.is_alive() else res.get("r", "returned")), (not tc.is_active())
    finally:
        for t in (tc, ts):
            try:
                if t is not None:
                    t.close()
            except Exception:
                pass


PROXY_CHILD = r'''
import sys, time, threading, os
sys.path.insert(0, sys.argv[1])
import paramiko
from paramiko.proxy import ProxyCommand
mode = sys.argv[2]
out = {}
if mode == "recv":
    # child writes 3 bytes and exits; recv(10) must come back (short) instead of spinning at EOF
    p = ProxyCommand("sh -c 'printf abc'")
    def f():
        try:
            out["r"] = ("ret", p.recv(10))
        except BaseException as e:
            out["r"] = ("exc", type(e).__name__)
    th = threading.Thread(target=f, daemon=True); th.start(); th.join(float(sys.argv[3]))
    print("RESULT", "blocked" if th.is_alive() else out["r"][0], flush=True)
else:
    # transport over a proxy command that exits at once: start_client must fail promptly, transport inactive
    import logging; logging.getLogger("paramiko").setLevel(logging.CRITICAL); logging.getLogger("paramiko").addHandler(logging.NullHandler())
    p = ProxyCommand("sh -c 'exit 0'")
    t = paramiko.Transport(p)
    def f():
        try:
            t.start_client(timeout=60); out["r"] = ("ret", None)
        except BaseException as e:
            out["r"] = ("exc", type(e).__name__)
    th = threading.Thread(target=f, daemon=True); th.start(); th.join(float(sys.argv[3]))
    print("RESULT", "blocked" if th.is_alive() else out["r"][0], "active" if t.is_active() else "inactive", flush=True)
os._exit(0)
'''


def proxy_case(mode, T):
    try:
        p = subprocess.run([sys.executable, "-W", "ignore", "-c", PROXY_CHILD, REPO, mode, str(T)],
                           capture_output=True, text=True, timeout=T + 30)
    except subprocess.TimeoutExpired:
        return "blocked"
    for ln in p.stdout.splitlines():
        if ln.startswith("RESULT"):
            return ln[7:].strip()
    return "error: " + (p.stderr[-200:] or p.stdout[-200:])


def run(ctx):
    lib_net.quiet_logging()
    ctx.rule = ("every blocking API x loss mode (eof, peer DISCONNECT, garbage bytes, local close) x phase "
                "(blocked before the loss / called after it) on real Transports over a gated in-memory socket, "
                "watchdog T per call; + ProxyCommand child exit (real processes). distinct = (api, loss, phase); "
                "non-trivial = the call was really blocked before the loss or really made after the transport died")
    ctx.assume("wake-up latency of threading primitives and OS process/pipe signalling are outside the model",
               "a call that has not returned T seconds after the loss is classified as blocked (T = 4 s quick, "
               "10 s thorough; poll period in the code is 0.1 s)")
    from pv import lib_lockdisc

    table, lock_sites = lib_lockdisc.lean_table(REPO)
    ctx.write_generated("C13", table)
    ctx.extra["lock_sites"] = len(lock_sites)
    ctx.extra["lock_sites_unsafe"] = [x for x in lock_sites if not x["safe"]]
    ctx.build()
    T = 10.0 if ctx.thorough else 4.0
    reps = 3 if ctx.thorough else 1

    # ---- model side: predictions for both phases, plus schedule sweep consistency
    reqs, keys = [], []
    for api in APIS:
        for lm in ("remote", "local"):
            for phase in PHASES:
                sch = ("c" + "lll") if phase == "before" else ("lll" + "c")
                reqs.append("run %s %s %s" % (ROW[api], lm, sch))
                keys.append((api, lm, phase))
    replies = ctx.driver("C13", reqs)
    predict = {}
    if replies is not None:
        for k, r in zip(keys, replies):
            predict[k] = "prompt=1" in r and "fin=1" in r

    # ---- real side
    jobs = [(a, l, p, rep) for a in APIS for l in LOSSES for p in PHASES for rep in range(reps)]
    ctx.rng.shuffle(jobs)

    def do(job):
        a, l, p, rep = job
        try:
            return job, scenario(a, l, p, T, (ctx.seed, a, l, p, rep).__repr__())
        except Exception as e:  # setup problems are infrastructure, reported as inconclusive
            return job, {"outcome": "inconclusive", "inactive": None, "detail": "setup: %r %s" % (e, exc_site(e))}

    with ThreadPoolExecutor(max_workers=8) as ex:
        results = list(ex.map(do, jobs))
    inconclusive = 0
    for (a, l, p, rep), r in results:
        out = r["outcome"]
        ctx.dist("outcome:" + out.split(":")[0])
        if out == "inconclusive":
            inconclusive += 1
            ctx.dist("inconclusive:%s" % l)
            continue
        if (a, l, p) == ("start_client", "local_close", "after"):
            ctx.dist("skipped:close-before-start-is-a-no-op")
            continue
        ctx.case((a, l, p), True)
        if len(ctx.samples) < 6 and rep == 0:
            ctx.sample({"api": a, "loss": l, "phase": p, "result": r})
        returned = out == "returned" or out.startswith("raised:")
        lm = "local" if l == "local_close" else "remote"
        want = predict.get((a, lm, p))
        if want is not None and want != returned:
            ctx.disagree("returns-after-loss", {"api": a, "loss": l, "phase": p}, "returns" if want else "blocks", out)
        if out == "blocked":
            ctx.fail("blocked:%s:%s:%s" % (a, "local_close" if l == "local_close" else "remote-loss", p),
                     {"api": a, "loss": l, "phase": p}, r["detail"])
        elif out == "still-active":
            ctx.fail("transport-stays-active:%s" % l, {"api": a, "loss": l, "phase": p}, r["detail"])
        elif r.get("inactive") is False and l != "garbage":
            ctx.fail("transport-stays-active:%s" % l, {"api": a, "loss": l, "phase": p}, "call returned but is_active()")
    if inconclusive > len(jobs) // 3:
        from pv.core import InfraError

        raise InfraError("too many inconclusive scenarios: %d of %d" % (inconclusive, len(jobs)))

    # ---- several callers blocked on the same object (notify_all must reach every one)
    mreqs, mkeys = [], []
    for api, n in MULTI:
        for lm in ("remote", "local"):
            sch = ",".join("c%d" % i for i in range(n)) + "," + ",".join(["l"] * 3)
            mreqs.append("mrun %s %s all %d %s" % (ROW[api], lm, n, sch))
            mkeys.append((api, n, lm))
    mrep = ctx.driver("C13", mreqs)
    mpred = {}
    if mrep is not None:
        for k, r in zip(mkeys, mrep):
            mpred[k] = ("fin=1" in r) and r.endswith("prompt=" + "1" * k[1])
    mjobs = [(a, n, l) for a, n in MULTI for l in ("eof", "disconnect", "local_close")]

    def mdo(job):
        a, n, l = job
        try:
            return job, multi_scenario(a, n, l, T)
        except Exception as e:
            return job, (None, n, "setup: %r %s" % (e, exc_site(e)))

    with ThreadPoolExecutor(max_workers=6) as ex:
        mres = list(ex.map(mdo, mjobs))
    for (a, n, l), (got, n_, detail) in mres:
        if got is None:
            ctx.dist("multi:inconclusive")
            continue
        ctx.case(("multi", a, n, l), True)
        ctx.dist("multi:%s" % ("all-returned" if got == n else "stranded"))
        lm = "local" if l == "local_close" else "remote"
        want = mpred.get((a, n, lm))
        if want is not None and want != (got == n):
            ctx.disagree("all-callers-return", {"api": a, "callers": n, "loss": l},
                         "all return" if want else "some stranded", "%d of %d returned" % (got, n))
        if got != n:
            ctx.fail("blocked:%s-x%d:%s" % (a, n, "local_close" if l == "local_close" else "remote-loss"),
                     {"api": a, "callers": n, "loss": l}, "%d of %d callers returned: %s" % (got, n, detail))
    if len(ctx.samples) < 8:
        ctx.sample({"multi_caller_cases": len(mjobs)})

    # ---- a re-exchange whose KEXINIT cannot be written, then calls through the send gate, then close()
    for api in ("send", "exec_command", "global_request"):
        try:
            out, inactive = failed_kexinit_scenario(api, T)
        except Exception as e:
            ctx.dist("failed-kexinit:inconclusive")
            continue
        ctx.case(("failed-kexinit", api), True)
        ctx.dist("failed-kexinit:" + out.split(":")[0])
        if out == "blocked":
            ctx.fail("blocked:%s:after-failed-kexinit-write" % api,
                     {"api": api, "scenario": "socket dead for writing; renegotiate_keys() fails; call; close()"},
                     "still blocked %.1fs after Transport.close()" % T)

    # ---- ProxyCommand at EOF (model: proxyRecv fixed) vs real child processes
    pm = ctx.driver("C13", ["proxy fixed 10 0 3 4", "proxy fixed 10 0 - 2"])
    r1 = proxy_case("recv", T)
    r2 = proxy_case("transport", T)
    ctx.case(("proxy", "recv"), True)
    ctx.case(("proxy", "transport"), True)
    ctx.sample({"proxy_recv": r1, "proxy_transport": r2})
    if pm is not None and (pm[0] != "some 3" or pm[1] != "some 0"):
        ctx.disagree("proxy-model", "eof after 3 bytes / immediate eof", pm, ["some 3", "some 0"])
    if r1.startswith("blocked"):
        ctx.fail("blocked:proxy-recv-at-eof", {"proxy": "recv(10) after child wrote 3 bytes and exited"}, r1)
    elif pm is not None and not r1.startswith("ret"):
        ctx.disagree("proxy-recv", "child wrote abc and exited", "returns 3 bytes", r1)
    if r2.startswith("blocked") or r2.endswith(" active"):
        ctx.fail("blocked:proxy-exit-transport", {"proxy": "Transport over a command that exits"}, r2)


META = {
    "claimed": True,
    "level": ("Partial. Proved in Lean for every interleaving of a caller with either shutdown path (so calls made "
              "before, during and after the loss): each of the 12 wait-loop rows read off transport.py/channel.py/"
              "buffered_pipe.py/auth_handler.py returns within two caller steps once the shutdown path has finished "
              "(closed reachable set, decide +kernel, lifted to schedules of any length by induction); `done` is "
              "absorbing; the same for ANY NUMBER of callers blocked on the same object (projection onto the one-caller "
              "system: with notify_all callers do not interact; witness that notify() strands the second sender); "
              "ProxyCommand.recv returns at EOF; witness theorems for the three repaired hangs (old "
              "accept(), old ensure_session(), old ProxyCommand.recv). The rows are tied to the code behaviourally: "
              "13 APIs x 4 loss modes x 2 phases on real Transports under a watchdog, compared with the model's "
              "prediction, every run."),
    "note": ("Not modelled: wake-up latency, OS thread scheduling, sockets and child-process signalling, the `during` "
             "phase on the real code (only the model covers all interleavings). The table rows abstract each API to "
             "its wait shape and the wake-ups each shutdown path delivers; that abstraction is validated only by the "
             "behavioural correspondence. A call still blocked T seconds after the loss counts as blocked."),
    "technique": "Lean 4 proof (closed reachable set of a 2-thread interleaving model, decide +kernel + induction) + watchdog correspondence on real transports",
}
