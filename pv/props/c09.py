"""C09 — Strict key exchange stops handshake sequence-number manipulation (Terrapin).

Model: lean/PV/Model/RunLoop.lean (+ RunLoopLemmas.lean); theorems lean/PV/Props/C09.lean; driver
lean/Driver/C09.lean.  Correspondence: two real transports joined by a plaintext-phase man in the middle that
injects IGNORE / DEBUG / UNIMPLEMENTED / an unknown type / a duplicate of the packet, or deletes a packet, at
every position of the initial handshake in both directions, with strict mode on/off per side; what the peer
that received the edited packet read and wrote is replayed through the model and compared (outcome class,
flags, sequence counters, messages sent).  Oracle (model-independent): with strict mode on both sides no
edited handshake yields an established session at the peer that saw the edit, the other peer does not stay up
either; in every clean or tolerated handshake the first packet after NEWKEYS carries sequence number 0 in both
directions exactly when strict mode is agreed (and the running counter otherwise).
"""
import threading

from pv import lib_runloop as L
from pv.core import InfraError, exc_site

KEX = {  # kex name -> engine script kind of the model
    "curve25519-sha256@libssh.org": "ecdh",
    "ecdh-sha2-nistp256": "ecdh",
    "diffie-hellman-group14-sha256": "dh",
    "diffie-hellman-group16-sha512": "dh",
    "diffie-hellman-group-exchange-sha256": "gex",
}
INJECT = {"IGNORE": (2, b"\0\0\0\0"), "DEBUG": (4, b"\0" + b"\0\0\0\0" * 2), "UNIMPLEMENTED": (3, b"\0\0\0\0"),
          "UNKNOWN": (200, b"")}


KEX_TYPES = {20, 21} | set(range(30, 50))
# types with a handler somewhere in paramiko (transport, auth, channel tables) and the transport-layer ones: injected
# at every position; the rest at one random position per direction (thorough: everywhere)
IMPORTANT = {1, 2, 3, 4, 5, 6, 7, 50, 51, 52, 53, 60, 61, 63, 66, 80, 81, 82} | set(range(90, 101))


# well-framed plaintext packets with an EMPTY payload: packet_length = 1 + padding, padding_length, padding
SHAPES = {
    "empty-pad11": bytes([0, 0, 0, 12, 11]) + b"\0" * 11,
    "empty-pad3": bytes([0, 0, 0, 4, 3]) + b"\0" * 3,
    "empty-pad251": bytes([0, 0, 0, 252, 251]) + b"\0" * 251,
}


def type_payload(rng, t):
    if t == 80:
        return L.msg(80, "pv@verif", True).asbytes()[1:]
    if t == 90:
        return L.msg(90, "session", 0, 32768, 32768).asbytes()[1:]
    if t == 1:
        return L.msg(1, 11, "bye", "").asbytes()[1:]
    if t == 4:
        return L.msg(4, True, "dbg", "").asbytes()[1:]
    return rng.randbytes(rng.choice([0, 0, 4, 8, rng.randrange(0, 24)]))


def handshake(ctx, kex, strict_c, strict_s, edit, short_timeout=False, follows=None, preset=None):
    """one handshake through the relay; returns per-peer observations.  follows = (which side lies, "wrong"|"right"):
    that side's KEXINIT claims first_kex_packet_follows, with a first-listed kex method that is / is not the one that
    gets negotiated (it offers one method more than the other side)."""
    from paramiko import Transport
    from tests._loop import LoopSocket

    c1, c2, s1, s2 = LoopSocket(), LoopSocket(), LoopSocket(), LoopSocket()
    c1.link(c2)
    s1.link(s2)
    for x in (c2, s1):
        x.settimeout(0.05)
    disabled = {"kex": [k for k in Transport._preferred_kex if k != kex]}
    dis_c = dis_s = disabled
    other_kex = "diffie-hellman-group14-sha256"
    if follows:
        wide = {"kex": [k for k in Transport._preferred_kex if k not in (kex, other_kex)]}
        dis_c, dis_s = (wide, disabled) if follows[0] == "client" else (disabled, wide)
    tc = Transport(c1, disabled_algorithms=dis_c, strict_kex=strict_c)
    ts = Transport(s2, disabled_algorithms=dis_s, strict_kex=strict_s)
    if follows:
        L.rewrite_kexinit(tc if follows[0] == "client" else ts, follows=True,
                          kex_first=other_kex if follows[1] == "wrong" else kex)
    if KEX[kex] == "gex":
        from paramiko.primes import ModulusPack

        ts._modulus_pack = L.modulus_pack()
    ts.add_server_key(L.host_key())
    wait = 1.5 if short_timeout else 60
    if preset:
        # the victim's inbound counter as it stands after `value` earlier packets of this (initial) exchange
        (tc if preset[0] == "client" else ts).packetizer._Packetizer__sequence_number_in = preset[1]
    taps = {"client": L.Tap(tc), "server": L.Tap(ts)}
    r1, r2 = L.Relay(c2, s1, "c2s", edit), L.Relay(s1, c2, "s2c", edit)
    r1.start()
    r2.start()
    evs = threading.Event()
    ts.start_server(evs, L.make_server_class()())
    ok = True
    client_exc = None
    try:
        tc.start_client(timeout=wait)
    except Exception as e:  # start_client consumes saved_exception: keep it
        ok = False
        client_exc = e
    if not evs.wait(wait):
        ok = False
    if ok and tc.is_active() and ts.is_active() and tc.initial_kex_done and ts.initial_kex_done:
        # round trip in both directions: everything sent so far has been read and processed
        tc.completion_event = threading.Event()
        try:
            tc._send_user_message(L.msg(80, "pv-ping", True))
        except Exception as e:
            client_exc = client_exc or e
        if not tc.completion_event.wait(1.0 if short_timeout else 60) and not short_timeout:
            raise InfraError("barrier after an established handshake timed out")
    elif not short_timeout:
        for t in (tc, ts):
            t.join(20)
    else:
        # a deleted packet leaves a peer waiting for ever (the handshake timer is cancelled after the first
        # dispatched packet): give the rest of the exchange time to drain, then look at what there is.  A wait
        # that is too short can only hide an established session, never invent one.
        for t in (tc, ts):
            t.join(0.5)
    obs = {}
    for name, t in (("client", tc), ("server", ts)):
        alive = t.is_alive() and t.is_active()
        obs[name] = {
            "established": bool(alive and t.initial_kex_done),
            "active": 1 if alive else 0,
            "err": "-" if alive else L.exc_class(t.saved_exception) if t.saved_exception is not None
            else L.exc_class(client_exc) if (name == "client" and client_exc is not None
                                             and "imeout" not in str(client_exc)
                                             and "Negotiation failed" not in str(client_exc)) else "ended",
            "site": exc_site(L.root_exc(t.saved_exception)) if t.saved_exception is not None
            else exc_site(L.root_exc(client_exc)) if (name == "client" and client_exc is not None) else "-",
            "done": 1 if t.initial_kex_done else 0,
            "agreed": 1 if t.agreed_on_strict_kex else 0,
            "seq_in": L.seq_in(t), "seq_out": L.seq_out(t),
            "rx": list(taps[name].rx), "tx": list(taps[name].tx),
        }
    for t in (tc, ts):
        t.close()
    for r in (r1, r2):
        r.stop = True
    for t in (tc, ts, r1, r2):
        t.join(10)
    return obs


def rekey_session(role, peer_initial_strict, peer_rekey_marker, initiators, marker_pos=None, kex_names=None,
                  cipher=None, mac=None):
    """initial handshake plus re-exchanges against a peer tool that follows the kex-strict specification whatever
    the tree under test does (the marker only counts in the first KEXINIT) and that sends or omits the marker in
    its later KEXINITs as told"""
    from paramiko import Transport
    from tests._loop import LoopSocket

    kex = "curve25519-sha256@libssh.org"
    a, b = LoopSocket(), LoopSocket()
    a.link(b)
    keep = kex_names or [kex]
    disabled = {"kex": [k for k in Transport._preferred_kex if k not in keep]}
    if cipher:
        disabled["ciphers"] = [c for c in Transport._preferred_ciphers if c != cipher]
    if mac:
        disabled["macs"] = [m for m in Transport._preferred_macs if m != mac]
    sub_strict, = (True,)
    tc = Transport(a, disabled_algorithms=disabled, strict_kex=(sub_strict if role == "client" else peer_initial_strict))
    ts = Transport(b, disabled_algorithms=disabled, strict_kex=(sub_strict if role == "server" else peer_initial_strict))
    ts.add_server_key(L.host_key())
    sub, peer = (tc, ts) if role == "client" else (ts, tc)
    orig_parse = peer._parse_kex_init

    def conformant_parse(m):
        before, later = peer.agreed_on_strict_kex, peer.initial_kex_done
        orig_parse(m)
        if later:
            peer.agreed_on_strict_kex = before

    peer._parse_kex_init = conformant_parse
    if marker_pos is not None:
        L.reorder_strict_marker(peer, marker_pos)      # the marker somewhere else than at the end of the list
    tap = L.Tap(sub)
    evs = threading.Event()
    ts.start_server(evs, L.make_server_class()())
    hs_exc = None
    try:
        tc.start_client(timeout=60)
        if not evs.wait(60):
            raise InfraError("server handshake did not finish")
    except InfraError:
        raise
    except Exception as e:
        hs_exc = e
    if hs_exc is not None:
        for t in (tc, ts):
            t.join(10)
        out = {"role": role, "marker_pos": marker_pos, "kex_list_length": len(keep),
               "peer_initial_strict": peer_initial_strict, "peer_rekey_marker": peer_rekey_marker,
               "initiators": list(initiators), "flags": [1 if sub.agreed_on_strict_kex else 0], "rekeys_ok": [],
               "handshake_failed": repr(L.root_exc(sub.saved_exception) if sub.saved_exception is not None else hs_exc),
               "peer_flag": 1 if peer.agreed_on_strict_kex else 0,
               "active": 0, "err": "ended", "site": "-", "done": 1 if sub.initial_kex_done else 0,
               "agreed": 1 if sub.agreed_on_strict_kex else 0, "seq_in": L.seq_in(sub), "seq_out": L.seq_out(sub),
               "rx": list(tap.rx), "tx": list(tap.tx)}
        for t in (tc, ts):
            t.close()
        return out
    out = {"role": role, "marker_pos": marker_pos, "kex_list_length": len(keep),
           "cipher": sub.remote_cipher, "mac": sub.remote_mac,
           "peer_initial_strict": peer_initial_strict, "peer_rekey_marker": peer_rekey_marker,
           "initiators": list(initiators), "flags": [1 if sub.agreed_on_strict_kex else 0], "rekeys_ok": []}
    peer.advertise_strict_kex = peer_rekey_marker
    def both_settled():
        # renegotiate_keys() returns when the *caller* has the peer's NEWKEYS; the other side may still be about to
        # process its NEWKEYS (which clears local_kex_init) — starting the next exchange before that is a different
        # experiment (a KEXINIT in the middle of an exchange)
        return all((not t.is_active()) or (t.local_kex_init is None and t.clear_to_send.is_set() and not t.in_kex)
                   for t in (tc, ts))

    for who in initiators:
        t = sub if who == "sub" else peer
        try:
            L.wait_until(both_settled, 60, "both sides to finish the exchange")
            t.renegotiate_keys()
            out["rekeys_ok"].append(True)
        except Exception:
            out["rekeys_ok"].append(False)
            break
        out["flags"].append(1 if sub.agreed_on_strict_kex else 0)
    if all(out["rekeys_ok"]):
        L.wait_until(both_settled, 60, "both sides to finish the last exchange")
    if not all(out["rekeys_ok"]):
        for t in (tc, ts):
            t.join(20)
    alive = sub.is_alive() and sub.is_active()
    out.update({
        "active": 1 if alive else 0,
        "err": "-" if alive else ("ended" if sub.saved_exception is None else L.exc_class(sub.saved_exception)),
        "site": exc_site(sub.saved_exception) if sub.saved_exception is not None else "-",
        "done": 1 if sub.initial_kex_done else 0, "agreed": 1 if sub.agreed_on_strict_kex else 0,
        "seq_in": L.seq_in(sub), "seq_out": L.seq_out(sub), "rx": list(tap.rx), "tx": list(tap.tx)})
    for t in (tc, ts):
        t.close()
    for t in (tc, ts):
        t.join(10)
    return out


def rekey_model_requests(o):
    reqs = ["init %d 0 1 1" % (1 if o["role"] == "server" else 0)]
    k = -1       # index of the exchange a received KEXINIT belongs to (0 = initial)
    for ptype, _seq, names in o["rx"]:
        if ptype == 20:
            k += 1
            if k >= 1 and k - 1 < len(o["initiators"]) and o["initiators"][k - 1] == "sub":
                reqs.append("rekey")            # our KEXINIT went out first (renegotiate_keys on the subject)
            nm = ",".join(n.encode().hex() for n in names) or "-"
            reqs.append("recv 20 %s ecdh 1 0 -" % nm)
        else:
            reqs.append("recv %d - - 1 0 -" % ptype)
    attempted = len(o["rekeys_ok"])
    if attempted > k and k < len(o["initiators"]) and o["initiators"][k] == "sub":
        reqs.append("rekey")                    # our KEXINIT went out, the peer's never arrived
    return reqs


def model_requests(role, strict, kexkind, o):
    reqs = ["init %d 0 %d 1" % (1 if role == "server" else 0, 1 if strict else 0)]
    for ptype, _seq, names in o["rx"]:
        if ptype == 20:
            if names == "malformed":
                reqs.append("recv 20 - malformed 1 0 -")
            else:
                nm = ",".join(n.encode().hex() for n in names) or "-"
                reqs.append("recv 20 %s %s 1 0 -" % (nm, kexkind))
        elif ptype == 80 and role == "server":
            reqs.append("recv 80 - - 1 0 -")  # unauthenticated: `_ensure_authed` answers itself
        else:
            reqs.append("recv %d - - 1 0 -" % ptype)
    return reqs


def run(ctx):
    L.quiet_logging()
    L.stub_gss()
    rng = ctx.rng
    ctx.rule = ("handshakes through a plaintext man in the middle: injection of IGNORE/DEBUG/UNIMPLEMENTED/unknown/"
                "duplicate before packet #i, or deletion of packet #i, for every i of the initial handshake, both "
                "directions, strict on/off per side, per kex method; distinct = (kex, strict pair, edit, direction, "
"position); every non-kex message type 1..255 injected into a strict exchange in both directions (types with "
                "a handler anywhere: every position; others: one random position), the victim's plaintext reactions "
                "hidden from the other side; also well-framed packets with an empty payload (three paddings) at every "
                "position; non-trivial = the edit changes what a peer receives before NEWKEYS. Plus sessions with three "
                "re-exchanges (either side initiating) against a specification-conformant peer whose later KEXINITs "
                "omit, repeat or newly add the kex-strict marker, or list it at any position of kex lists of "
                "several lengths")
    ctx.trust("pv/lib_runloop.py Relay/Tap (plaintext packet parser, packetizer taps)",
              "kex engine contents (signatures, DH values) are unmodified in these runs: engineOk = true")
    L.write_generated(ctx)
    ctx.build(extra_modules=["Driver.C09"])

    kexes = ["curve25519-sha256@libssh.org", "diffie-hellman-group14-sha256"]
    if ctx.thorough:
        kexes += ["ecdh-sha2-nistp256", "diffie-hellman-group16-sha512", "diffie-hellman-group-exchange-sha256"]
    strict_pairs = [(True, True), (True, False), (False, True), (False, False)]
    jobs = []   # (kex, sc, ss, edit description)
    for kex in kexes:
        n = 4 if KEX[kex] == "gex" else 3
        for sc, ss in strict_pairs:
            jobs.append((kex, sc, ss, None))
            full = (sc and ss) or ctx.thorough
            for d in ("c2s", "s2c"):
                for pos in range(n):
                    names = list(INJECT) + ["DUPLICATE"]
                    if not full:
                        names = [rng.choice(names)]
                    for nm in names:
                        jobs.append((kex, sc, ss, ("inject", nm, d, pos)))
                    if (sc == ss and (kex == kexes[0] or ctx.thorough)):
                        jobs.append((kex, sc, ss, ("delete", "-", d, pos)))
    # the inbound counter just before the 32-bit wrap, then k stray IGNORE/DEBUG packets in front of the peer's KEXINIT:
    # the roll-over guard has to end the session (controls: counter 0, and counter far from the wrap)
    for d, vic in (("c2s", "server"), ("s2c", "client")):
        for k, value in ((1, 2 ** 32 - 1), (2, 2 ** 32 - 2), (3, 2 ** 32 - 3), (1, 0), (1, 2 ** 32 - 2), (2, 2 ** 31)):
            nm = rng.choice(["IGNORE", "DEBUG"])
            jobs.append((kexes[0], True, True, ("inject", "WRAP:%d:%s" % (k, nm), d, 0), None, (vic, value)))
    # a peer whose KEXINIT claims "first kex packet follows" (right or wrong guess), and one stray message right behind
    # that KEXINIT: it is judged like any other
    for liar, d in (("client", "c2s"), ("server", "s2c")):
        for guess in ("wrong", "right"):
            for nm in ("IGNORE", "DEBUG", "UNIMPLEMENTED", "UNKNOWN", "TYPE:80"):
                ed = ("inject", nm, d, 1) if not nm.startswith("TYPE:") else \
                    ("inject", nm, d, 1, type_payload(rng, 80).hex())
                jobs.append((kexes[0], True, True, ed, (liar, guess)))
    # packets that have no type at all: empty payload (minimal, short and long padding) — well framed, so they advance
    # the sequence number, but there is nothing to dispatch
    for d in ("c2s", "s2c"):
        for shape in SHAPES:
            for pos in (0, 1, 2):
                jobs.append((kexes[0], True, True, ("inject", "SHAPE:" + shape, d, pos)))
    # every message type that is not a kex message, injected into a strict initial exchange, both directions; the man
    # in the middle also swallows whatever the victim answers in plaintext, so a reaction cannot give the edit away
    kex0 = kexes[0]
    for d in ("c2s", "s2c"):
        for t in range(1, 256):
            if t in KEX_TYPES:
                continue
            positions = [0, 1, 2] if (t in IMPORTANT or ctx.thorough) else [rng.randrange(3)]
            for pos in positions:
                jobs.append((kex0, True, True, ("inject", "TYPE:%d" % t, d, pos, type_payload(rng, t).hex())))

    results = [None] * len(jobs)
    lock = threading.Lock()
    nxt = [0]
    errors = []

    def worker():
        while True:
            with lock:
                i = nxt[0]
                nxt[0] += 1
            if i >= len(jobs):
                return
            kex, sc, ss, ed = jobs[i][:4]
            fol = jobs[i][4] if len(jobs[i]) > 4 else None
            pre = jobs[i][5] if len(jobs[i]) > 5 else None

            def edit(direction, idx, t, pkt, ed=ed):
                if ed is not None and ed[1].startswith(("TYPE:", "SHAPE:", "WRAP:")) and direction != ed[2] \
                        and t not in KEX_TYPES:
                    return []            # the victim's plaintext reaction never reaches the other side
                if ed is None or direction != ed[2] or idx != ed[3]:
                    return [pkt]
                if ed[0] == "delete":
                    return []
                if ed[1] == "DUPLICATE":
                    return [pkt, pkt]
                if ed[1].startswith("TYPE:"):
                    return [L.plain_packet(int(ed[1][5:]), bytes.fromhex(ed[4])), pkt]
                if ed[1].startswith("SHAPE:"):
                    return [SHAPES[ed[1][6:]], pkt]
                if ed[1].startswith("WRAP:"):
                    _w, k, nm = ed[1].split(":")
                    t2, pl = INJECT[nm]
                    return [L.plain_packet(t2, pl)] * int(k) + [pkt]
                t2, pl = INJECT[ed[1]]
                return [L.plain_packet(t2, pl), pkt]

            try:
                # edits that put plaintext into the encrypted stream (or drop NEWKEYS) leave a reader waiting for a
                # garbage length: bounded waits there
                risky = bool(ed and (ed[0] == "delete" or ed[1] == "DUPLICATE"))
                results[i] = handshake(ctx, kex, sc, ss, edit, short_timeout=risky, follows=fol, preset=pre)
            except Exception as e:  # noqa
                errors.append((jobs[i], e))

    threads = [threading.Thread(target=worker, daemon=True) for _ in range(4)]
    for t in threads:
        t.start()
    for t in threads:
        t.join(600)
    if any(t.is_alive() for t in threads):
        raise InfraError("handshake workers did not finish")
    for job, e in errors:
        if isinstance(e, InfraError):
            raise e
        ctx.broken.append({"kind": "harness-exception", "what": repr(job), "detail": repr(e)[:300]})

    reqs, index = [], []
    for i, (job, res) in enumerate(zip(jobs, results)):
        if res is None:
            continue
        kex, sc, ss, ed = job[:4]
        victim = None if ed is None else ("server" if ed[2] == "c2s" else "client")
        case = {"kex": kex, "strict_client": sc, "strict_server": ss, "edit": ed}
        if len(job) > 4 and job[4]:
            case["first_kex_packet_follows"] = {"claimed_by": job[4][0], "guess": job[4][1]}
            ctx.dist("kex-follows:%s-guess" % job[4][1])
        if len(job) > 5 and job[5]:
            case["inbound_counter_preset"] = {"side": job[5][0], "value": job[5][1]}
            ctx.dist("counter-preset:2^32-%d" % (2 ** 32 - job[5][1]) if job[5][1] > 2 ** 31 else "counter-preset:%d" % job[5][1])
        ctx.case(tuple(job), ed is not None)
        ctx.dist("edit:" + ("none" if ed is None else ed[0] + ":" + ("TYPE" if ed[1].startswith("TYPE:") else "WRAP" if ed[1].startswith("WRAP:") else ed[1])))
        ctx.dist("strict:%d%d" % (sc, ss))
        if i % 37 == 0:
            ctx.sample({"case": case, "client_rx": [r[:2] for r in res["client"]["rx"]],
                        "server_rx": [r[:2] for r in res["server"]["rx"]],
                        "client": {k: res["client"][k] for k in ("established", "err", "agreed", "seq_in", "seq_out")}})
        # ---------------- oracle (model-independent)
        both_strict = sc and ss
        for name in ("client", "server"):
            o = res[name]
            # sequence numbers around NEWKEYS
            for which, trace in (("in", o["rx"]), ("out", o["tx"])):
                for j, rec in enumerate(trace[:-1]):
                    if rec[0] == 21:
                        nxt_seq = trace[j + 1][1]
                        want0 = bool(o["agreed"])
                        if want0 != (nxt_seq == 0):
                            ctx.fail("seqno-after-newkeys:%s:%s" % (which, "not-reset" if want0 else "reset-without-strict"),
                                     dict(case, peer=name), "packet after NEWKEYS has seqno %d, strict agreed=%s"
                                     % (nxt_seq, o["agreed"]))
            if ed is None and not o["established"]:
                ctx.fail("clean-handshake-fails", dict(case, peer=name), repr(o["err"]))
            if ed is None and bool(o["agreed"]) != both_strict:
                ctx.fail("strict-agreement-wrong", dict(case, peer=name), "agreed=%s" % o["agreed"])
        npk = 4 if KEX[kex] == "gex" else 3
        # a duplicate of NEWKEYS arrives after the key switch: the handshake the victim saw is unedited and the
        # stray plaintext is the encrypted phase's problem (C02)
        post_handshake = ed is not None and ed[1] == "DUPLICATE" and ed[3] == npk - 1
        if ed is not None and both_strict and not post_handshake:
            v = res[victim]
            if v["established"]:
                ctx.fail("strict-kex-accepts-edited-handshake:%s:%s" % (ed[0], ed[1]), dict(case, peer=victim),
                         "victim established a session; rx=%r" % ([r[:2] for r in v["rx"]],))
            other = res["client" if victim == "server" else "server"]
            if ed[0] == "inject" and ed[1] != "DUPLICATE" and other["established"] and other["active"]:
                # (after a deletion the other peer may sit in a half-open session until it notices the loss)
                ctx.fail("strict-kex-peer-stays-up", dict(case, peer="other"), "the other peer still has a session")
        # ---------------- correspondence: replay each informative peer through the model
        peers = ["client", "server"] if ed is None else [victim]
        for name in peers:
            o = res[name]
            strict = sc if name == "client" else ss
            rq = model_requests(name, strict, KEX[kex], o)
            pre = job[5] if len(job) > 5 else None
            if pre and pre[0] == name:
                rq.insert(1, "seqin %d" % pre[1])
                if o["err"] == "rollover" and ed[1].startswith("WRAP:"):
                    # the packet whose number would have been 2^32 was never handed over (read_message raised)
                    rq.append("recv %d - - 1 0 -" % INJECT[ed[1].split(":")[2]][0]
                              if len(o["rx"]) < int(ed[1].split(":")[1]) else "recv 20 - malformed 1 0 -")
            index.append((len(reqs), len(rq), case, name, o))
            reqs += rq

    # ---------------- re-exchanges: strict mode is decided by the initial exchange, counters restart every time
    rk_jobs = [(role, pis, prm, ini, None, None) for role in ("client", "server")
               for pis, prm in ((True, False), (True, True), (False, False), (False, True))
               for ini in (("sub", "peer", "peer"), ("peer", "sub", "peer"))]
    # the strict marker at every position of the peer's kex list, lists of several lengths (the other pseudo-name,
    # ext-info-c of a client, stays where paramiko puts it)
    from paramiko import Transport as _T
    gex = "diffie-hellman-group-exchange-sha"
    all_kex = [k for k in _T._preferred_kex if not k.startswith(gex)]
    for role in ("client", "server"):
        for names in ([all_kex[0]], all_kex[:3], all_kex):
            positions = list(range(len(names) + 2)) if (len(names) <= 3 or ctx.thorough) else \
                [0, 1, len(names) // 2, len(names) - 1, len(names), len(names) + 1]
            for pos in positions:
                rk_jobs.append((role, True, True, ("peer",), pos, names))
    # the negotiated cipher family (ctr, cbc, gcm = AEAD) and an encrypt-then-MAC digest: counters after every NEWKEYS
    for role in ("client", "server"):
        for ciph, mac in (("aes128-gcm@openssh.com", None), ("aes256-gcm@openssh.com", None), ("aes128-cbc", None),
                          ("aes256-ctr", "hmac-sha2-256-etm@openssh.com")):
            rk_jobs.append((role, True, True, ("peer", "sub"), None, None, ciph, mac))
        rk_jobs.append((role, False, False, ("peer",), None, None, "aes128-gcm@openssh.com", None))
    for job in rk_jobs:
        role, pis, prm, ini, mpos, names = job[:6]
        ciph, mac = (job[6], job[7]) if len(job) > 6 else (None, None)
        o = rekey_session(role, pis, prm, ini, mpos, names, ciph, mac)
        if ciph:
            ctx.dist("rekey-cipher:%s%s" % (ciph, "+" + mac if mac else ""))
            if o.get("cipher") != ciph and not o.get("handshake_failed"):
                raise InfraError("cipher %s not negotiated (%s)" % (ciph, o.get("cipher")))
        case = {k: o.get(k) for k in ("role", "peer_initial_strict", "peer_rekey_marker", "initiators", "flags",
                                      "rekeys_ok", "err", "marker_pos", "kex_list_length", "cipher", "mac")}
        if mpos is not None:
            ctx.dist("marker-position:%d-of-%d" % (mpos, o["kex_list_length"]))
        ctx.case(("rekey", role, pis, prm, ini, mpos, len(names or [1]), ciph, mac), True)
        ctx.dist("rekey:initial-%s:marker-%s" % ("strict" if pis else "plain", "sent" if prm else "omitted"))
        if o.get("handshake_failed"):
            # both ends offered strict mode and still the session did not come up (or died at the first packets):
            # they disagree about the mode
            ctx.fail("strict-agreement-wrong:marker-position", dict(case, peer_flag=o.get("peer_flag")),
                     "subject agreed=%d, peer agreed=%s, then: %s" % (o["flags"][0], o.get("peer_flag"), o["handshake_failed"]))
            continue
        late = (not pis) and prm     # a marker that first appears in a re-exchange: outside the property (peers must
        #                              not do it, receivers should ignore it); compared with the model only
        if not late:
            s0 = o["flags"][0]
            if s0 != (1 if pis else 0):
                ctx.fail("strict-agreement-wrong", case, "after the initial exchange: %d" % s0)
            if any(f != s0 for f in o["flags"]):
                ctx.fail("strict-mode-changed-by-rekey:marker-%s" % ("sent" if prm else "omitted"), case,
                         "agreed_on_strict_kex over the session: %r" % (o["flags"],))
            if not all(o["rekeys_ok"]) or len(o["rekeys_ok"]) != len(ini) or not o["active"]:
                ctx.fail("session-lost-in-rekey:marker-%s" % ("sent" if prm else "omitted"), case,
                         "re-exchanges %r, subject %s (%s)" % (o["rekeys_ok"], o["err"], o["site"]))
            for which, trace in (("in", o["rx"]), ("out", o["tx"])):
                for j, rec in enumerate(trace[:-1]):
                    if rec[0] == 21 and (trace[j + 1][1] == 0) != bool(s0):
                        ctx.fail("seqno-after-newkeys:%s:%s" % (which, "not-reset" if s0 else "reset-without-strict"),
                                 case, "packet after NEWKEYS #%d has seqno %d" % (j, trace[j + 1][1]))
        else:
            ctx.dist("late-marker:%s" % ("mode-flipped" if len(set(o["flags"])) > 1 else "mode-kept"))
        rq = rekey_model_requests(o)
        index.append((len(reqs), len(rq), dict(case, what="rekey-session"), role, o))
        reqs += rq

    replies = ctx.driver("C09", reqs)
    if replies is not None:
        for start, n, case, name, o in index:
            rep = replies[start:start + n]
            last = rep[-1].split(" ")
            sent = []
            for r in rep:
                f = r.split(" ")[7]
                if f != "-":
                    sent += [tuple(int(x) for x in m.split(":")) for m in f.split(",")]
            m_err = last[1]
            model = {"active": int(last[0]), "err": "ended" if m_err in ("disconnect", "unknown-channel") else m_err,
                     "done": int(last[2]), "agreed": int(last[3]), "seq_in": int(last[4]), "seq_out": int(last[5]),
                     "tx": [list(x) for x in sent]}
            impl = {"active": o["active"], "err": o["err"], "done": o["done"], "agreed": o["agreed"],
                    "seq_in": o["seq_in"], "seq_out": o["seq_out"], "tx": [list(x) for x in o["tx"]]}
            if name == "client" and impl["tx"] and impl["tx"][-1][0] == 80:
                # the harness's own barrier message (sent from the user thread, not by the loop)
                impl["tx"].pop()
                impl["seq_out"] -= 1
            if impl["err"] == "internal" and "@packet.py:read_message" in o["site"] and model["err"] == "-":
                # a packet without a type byte: read_message itself fails (IndexError), the loop never sees a packet
                ctx.dist("ended-by-packet-layer:no-type-byte")
                impl["err"], impl["active"] = "-", 1
                impl["seq_in"] -= 1          # it had been counted before the type byte was looked for
            if impl["err"] == "ssh" and "@packet.py:" in o["site"] and model["err"] == "-":
                # the packet layer gave up (MAC/framing of the encrypted phase after a shifted or re-keyed stream):
                # C02's subject; the loop model is compared up to that point
                ctx.dist("ended-by-packet-layer")
                impl["err"], impl["active"] = "-", 1
            if case.get("what") == "rekey-session" and impl["err"] == "ended" and model["err"] == "-":
                ctx.dist("ended-by-peer")
                impl["err"], impl["active"] = "-", 1
            if impl["err"] == "eof" and model["err"] == "-":
                # the loop ended because the *other* side went away or the handshake timer fired while this side
                # was waiting: nothing the model's inputs describe — compare what happened up to that point
                ctx.dist("ended-by-eof-or-timeout")
                impl["err"], impl["active"] = "-", 1
            if model != impl:
                ctx.disagree("handshake replay (%s)" % name, dict(case, peer=name, rx=[r[:2] for r in o["rx"]]),
                             model, impl)


META = {
    "claimed": True,
    "level": ("Proved in Lean for all event histories (any packets, payloads, orders, engine/handler answers, local "
              "rekey triggers), both roles: if the initial key exchange completes without error in strict mode, the "
              "packets received are exactly KEXINIT ++ one accepted type per step of the negotiated engine ++ NEWKEYS, "
              "the KEXINIT was packet 0 and the inbound counter is 0 again; any out-of-order packet during a strict "
              "initial exchange ends the session (MessageOrderError); a late KEXINIT is refused; NEWKEYS resets the "
              "inbound counter on receipt and the outbound counter on sending in every exchange. Tied to "
              "Transport.run/_parse_kex_init/_activate_*/_parse_newkeys by replaying real man-in-the-middle-edited "
              "handshakes through the model."),
    "note": ("Trusted: Lean kernel + 3 axioms; generated dispatch tables; Relay/Tap harness. Kex engines are scripts "
             "(expected types / emitted types per step) with an arbitrary accept/refuse answer per packet; their "
             "well-formedness hypothesis (non-empty expectations within 30..41) is proved for paramiko's engines. "
             "Integrity of the encrypted phase (C02) is not part of this model: 'no shifted session' is proved as "
             "'counters are zero at completion and nothing but the script was received'. GSS kex engines not covered."),
    "technique": "Lean 4 inductive invariant over a run-loop state machine + man-in-the-middle differential replay",
}
