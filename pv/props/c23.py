"""C23 — Live channel IDs are unique within a transport.

Model: lean/PV/Model/ChanIds.lean; generated kernel: lean/PV/Generated/C23.lean (translated from the source of
Transport._next_channel on every run, proved equal to the model); theorems: lean/PV/Props/C23.lean;
driver: lean/Driver/C23.lean.

Correspondence: a socket-less real Transport (counter set near 2^24, ChannelMap populated with strongly held
sentinels) is driven through its real entry points — open_channel (the peer's OPEN_CONFIRMATION / OPEN_FAILURE
is delivered synchronously from the recording _send_user_message), _parse_channel_open for every channel kind
(server callback window used to run *nested* local opens and deletions between the allocation and the
registration of the peer's channel), Channel._handle_close / _unlink / weak-reference death /
ChannelMap.delete — and the Lean model runs the same history; ids, counter and final key set are compared.
Oracle (model-independent): every id handed out is < 2^24 and is not the id of any object the harness still
holds as live (or of the pending peer-open); no held object is ever replaced in the map; the scan probes at
most live+1 ids; threaded opens yield pairwise distinct ids.
"""
import threading

from pv import lib_chanids

M24 = 1 << 24
OPEN, OPEN_OK, OPEN_FAIL = 90, 91, 92


class Runaway(Exception):
    pass


class Sentinel:
    """stands for an open channel in the map (as far as the allocator may look at an entry: it is not closed)"""
    __slots__ = ("__weakref__", "cid")
    closed = False
    active = True

    def __init__(self, cid):
        self.cid = cid


class Rig:
    """A real Transport without a socket thread; records what the real code allocates."""

    def __init__(self, server_mode):
        import paramiko
        from paramiko.transport import Transport
        from paramiko.message import Message
        from tests._loop import LoopSocket

        self.Message = Message
        self.paramiko = paramiko
        t = self.t = Transport(LoopSocket())
        t.active = True
        t.server_mode = server_mode
        self.held = {}            # id -> strongly held object the harness believes is in the map
        self.pending = None       # id allocated by _parse_channel_open, not yet registered
        self.reply_ok = True
        self.nested = None        # callable run inside the server callback
        self.cb_result = 0
        self.allocs = []          # ids returned by _next_channel, in order
        self.alloc_counters = []  # value of _channel_counter right after each allocation
        self.count_probes = True
        self.problems = []        # oracle failures (signature, detail)
        self.probes = 0
        self.in_alloc = False
        self.max_probe_excess = 0
        rig = self

        class Srv(paramiko.ServerInterface):
            def check_channel_request(self, kind, chanid):
                return rig._callback(chanid)

            def check_channel_direct_tcpip_request(self, chanid, origin, destination):
                return rig._callback(chanid)

        if server_mode:
            t.server_object = Srv()
        else:
            t._x11_handler = lambda chan, addr: t._queue_incoming_channel(chan)
            t._tcp_handler = lambda chan, a, b: t._queue_incoming_channel(chan)
            t._forward_agent_handler = lambda chan: t._queue_incoming_channel(chan)
        t._send_user_message = self._sent
        t._send_message = self._sent
        cm = t._channels
        real_get = cm.get

        def counting_get(chanid):
            if rig.count_probes and rig.in_alloc and threading.current_thread() is rig.alloc_thread:
                rig.probes += 1
                if rig.probes > len(rig.held) + 3:
                    raise Runaway("scan probed %d ids with %d live" % (rig.probes, len(rig.held)))
            return real_get(chanid)

        cm.get = counting_get
        real_next = t._next_channel
        self.alloc_thread = None

        def next_channel():
            rig.in_alloc, rig.probes, rig.alloc_thread = True, 0, threading.current_thread()
            try:
                cid = real_next()
            finally:
                rig.in_alloc = False
            rig.allocs.append(cid)
            rig.alloc_counters.append(t._channel_counter)
            rig._check_alloc(cid)
            return cid

        t._next_channel = next_channel

    # ---- oracle at allocation time
    def _check_alloc(self, cid):
        if not isinstance(cid, int) or not (0 <= cid < M24):
            self.problems.append(("id-out-of-range", "allocated id %r" % (cid,)))
        if cid in self.held:
            o = self.held[cid]
            half = (not isinstance(o, Sentinel)) and getattr(o, "closed", False)
            self.problems.append(("id-in-use:closed-locally-peer-close-outstanding" if half else "id-in-use",
                                  "allocated id %d while %s" % (cid, "a channel we closed is still registered under it "
                                                                "(the peer's CLOSE has not arrived)" if half
                                                                else "a live channel holds it")))
        if self.pending is not None and cid == self.pending:
            self.problems.append(("id-in-use:pending-peer-open",
                                  "allocated id %d while _parse_channel_open holds it" % cid))

    # ---- fake peer
    def _sent(self, m):
        data = m.asbytes()
        if data[0] != OPEN:
            return
        msg = self.Message(data[1:])
        msg.get_text()
        cid = msg.get_int()
        r = self.Message()
        r.add_int(cid)
        if self.reply_ok:
            # the peer's id for the channel: whenever possible the LOCAL id of another live channel (the two id
            # spaces are independent, so this happens all the time)
            r.add_int(next((i for i in sorted(self.held) if i != cid), 7000 + (cid & 0xFF)))
            r.add_int(getattr(self, "reply_window", 1 << 21))
            r.add_int(getattr(self, "reply_maxpkt", 1 << 15))
            r.rewind()
            self.t._parse_channel_open_success(r)
        else:
            r.add_int(1)
            r.add_string("no")
            r.add_string("en")
            r.rewind()
            self.t._parse_channel_open_failure(r)

    def _callback(self, chanid):
        if not isinstance(chanid, int) or not (0 <= chanid < M24):
            self.problems.append(("id-out-of-range", "id %r handed to the server's check_channel_request" % (chanid,)))
        self.pending = chanid
        if self.nested is not None:
            f, self.nested = self.nested, None
            f()
        return self.cb_result

    # ---- operations (real entry points)
    def seed(self, counter, ids):
        self.t._channel_counter = counter
        for i in ids:
            s = Sentinel(i)
            self.held[i] = s
            self.t._channels.put(i, s)

    def local_open(self, ok=True, kind="session"):
        """returns (id, counter) as the real code reports them"""
        self.reply_ok = ok
        n0 = len(self.allocs)
        kw = {}
        if kind in ("direct-tcpip", "forwarded-tcpip"):
            kw = dict(dest_addr=("d", 1), src_addr=("s", 2))
        elif kind == "x11":
            kw = dict(src_addr=("s", 2))
        try:
            chan = self.t.open_channel(kind, timeout=30, **kw)
        except self.paramiko.ChannelException:
            chan = None
        cid = self.allocs[n0] if len(self.allocs) > n0 else None
        if chan is not None:
            if chan.get_id() != cid:
                self.problems.append(("open-channel-id-mismatch", "chan %r alloc %r" % (chan.get_id(), cid)))
            self._register(cid, chan)
        return cid, self.t._channel_counter

    def _register(self, cid, chan):
        if cid in self.held and self.held[cid] is not chan:
            self.problems.append(("live-channel-overwritten", "id %d registered twice" % cid))
        self.held[cid] = chan

    def peer_msg(self, kind, window=1 << 21, maxpkt=1 << 15, peer_id=55):
        m = self.Message()
        m.add_string(kind)
        m.add_int(peer_id)
        m.add_int(window)
        m.add_int(maxpkt)
        if kind == "x11":
            m.add_string("o")
            m.add_int(1)
        elif kind in ("forwarded-tcpip", "direct-tcpip"):
            m.add_string("a")
            m.add_int(1)
            m.add_string("b")
            m.add_int(2)
        m.rewind()
        return m

    def peer_open(self, kind, accept=True, nested=None):
        """returns (id, counter after the allocation, registered?) or None when the request is refused before
        any allocation"""
        # the peer's own id for the channel: the local id of one of our live channels when there is one
        m = self.peer_msg(kind, peer_id=next(iter(sorted(self.held)), 55))
        self.nested = nested
        self.cb_result = 0 if accept else 1
        self.pending = None
        n0 = len(self.allocs)
        self.t._parse_channel_open(m)
        self.nested = None
        if len(self.allocs) == n0:
            self.pending = None
            return None
        cid = self.allocs[n0]
        self.pending = None
        registered = None
        while self.t.server_accepts:
            registered = self.t.server_accepts.pop()
        if registered is not None:
            if registered.get_id() != cid:
                self.problems.append(("open-channel-id-mismatch", "peer chan %r alloc %r" % (registered.get_id(), cid)))
            self._register(cid, registered)
        return cid, self.alloc_counters[n0], registered is not None

    def delete(self, cid, how):
        obj = self.held.pop(cid, None)
        if obj is None or isinstance(obj, Sentinel) or how == "map":
            self.t._channels.delete(cid)
        elif how == "peer-close":
            obj._handle_close(None)
            # the peer's CLOSE releases THIS channel, and only it
            if self.t._channels.get(cid) is not None:
                self.problems.append(("closed-channel-still-registered",
                                      "id %d is still in the channel map after the peer's CLOSE was handled "
                                      "(remote id %r)" % (cid, getattr(obj, "remote_chanid", None))))
            for oid, other in self.held.items():
                if self.t._channels.get(oid) is not other:
                    self.problems.append(("open-channel-dropped-from-map",
                                          "handling the peer's CLOSE for channel %d (remote id %r) removed the open "
                                          "channel %d from the map" % (cid, getattr(obj, "remote_chanid", None), oid)))
                    break
        elif how == "unlink" and not obj.closed:
            obj._unlink()
        elif how == "unlink":
            # Channel._unlink() returns at once for a channel we already closed (its entry waits for the peer's
            # CLOSE): that is what then removes it
            obj._handle_close(None)
        else:  # weak reference dies
            del obj
            if self.t._channels.get(cid) is not None:
                import gc
                gc.collect()
        return

    def peer_reply(self, kind, cid):
        """an unsolicited / duplicate / late CHANNEL_OPEN_FAILURE or CHANNEL_OPEN_CONFIRMATION naming `cid`"""
        m = self.Message()
        m.add_int(cid)
        if kind == "fail":
            m.add_int(1)
            m.add_string("no")
            m.add_string("en")
            m.rewind()
            self.t._parse_channel_open_failure(m)
        else:
            m.add_int(4242)
            m.add_int(1 << 21)
            m.add_int(1 << 15)
            m.rewind()
            self.t._parse_channel_open_success(m)
        obj = self.held.get(cid)
        if obj is not None and self.t._channels.get(cid) is not obj:
            self.problems.append(("open-channel-dropped-from-map",
                                  "peer OPEN_%s naming established id %d removed it from the channel map although "
                                  "the channel is open" % ("FAILURE" if kind == "fail" else "CONFIRMATION", cid)))

    def keys(self):
        return sorted(self.t._channels._map.keys())

    def final_check(self):
        for cid, obj in self.held.items():
            if self.t._channels.get(cid) is not obj:
                self.problems.append(("live-channel-overwritten", "id %d no longer maps to its channel" % cid))
                break


def gen_layout(rng, thorough):
    """(counter, sentinel ids): dense blocks around the 24-bit wrap and around the counter"""
    r = rng.random()
    if r < 0.6:
        counter = (M24 - rng.randrange(0, 12)) % M24
    elif r < 0.8:
        counter = rng.randrange(0, 12)
    else:
        counter = rng.randrange(M24)
    ids = set()
    nblocks = rng.randrange(0, 4)
    for _ in range(nblocks):
        start = (counter + rng.randrange(-3, 6)) % M24
        ln = rng.choice([1, 2, 3, 5, 9, 17]) if not thorough else rng.choice([1, 3, 9, 40, 150, 400])
        for k in range(ln):
            if rng.random() < 0.85:
                ids.add((start + k) % M24)
    for _ in range(rng.randrange(0, 4)):
        ids.add(rng.randrange(M24))
    return counter, sorted(ids)


def gen_history(rng, server_mode, nops, wrap_refusal=0):
    ops = []
    if wrap_refusal:
        # lead-in: opens up to the id that wraps the counter, a REFUSED peer open exactly there, then more opens
        for _ in range(wrap_refusal - 1):
            ops.append(("local", True, "session") if rng.random() < 0.5 else ("peer", "session", True, []))
        ops.append(("peer", rng.choice(["session", "direct-tcpip"]), False, []))
        ops.append(("local", True, "session") if rng.random() < 0.5 else ("peer", "session", True, []))
    for _ in range(nops):
        r = rng.random()
        if r < 0.38:
            ops.append(("local", rng.random() < 0.85, rng.choice(["session", "direct-tcpip", "x11"])))
        elif r < 0.66:
            if server_mode:
                kind = rng.choice(["session", "direct-tcpip", "foo"])
                nested = []
                for _ in range(rng.choice([0, 0, 1, 2, 3])):
                    nested.append(("local", rng.random() < 0.85, "session") if rng.random() < 0.7
                                  else ("del", rng.randrange(4), rng.choice(["map", "peer-close", "unlink", "gc"])))
                ops.append(("peer", kind, rng.random() < 0.8, nested))
            else:
                kind = rng.choice(["x11", "forwarded-tcpip", "auth-agent@openssh.com", "session"])
                ops.append(("peer", kind, True, []))
        elif r < 0.88:
            ops.append(("del", rng.randrange(6), rng.choice(["map", "peer-close", "unlink", "gc"])))
        elif r < 0.93:
            # local close(): EOF and CLOSE go out, the entry STAYS registered until the peer's CLOSE arrives
            ops.append(("halfclose", rng.randrange(4)))
        else:
            # peer-sent OPEN_FAILURE / OPEN_CONFIRMATION naming an established or an unknown id
            ops.append(("pmsg", rng.choice(["fail", "fail", "succ"]), rng.choice(["established", "established", "unknown"]),
                        rng.randrange(4)))
    return ops


def pick_victim(rig, rng_index, counter):
    """deterministic choice of a live id to delete: the k-th live id at/after the counter (cyclically)"""
    if not rig.held:
        return None
    ks = sorted(rig.held, key=lambda i: (i - counter) % M24)
    return ks[rng_index % len(ks)]


def run_history(rig, counter, ids, ops):
    """Execute on the real code; returns (model request lines, impl replies, info)"""
    reqs = ["init %d %s" % (counter, ",".join(map(str, ids)) or "-")]
    impl = ["ok"]
    info = {"skipped": 0, "wrapped": False, "nested": 0, "allocs": 0}
    rig.seed(counter, ids)

    def note_alloc(before, cid):
        info["allocs"] += 1
        if cid is not None:
            if cid != before:
                info["skipped"] += 1
            if cid < before:
                info["wrapped"] = True

    def do_local(ok, kind, reqs, impl):
        before = rig.t._channel_counter
        cid, c = rig.local_open(ok, kind)
        note_alloc(before, cid)
        reqs.append("local")
        impl.append("%d %d" % (cid, c))
        if not ok:
            reqs.append("del %d" % cid)
            impl.append("ok")

    def do_del(k, how, reqs, impl):
        v = pick_victim(rig, k, rig.t._channel_counter)
        if v is None:
            return
        rig.delete(v, how)
        reqs.append("del %d" % v)
        impl.append("ok")

    def do_halfclose(k):
        # no model action: the map is unchanged (RFC 4254 5.3: the number is in use until both CLOSEs are exchanged)
        counter = rig.t._channel_counter
        real = sorted((i for i, o in rig.held.items() if not isinstance(o, Sentinel) and not o.closed),
                      key=lambda i: (i - counter) % M24)
        if not real:
            return
        v = real[k % len(real)]
        rig.held[v].close()
        info["half_closed"] = info.get("half_closed", 0) + 1
        if rig.t._channels.get(v) is not rig.held[v]:
            rig.problems.append(("locally-closed-channel-left-the-map-before-the-peers-close",
                                 "id %d" % v))

    def do_pmsg(kind, target, k, reqs, impl):
        counter = rig.t._channel_counter
        if target == "established":
            v = pick_victim(rig, k, counter)
            if v is None or (kind == "succ" and isinstance(rig.held[v], Sentinel)):
                return
        else:
            v = (counter + 5000 + 17 * k) % M24
            if v in rig.held:
                return
        rig.peer_reply(kind, v)
        info["peer_replies"] = info.get("peer_replies", 0) + 1
        reqs.append("pfail %d 0" % v if kind == "fail" else "psucc %d" % v)
        impl.append("ok")

    for op in ops:
      try:
          if op[0] == "pmsg":
              do_pmsg(op[1], op[2], op[3], reqs, impl)
              continue
          if op[0] == "halfclose":
              do_halfclose(op[1])
              continue
          if op[0] == "local":
              do_local(op[1], op[2], reqs, impl)
          elif op[0] == "del":
              do_del(op[1], op[2], reqs, impl)
          else:
              _, kind, accept, nested = op
              inner_reqs, inner_impl = [], []

              def run_nested():
                  for n in nested:
                      info["nested"] += 1
                      if n[0] == "local":
                          do_local(n[1], n[2], inner_reqs, inner_impl)
                      else:
                          do_del(n[1], n[2], inner_reqs, inner_impl)

              before = rig.t._channel_counter
              res = rig.peer_open(kind, accept, run_nested if (nested and rig.t.server_mode) else None)
              if res is None:
                  continue  # refused before any allocation (client mode, unknown kind)
              cid, c_after, registered = res
              note_alloc(before, cid)
              reqs.append("palloc")
              impl.append("%d %d" % (cid, c_after))
              reqs += inner_reqs
              impl += inner_impl
              if registered:
                  reqs.append("pput")
                  impl.append("ok 0 0")
              else:
                  reqs.append("prej")
                  impl.append("ok")
      except Runaway:
        raise
      except Exception as e:  # noqa — the real code raised out of an open: reported with what was allocated
        from pv.core import exc_site
        rig.problems.append(("open-raised:" + exc_site(e), "%s during %r; ids allocated so far %r"
                             % (repr(e)[:120], op[:3], rig.allocs[-4:])))
        info["aborted"] = True
        break
    rig.final_check()
    reqs.append("live")
    impl.append(",".join(map(str, rig.keys())) or "-")
    return reqs, impl, info


def threaded_opens(ctx, rng, nthreads, per_thread):
    """Concurrent open_channel calls from several threads + peer opens on the main thread: ids pairwise distinct."""
    rig = Rig(True)
    counter, ids = gen_layout(rng, False)
    rig.seed(counter, ids)
    got, errs = [], []
    lock = threading.Lock()
    start = threading.Event()

    def worker():
        start.wait()
        try:
            for _ in range(per_thread):
                chan = rig.t.open_channel("session", timeout=60)
                with lock:
                    got.append(chan)
        except Exception as e:  # noqa
            errs.append(repr(e))

    rig.reply_ok = True
    rig._check_alloc = lambda cid: None  # the single-threaded bookkeeping does not apply here
    rig.count_probes = False
    th = [threading.Thread(target=worker, daemon=True) for _ in range(nthreads)]
    for x in th:
        x.start()
    start.set()
    peers = []
    for _ in range(per_thread):
        rig.t._parse_channel_open(rig.peer_msg("session"))
        with rig.t.lock:
            while rig.t.server_accepts:
                peers.append(rig.t.server_accepts.pop())
    for x in th:
        x.join(120)
        if x.is_alive():
            from pv.core import InfraError
            raise InfraError("threaded open_channel did not finish")
    all_ids = [c.get_id() for c in got] + [c.get_id() for c in peers] + list(ids)
    case = {"threads": nthreads, "per_thread": per_thread, "counter": counter, "sentinels": ids[:20]}
    ctx.case(("threaded", counter, tuple(ids), nthreads), True)
    ctx.dist("threaded-runs")
    if errs:
        ctx.fail("open-channel-raised", case, errs[0])
    if len(set(all_ids)) != len(all_ids):
        dup = sorted(i for i in set(all_ids) if all_ids.count(i) > 1)
        ctx.fail("id-in-use:concurrent-opens", case, "duplicate live ids %r" % dup[:5])
    if any(not (0 <= i < M24) for i in all_ids):
        ctx.fail("id-out-of-range", case, "ids outside 24 bits")
    for c in got:
        if rig.t._channels.get(c.get_id()) is not c:
            ctx.fail("live-channel-overwritten", case, "id %d no longer maps to its channel" % c.get_id())
            break


def refusal_during_peer_open(ctx, rng):
    """A local open whose refusal arrives while a peer open is parked inside the server's check_channel_request
    (between `_parse_channel_open`'s allocation and its registration), followed by two more local opens.
    Returns (case, model requests, real replies)."""
    from pv.core import InfraError
    rig = Rig(True)
    counter, ids = gen_layout(rng, False)
    ids = [i for i in ids if (i - counter) % M24 > 12]      # keep the next few ids free: no wrap-around needed
    rig.seed(counter, ids)
    rig.count_probes = False
    Message = rig.Message
    deferred, sent_evt, res = {}, threading.Event(), {}
    normal_sent = rig._sent

    def sent(m):
        data = m.asbytes()
        if data[0] == OPEN and deferred.get("armed"):
            deferred["armed"] = False
            msg = Message(data[1:])
            msg.get_text()
            deferred["cid"] = msg.get_int()
            deferred["counter"] = rig.t._channel_counter
            sent_evt.set()
            return                      # the peer's answer comes later
        return normal_sent(m)

    rig.t._send_user_message = sent
    rig.t._send_message = sent

    def worker():
        try:
            res["chan"] = rig.t.open_channel("session", timeout=60)
        except rig.paramiko.ChannelException:
            res["refused"] = True
        except Exception as e:  # noqa
            res["err"] = repr(e)

    deferred["armed"] = True
    th = threading.Thread(target=worker, daemon=True)
    th.start()
    if not sent_evt.wait(60):
        raise InfraError("deferred open_channel did not send its CHANNEL_OPEN")
    q, cq = deferred["cid"], deferred["counter"]
    reqs = ["init %d %s" % (counter, ",".join(map(str, ids)) or "-"), "local"]
    impl = ["ok", "%d %d" % (q, cq)]
    later = []

    def nested():
        r = Message()
        r.add_int(q)
        r.add_int(1)
        r.add_string("no")
        r.add_string("en")
        r.rewind()
        rig.t._parse_channel_open_failure(r)      # the refusal of the local open, delivered by the transport thread
        th.join(60)
        for _ in range(2):
            later.append(rig.local_open(True))

    peer = rig.peer_open("session", True, nested)
    if th.is_alive():
        raise InfraError("refused open_channel did not return")
    case = {"scenario": "local open refused while a peer open is parked in check_channel_request, then two local opens",
            "counter": counter, "sentinels": ids[:30], "refused_local_id": q,
            "peer_open": peer, "later_local_opens": later}
    ctx.case(("refusal-during-peer-open", counter, tuple(ids)), True)
    ctx.dist("refusal-during-peer-open-scenarios")
    if res.get("err") or not res.get("refused"):
        ctx.fail("open-channel-raised", case, repr(res))
    for sig, detail in rig.problems[:3]:
        ctx.fail(sig + ":refused-local-open-during-peer-open", case, detail)
    if peer is not None:
        pid, pc, registered = peer
        reqs += ["palloc", "pfail %d 1" % q]
        impl += ["%d %d" % (pid, pc), "ok"]
        for cid, c in later:
            reqs.append("local")
            impl.append("%d %d" % (cid, c))
        reqs.append("pput" if registered else "prej")
        impl.append("ok 0 0" if registered else "ok")
        live_ids = [pid] + [cid for cid, _ in later]
        if len(set(live_ids)) != len(live_ids):
            ctx.fail("id-in-use:refused-local-open-during-peer-open", case, "live channels share an id: %r" % live_ids)
    rig.final_check()
    reqs.append("live")
    impl.append(",".join(map(str, rig.keys())) or "-")
    return case, reqs, impl


def reuse_of_half_closed(ctx, rng):
    """A channel we closed (EOF and CLOSE sent, the peer's CLOSE still outstanding) stays registered; the counter is
    moved back onto its id by hand (standing for a full trip round the 24-bit ring); the next opens — local and
    peer — must step over it.  Returns (case, model requests, real replies)."""
    rig = Rig(True)
    counter, ids = gen_layout(rng, False)
    ids = [i for i in ids if (i - counter) % M24 > 6]
    rig.seed(counter, ids)
    reqs = ["init %d %s" % (counter, ",".join(map(str, ids)) or "-")]
    impl = ["ok"]
    cid, c = rig.local_open(True)
    reqs.append("local")
    impl.append("%d %d" % (cid, c))
    chan = rig.held[cid]
    chan.close()                                  # closed = True, still in the map
    still = rig.t._channels.get(cid) is chan
    rig.t._channel_counter = cid                  # … the counter comes round to it
    reqs.append("init %d %s" % (cid, ",".join(map(str, sorted(ids + [cid])))))
    impl.append("ok")
    second = rng.choice(["local", "peer"])
    if second == "local":
        cid2, c2 = rig.local_open(True)
        reqs.append("local")
        impl.append("%d %d" % (cid2, c2))
    else:
        res = rig.peer_open("session", True, None)
        cid2 = res[0] if res else None
        if res:
            reqs += ["palloc", "pput"]
            impl += ["%d %d" % (res[0], res[1]), "ok 0 0"]
    case = {"scenario": "counter comes round to the id of a channel closed locally whose peer CLOSE is outstanding",
            "counter": counter, "sentinels": ids[:30], "half_closed_id": cid, "still_registered_after_close": still,
            "next_open": second, "id_handed_out": cid2}
    ctx.case(("reuse-half-closed", counter, tuple(ids), second), True)
    ctx.dist("half-closed-reuse-scenarios")
    if not still:
        ctx.fail("locally-closed-channel-left-the-map-before-the-peers-close", case, "id %d" % cid)
    for sig, detail in rig.problems[:3]:
        ctx.fail(sig, case, detail)
    if rig.t._channels.get(cid) is not chan:
        ctx.fail("registered-entry-overwritten:closed-locally-peer-close-outstanding", case,
                 "id %d now maps to another channel; the peer's CLOSE / exit-status / data for the old channel will "
                 "reach the new one" % cid)
    reqs.append("live")
    impl.append(",".join(map(str, rig.keys())) or "-")
    return case, reqs, impl


def stale_object_collected(ctx, rng):
    """Channel A gets id X and is closed by both sides (released), but the application keeps the dead object; the
    counter comes round (moved by hand) and B legitimately gets X; then A is dropped and garbage collected while B is
    open; the counter comes round to X once more.  B must stay registered and X must not be handed out again.
    Returns (case, model requests, real replies)."""
    import gc
    rig = Rig(True)
    counter, ids = gen_layout(rng, False)
    ids = [i for i in ids if (i - counter) % M24 > 6]
    rig.seed(counter, ids)
    lst = ",".join(map(str, ids)) or "-"
    reqs, impl = ["init %d %s" % (counter, lst)], ["ok"]
    x, c = rig.local_open(True)
    reqs.append("local")
    impl.append("%d %d" % (x, c))
    a = rig.held.pop(x)
    a._handle_close(None)                       # both CLOSEs exchanged: A is closed and released …
    reqs.append("del %d" % x)
    impl.append("ok")
    released = rig.t._channels.get(x) is None
    graveyard = [a]                             # … but the application still holds the dead object
    del a
    rig.t._channel_counter = x                  # the counter comes round
    reqs.append("init %d %s" % (x, lst))
    impl.append("ok")
    x2, c2 = rig.local_open(True)               # B legitimately gets X
    reqs.append("local")
    impl.append("%d %d" % (x2, c2))
    b = rig.held.get(x2)
    graveyard.clear()                           # now the application drops A
    gc.collect()
    still = b is not None and rig.t._channels.get(x2) is b
    rig.t._channel_counter = x                  # … and the counter comes round once more
    reqs.append("init %d %s" % (x, ",".join(map(str, sorted(ids + [x2])))))
    impl.append("ok")
    x3, c3 = rig.local_open(True)
    reqs.append("local")
    impl.append("%d %d" % (x3, c3))
    case = {"scenario": "dead channel object collected after its id was re-assigned", "counter": counter,
            "sentinels": ids[:30], "id": x, "released_after_both_closes": released, "id_of_B": x2,
            "B_still_registered_after_A_was_collected": still, "next_id_handed_out": x3}
    ctx.case(("stale-object", counter, tuple(ids)), True)
    ctx.dist("stale-object-scenarios")
    if x2 == x and not still:
        ctx.fail("live-channel-removed-by-a-collected-dead-object", case,
                 "collecting the dead Channel object that once had id %d removed the live channel now registered under "
                 "that id from the channel map" % x)
    for sig, detail in rig.problems[:3]:
        ctx.fail(sig + ":after-dead-object-collected", case, detail)
    if x3 == x2 and b is not None and not b.closed:
        ctx.fail("id-in-use:after-dead-object-collected", case, "id %d handed out while channel B holds it" % x3)
    reqs.append("live")
    impl.append(",".join(map(str, rig.keys())) or "-")
    return case, reqs, impl


def gated_allocators(ctx, rng):
    """Two allocators, the first stopped (sys.settrace) between `_next_channel`'s map lookup and its counter
    increment — but only if it does NOT hold the transport lock there (a holder cannot be overtaken).  On the code
    as it is every caller holds the lock, so the gate is never taken and the two run one after the other."""
    import sys
    from paramiko.transport import Transport
    from pv import lib_chanlock
    from pv.core import InfraError
    code = Transport._next_channel.__code__
    gate_line = lib_chanlock.last_assign_line(Transport._next_channel, "_channel_counter")
    rig = Rig(True)
    counter, ids = gen_layout(rng, False)
    rig.seed(counter, ids)
    rig._check_alloc = lambda cid: None
    rig.count_probes = False
    parked, go, done = threading.Event(), threading.Event(), threading.Event()
    res = {}

    def tracer(frame, event, arg):
        if event == "call":
            return tracer if frame.f_code is code else None
        if event == "line" and frame.f_code is code and frame.f_lineno == gate_line and not res.get("gated") \
                and not rig.t.lock.locked():
            res["gated"] = True
            parked.set()
            go.wait(120)
        return tracer

    def worker():
        sys.settrace(tracer)
        try:
            res["a"] = rig.t.open_channel("session", timeout=60)
        except Exception as e:  # noqa
            res["err"] = repr(e)
        finally:
            sys.settrace(None)
            done.set()
            parked.set()

    th = threading.Thread(target=worker, daemon=True)
    th.start()
    if not parked.wait(120):
        raise InfraError("gated allocator did not reach its gate or finish")
    second = rng.choice(["local", "peer"])
    b = None
    try:
        if second == "local":
            b = rig.t.open_channel("session", timeout=60)
        else:
            rig.t._parse_channel_open(rig.peer_msg("session"))
            with rig.t.lock:
                if rig.t.server_accepts:
                    b = rig.t.server_accepts.pop()
    except Exception as e:  # noqa
        res["err_b"] = repr(e)
    go.set()
    if not done.wait(120):
        raise InfraError("gated allocator did not finish")
    a = res.get("a")
    case = {"counter": counter, "sentinels": ids[:30], "second_allocator": second,
            "first_stopped_between_lookup_and_increment": bool(res.get("gated"))}
    ctx.case(("gated", counter, tuple(ids), second), True)
    ctx.dist("gated-allocator-runs")
    if res.get("gated"):
        ctx.dist("gate-taken-outside-the-lock")
    if res.get("err") or res.get("err_b"):
        ctx.fail("open-channel-raised", case, res.get("err") or res.get("err_b"))
        return
    if a is None or b is None:
        ctx.fail("open-channel-raised", case, "no channel returned")
        return
    ia, ib = a.get_id(), b.get_id()
    if ia == ib or ia in ids or ib in ids:
        ctx.fail("id-in-use:concurrent-allocators", case, "ids %d and %d (sentinels %r)" % (ia, ib, ids[:10]))
    elif rig.t._channels.get(ia) is not a or rig.t._channels.get(ib) is not b:
        ctx.fail("live-channel-overwritten", case, "ids %d / %d" % (ia, ib))
    if not (0 <= ia < M24 and 0 <= ib < M24):
        ctx.fail("id-out-of-range", case, "ids %d / %d" % (ia, ib))


def run(ctx):
    import logging
    from paramiko.transport import Transport

    logging.getLogger("paramiko").addHandler(logging.NullHandler())
    logging.getLogger("paramiko").propagate = False
    ctx.rule = ("histories of ≤50 operations (local opens incl. refused ones, peer opens of every channel kind with "
                "nested local opens/deletions inside the server callback, deletions by peer close / unlink / weak "
                "reference death / map delete) on a socket-less real Transport whose counter starts within 12 of the "
                "24-bit wrap (60%), near 0 (20%) or anywhere, with dense sentinel blocks around the counter. "
                "distinct = distinct (counter, sentinels, history); non-trivial = some allocation skipped a live id "
                "or wrapped past 2^24")
    ctx.trust("weakref.WeakValueDictionary semantics (entry disappears when the last strong reference dies) — "
              "modelled as a delete action that may happen at any point of a history")
    ctx.assume("fewer than 2^24 counter advances between the two lock regions of one _parse_channel_open "
               "(ghost flag `late`); fewer than 2^24 live channels (else _next_channel cannot terminate)")
    # ---- (T) translate the source into the generated kernel
    try:
        ctx.write_generated("C23", "set_option linter.unusedVariables false\n"
                            + lib_chanids.translate_next_channel(Transport))
    except lib_chanids.Untranslatable as e:
        ctx.broken.append({"kind": "translator", "what": "Transport._next_channel", "detail": str(e)[:300]})
    import paramiko.channel as chmod
    from pv import lib_chanlock
    ctx.write_generated("ChanLock", lib_chanlock.lean_tables_for(chmod.Channel))
    ctx.build()
    rng = ctx.rng
    n_hist = 12000 if ctx.thorough else 2000

    # ---- function-level correspondence of the generated kernel
    greqs, gimpl, gcases = [], [], []
    for _ in range(3000 if ctx.thorough else 600):
        counter, ids = gen_layout(rng, ctx.thorough)
        if rng.random() < 0.05:
            counter = M24 + rng.randrange(3)  # an unmasked counter (only reachable by poking the attribute)
        rig = Rig(False)
        rig.seed(counter, ids)
        rig._check_alloc = lambda cid: None
        try:
            cid = rig.t._next_channel()
        except Runaway as e:
            ctx.fail("next-channel-no-progress", {"counter": counter, "sentinels": ids[:30]}, str(e))
            continue
        greqs.append("gen %d %s" % (counter, ",".join(map(str, ids)) or "-"))
        gimpl.append("%d %d" % (cid, rig.t._channel_counter))
        gcases.append((counter, ids))
    gmodel = ctx.driver("C23", greqs)
    for i, (counter, ids) in enumerate(gcases):
        ctx.case(("gen", counter, tuple(ids)), counter in ids)
        ctx.dist("kernel-calls")
        if gmodel is not None and gmodel[i] != gimpl[i]:
            ctx.disagree("generated-kernel", {"counter": counter, "sentinels": ids[:40]}, gmodel[i], gimpl[i])

    # ---- histories
    all_reqs, spans, cases = [], [], []
    for h in range(n_hist):
        server_mode = rng.random() < 0.7
        counter, ids = gen_layout(rng, ctx.thorough)
        if h % 8 == 0:
            k = rng.randrange(1, 5)
            server_mode, counter, ids = True, M24 - k, [i for i in ids if (i - (M24 - k)) % M24 > 8]
            ops = gen_history(rng, True, rng.randrange(3, 30), wrap_refusal=k)
            ctx.dist("histories-with-refusal-at-the-wrap")
        else:
            ops = gen_history(rng, server_mode, rng.randrange(3, 51))
        rig = Rig(server_mode)
        case = {"server_mode": server_mode, "counter": counter, "sentinels": ids if len(ids) <= 60 else ids[:60],
                "ops": ops}
        try:
            reqs, impl, info = run_history(rig, counter, ids, ops)
        except Runaway as e:
            ctx.fail("next-channel-no-progress", case, str(e))
            continue
        nontrivial = info["skipped"] > 0 or info["wrapped"]
        ctx.case((counter, tuple(ids), repr(ops)), nontrivial)
        ctx.dist("mode:" + ("server" if server_mode else "client"))
        ctx.dist("allocations", info["allocs"])
        ctx.dist("allocations-skipping-live-ids", info["skipped"])
        ctx.dist("histories-wrapping-2^24", 1 if info["wrapped"] else 0)
        ctx.dist("nested-ops-inside-server-callback", info["nested"])
        ctx.dist("peer-open-replies-naming-established-or-unknown-ids", info.get("peer_replies", 0))
        ctx.dist("channels-closed-locally-with-the-peers-close-outstanding", info.get("half_closed", 0))
        if h % 400 == 0:
            ctx.sample({"case": case, "model_requests": reqs[:30], "impl": impl[:30]})
        for sig, detail in rig.problems[:3]:
            ctx.fail(sig, case, detail)
        spans.append((len(all_reqs), len(reqs)))
        all_reqs += reqs
        cases.append((case, impl))
    for _ in range(40 if ctx.thorough else 8):
        case, reqs, impl = stale_object_collected(ctx, rng)
        spans.append((len(all_reqs), len(reqs)))
        all_reqs += reqs
        cases.append((case, impl))
    for _ in range(60 if ctx.thorough else 20):
        case, reqs, impl = reuse_of_half_closed(ctx, rng)
        spans.append((len(all_reqs), len(reqs)))
        all_reqs += reqs
        cases.append((case, impl))
    for _ in range(60 if ctx.thorough else 15):
        case, reqs, impl = refusal_during_peer_open(ctx, rng)
        spans.append((len(all_reqs), len(reqs)))
        all_reqs += reqs
        cases.append((case, impl))
    model = ctx.driver("C23", all_reqs)
    if model is not None:
        for (start, n), (case, impl) in zip(spans, cases):
            got = model[start:start + n]
            if got != impl:
                k = next(i for i in range(n) if got[i] != impl[i])
                ctx.disagree("history", dict(case, at_request=all_reqs[start + k], index=k), got[k], impl[k])
                break

    # ---- concurrent opens (oracle only)
    for _ in range(60 if ctx.thorough else 12):
        threaded_opens(ctx, rng, 4, 25)

    # ---- two allocators with a statement-level yield point inside _next_channel
    for _ in range(200 if ctx.thorough else 40):
        gated_allocators(ctx, rng)


META = {
    "claimed": True,
    "level": ("Proved in Lean for every history of local opens, peer opens (allocate / register / reject, with any "
              "other operations in between) and deletions, from any counter value below 2^24: the id returned by "
              "_next_channel is not a key of the channel map and is < 2^24 (nextChannel_fresh), the scan terminates "
              "within 2^24 iterations whenever fewer than 2^24 ids are live (nextChannel_total, pigeonhole), live ids "
              "stay pairwise distinct and 24-bit (live_distinct_24bit), every open channel stays in the map under peer "
              "OPEN_FAILURE / OPEN_CONFIRMATION messages naming any id, so allocation never returns an open channel's id "
              "(open_channels_registered, alloc_never_returns_open_id), the counter is assigned only by _next_channel and "
              "never moves backwards (counter_written_only_by_next_channel — AST fact, counter_never_moves_backwards), entries "
              "leave the map only through the close paths of the registered channel, never from a finaliser "
              "(entries_removed_only_by_close_paths — AST tables; scenario: a dead object collected after its id was "
              "re-assigned), an id held by _parse_channel_open between its "
              "two lock regions is never handed out again (pending_id_reserved) and no registration overwrites a live "
              "channel (no_collision). The model's nextChannel is proved equal to the Lean kernel translated from the "
              "source of Transport._next_channel on every run (model_eq_generated); every call site of _next_channel "
              "holds self.lock (next_channel_sites_locked, generated from the AST of transport.py), which is what makes "
              "allocation atomic: locked_allocations_distinct / unlocked_allocation_collision_witness (statement-level "
              "model); the surrounding bookkeeping is tied by differential runs through open_channel / "
              "_parse_channel_open / close paths, incl. two allocators with a yield point between the map lookup and "
              "the counter increment."),
    "note": ("Hypothesis (ghost flag `late`): fewer than 2^24 counter advances happen between the allocation and the "
             "registration of one peer-opened channel. Atomicity of open_channel's allocation+put and of each lock "
             "region of _parse_channel_open is taken from the `self.lock` regions of the source; only the transport "
             "thread runs _parse_channel_open (one pending id). Weak-reference death = a delete at an arbitrary point. "
             "Trusted: the AST translator pv/lib_chanids.py, the correspondence harness, WeakValueDictionary."),
    "technique": "Lean 4 proof (fuel-indexed scan with proved sufficient fuel, inductive invariant over histories) + "
                 "source-to-Lean translation of the kernel + differential correspondence",
}
