"""C07 — Signatures must use the negotiated or declared signature algorithm.

Model: lean/PV/Model/SigAlgo.lean; theorems: lean/PV/Props/C07.lean; driver: lean/Driver/C07.lean.

Correspondence (real verify paths, real keys, real signatures):
  * tables: Transport._key_info, RSAKey.HASHES, _preferred_keys, _preferred_pubkeys vs the model's tables;
    `name.replace("-cert-v01@openssh.com", "")` vs stripCert; preferred_keys / preferred_pubkeys under disabled sets;
  * client: the real `_parse_kex_init` (negotiation under `disabled_algorithms`) followed by the real
    `Transport._verify_key`, EXHAUSTIVE over disabled subsets of the RSA names x negotiated RSA name (plain and cert
    form) x blob algorithm name x hash actually used; ECDSA / Ed25519 keys with every mismatched name;
  * server: the real `AuthHandler._parse_userauth_request` publickey branch fed forged USERAUTH_REQUESTs, same space.
  The library's verdict (is this signature valid under SHA-1 / SHA-256 / SHA-512) is computed with `cryptography`
  directly and given to the model as a parameter.

Oracle (model-independent): whenever the real code ACCEPTS, the blob's algorithm name must equal the negotiated /
declared name without its cert suffix, and that name must not be disabled.  End to end: a real server made to sign
its KEX reply with SHA-1 `ssh-rsa` while rsa-sha2-512 was negotiated; a P-384 host key under a negotiated
nistp256; a client that declares rsa-sha2-512 and signs with `ssh-rsa` — with and without `ssh-rsa` disabled.
"""
import base64
import itertools
import os
import socket
import struct

from pv import lib_kexeng as L
from pv.core import exc_site, hx

# the peer's identification string is attacker-chosen: the verdict must not depend on it
BANNERS = ["SSH-2.0-paramiko_3.4.0", "SSH-2.0-OpenSSH_6.6.1p1 Ubuntu-2ubuntu2", "SSH-2.0-OpenSSH_7.2", "SSH-2.0-OpenSSH_7.4p1 Debian-10",
           "SSH-2.0-OpenSSH_7.7", "SSH-2.0-OpenSSH_7.8", "SSH-2.0-OpenSSH_8.9p1 Ubuntu-3", "SSH-2.0-PuTTY_Release_0.76",
           "SSH-2.0-dropbear_2020.81", "SSH-1.99-OpenSSH_7.3", "SSH-2.0-libssh_0.9.6", ""]
SUFFIX = "-cert-v01@openssh.com"
RSA_NAMES = ["ssh-rsa", "rsa-sha2-256", "rsa-sha2-512"]
HASH_ID = {"ssh-rsa": 1, "rsa-sha2-256": 2, "rsa-sha2-512": 4}


def s_(b):
    return struct.pack(">I", len(b)) + b


def base_name(n):
    """independent of paramiko's replace(): drop ONE trailing cert suffix"""
    return n[: -len(SUFFIX)] if n.endswith(SUFFIX) else n


def key_own_ok(k, base):
    """is `base` an algorithm of THIS key: an RSA name for an RSA key, the key's own curve identifier for ECDSA,
    ssh-ed25519 for Ed25519 (independent of verify_ssh_sig)"""
    from paramiko.rsakey import RSAKey

    if isinstance(k, RSAKey):
        return base in RSA_NAMES
    if getattr(k, "ecdsa_curve", None) is not None:
        return base == "ecdsa-sha2-" + k.ecdsa_curve.nist_name
    return base == "ssh-ed25519"


def names_tok(l):
    return ",".join(hx(x.encode() if isinstance(x, str) else x) for x in l) or "-"


def blob_algo(sig):
    (n,) = struct.unpack(">I", sig[:4])
    return sig[4:4 + n]


class Keys:
    """real keys, their public blobs (plain and certificate), and raw signatures made with `cryptography`"""

    def __init__(self):
        from pv.core import REPO

        sup = os.path.join(REPO, "tests", "_support")
        self.rsa = L.host_key("rsa")
        self.ec = {"ecdsa-sha2-nistp256": L.host_key("ecdsa256"), "ecdsa-sha2-nistp384": L.host_key("ecdsa384"),
                   "ecdsa-sha2-nistp521": L.host_key("ecdsa521")}
        self.ed = L.host_key("ed25519")
        self.cert = {}
        for kind, f in (("rsa", "rsa.key-cert.pub"), ("ecdsa-sha2-nistp256", "ecdsa-256.key-cert.pub"),
                        ("ssh-ed25519", "ed25519.key-cert.pub")):
            self.cert[kind] = base64.b64decode(open(os.path.join(sup, f)).read().split()[1])

    def rsa_body(self, data, algo):
        from cryptography.hazmat.primitives import hashes
        from cryptography.hazmat.primitives.asymmetric import padding

        h = {"ssh-rsa": hashes.SHA1, "rsa-sha2-256": hashes.SHA256, "rsa-sha2-512": hashes.SHA512}[algo]
        return self.rsa.key.sign(data, padding.PKCS1v15(), h())

    def ecdsa_body(self, key, data, hash_name):
        """an ECDSA signature by `key` over `data` with the NAMED hash (whatever the key's own curve asks for),
        in SSH form (mpint r, mpint s) — made with `cryptography` directly"""
        from cryptography.hazmat.primitives import hashes
        from cryptography.hazmat.primitives.asymmetric import ec
        from cryptography.hazmat.primitives.asymmetric.utils import decode_dss_signature

        h = {"sha256": hashes.SHA256, "sha384": hashes.SHA384, "sha512": hashes.SHA512}[hash_name]
        r, s = decode_dss_signature(key.signing_key.sign(data, ec.ECDSA(h())))
        return L.raw_mpint(r) + L.raw_mpint(s)

    def rsa_flags(self, data, body):
        """the library's verdict under SHA-1 / SHA-256 / SHA-512, asked directly.  A signature SHORTER than the
        modulus is left-padded with zeros first (documented PuTTY compatibility); nothing is ever trimmed."""
        size = (self.rsa.key.key_size + 7) // 8
        if len(body) < size:
            body = b"\x00" * (size - len(body)) + body
        return self._rsa_flags(data, body)

    def _rsa_flags(self, data, body):
        from cryptography.exceptions import InvalidSignature
        from cryptography.hazmat.primitives import hashes
        from cryptography.hazmat.primitives.asymmetric import padding

        out = ""
        for h in (hashes.SHA1, hashes.SHA256, hashes.SHA512):
            try:
                self.rsa.key.public_key().verify(body, data, padding.PKCS1v15(), h())
                out += "1"
            except InvalidSignature:
                out += "0"
        return out + "0"

    def fixed_body(self, key, data):
        m = key.sign_ssh_data(data)
        m.rewind()
        m.get_text()
        return m.get_binary()


def parse_outcome(Transport, name, blob):
    """what the key class `_key_info` maps `name` to makes of `blob` (a parameter of the model)"""
    from paramiko.message import Message
    from paramiko.ssh_exception import SSHException

    cls = Transport._key_info.get(name)
    if cls is None:
        return "ok", b"", None
    try:
        k = cls(Message(blob))
    except SSHException:
        return "ssh", b"", None
    except Exception:
        return "other", b"", None
    ident = b""
    if hasattr(k, "ecdsa_curve") and k.ecdsa_curve is not None:
        ident = k.ecdsa_curve.key_format_identifier.encode()
    return "ok", ident, k


def kexinit_payload(t, hostkeys):
    from paramiko.message import Message

    m = Message()
    m.add_bytes(b"\x07" * 16)
    m.add_list(list(t.preferred_kex))
    m.add_list(list(hostkeys))
    for lst in (t.preferred_ciphers,) * 2 + (t.preferred_macs,) * 2 + (t.preferred_compression,) * 2:
        m.add_list(list(lst))
    m.add_string(b"")
    m.add_string(b"")
    m.add_boolean(False)
    m.add_int(0)
    return m.asbytes()


def status_of(e):
    from paramiko.ssh_exception import SSHException

    if isinstance(e, SSHException):
        return "ssh"
    if isinstance(e, KeyError):
        return "keyerror"
    return "other:" + exc_site(e)


# ------------------------------------------------------------------------------------------ tables
def tables(ctx):
    from paramiko.transport import Transport
    from paramiko.rsakey import RSAKey
    from paramiko.ecdsakey import ECDSAKey
    from paramiko.ed25519key import Ed25519Key

    cls_name = {RSAKey: "rsa", ECDSAKey: "ecdsa", Ed25519Key: "ed25519"}
    want = []
    names = list(Transport._preferred_keys) + [n + SUFFIX for n in Transport._preferred_keys]
    from cryptography.hazmat.primitives import hashes

    hid = {hashes.SHA1: 1, hashes.SHA256: 2, hashes.SHA512: 4}
    for n in names:
        c = Transport._key_info.get(n)
        h = RSAKey.HASHES.get(n)
        want.append("%s:%s:%s" % (hx(n.encode()), cls_name.get(c, "-"), hid.get(h, "-") if h else "-"))
    reqs = ["tables"]
    impl = [" ".join(want)]
    if set(Transport._key_info) != set(names):
        ctx.disagree("key_info-names", {}, sorted(names), sorted(Transport._key_info))
    if tuple(Transport._preferred_pubkeys) != tuple(Transport._preferred_keys):
        ctx.disagree("preferred_pubkeys-table", {}, list(Transport._preferred_keys), list(Transport._preferred_pubkeys))
    rng = ctx.rng
    odd = ["", SUFFIX, "x" + SUFFIX + "y", "ssh-rsa" + SUFFIX + SUFFIX, "-cert-v01@openssh.co", "a-cert-v01@openssh.com-cert",
           "-cert-v01@openssh.-cert-v01@openssh.comcom", "ssh-rsa-cert-v01@openssh.comm"]
    for n in names + odd + ["".join(rng.choice(["-cert", "-v01", "@openssh", ".com", "-", "a", SUFFIX]) for _ in range(rng.randrange(1, 7)))
                            for _ in range(200)]:
        reqs.append("strip " + hx(n.encode()))
        impl.append(hx(n.replace(SUFFIX, "").encode()))
        ctx.case(("strip", n), SUFFIX in n)
    a, b = socket.socketpair()
    try:
        import paramiko

        pool = names + ["ssh-dss", "zzz"]
        for i in range(300 if ctx.thorough else 80):
            dis = [x for x in pool if rng.random() < rng.choice([0.1, 0.3, 0.6])]
            rng.shuffle(dis)
            t = paramiko.Transport(a, disabled_algorithms={"keys": dis, "pubkeys": dis})
            reqs.append("pref " + names_tok(dis))
            impl.append(names_tok(t.preferred_keys))
            reqs.append("pubs " + names_tok(dis))
            impl.append(names_tok(t.preferred_pubkeys))
            ctx.case(("pref", tuple(dis)), bool(dis))
            for n in t.preferred_keys:
                if n in dis:
                    ctx.fail("disabled-algorithm-offered:keys", {"disabled": dis}, n)
    finally:
        a.close()
        b.close()
    model = ctx.driver("C07", reqs)
    if model is not None:
        for r, m, i in zip(reqs, model, impl):
            if m != i:
                ctx.disagree("tables/strip/preferred", {"request": r[:200]}, m[:400], i[:400])


def source_facts(ctx):
    """source-level facts the model relies on: Transport._verify_key has no way out before the verification
    (no `return` statement at all; it calls _check_sig_algorithm and verify_ssh_sig), and the server's publickey
    branch calls _generate_key_from_request / _check_sig_algorithm / verify_ssh_sig."""
    import ast
    import inspect
    import textwrap
    from paramiko.auth_handler import AuthHandler
    from paramiko.transport import Transport

    def calls(tree):
        return {n.func.attr for n in ast.walk(tree) if isinstance(n, ast.Call) and isinstance(n.func, ast.Attribute)}

    tree = ast.parse(textwrap.dedent(inspect.getsource(Transport._verify_key)))
    returns = [n.lineno for n in ast.walk(tree) if isinstance(n, ast.Return)]
    if returns:
        ctx.disagree("_verify_key-has-an-early-return", {"lines": returns}, "no return before verification",
                     "return statement(s) at relative line(s) %r" % returns)
    missing = {"_check_sig_algorithm", "verify_ssh_sig"} - calls(tree)
    if missing:
        ctx.disagree("_verify_key-does-not-call", {"missing": sorted(missing)}, "calls both", "missing %r" % sorted(missing))
    tree = ast.parse(textwrap.dedent(inspect.getsource(AuthHandler._parse_userauth_request)))
    missing = {"_generate_key_from_request", "_check_sig_algorithm", "verify_ssh_sig"} - calls(tree)
    if missing:
        ctx.disagree("publickey-branch-does-not-call", {"missing": sorted(missing)}, "calls all", "missing %r" % sorted(missing))
    # the comparison in the publickey branch is unconditional: its call statement sits directly in a `try:` body
    # (under no test), and the function never looks at the peer's or our own identification string
    parents = {}
    for node in ast.walk(tree):
        for ch in ast.iter_child_nodes(node):
            parents[ch] = node
    call_stmts = [n for n in ast.walk(tree) if isinstance(n, ast.Expr) and isinstance(n.value, ast.Call)
                  and isinstance(n.value.func, ast.Attribute) and n.value.func.attr == "_check_sig_algorithm"]
    if len(call_stmts) != 1 or not isinstance(parents.get(call_stmts[0]), ast.Try) or call_stmts[0] not in parents[call_stmts[0]].body:
        ctx.disagree("publickey-branch-check-is-conditional", {}, "one _check_sig_algorithm call statement directly in a try body",
                     "%d call statement(s); parent %s" % (len(call_stmts), type(parents.get(call_stmts[0])).__name__ if call_stmts else None))
    versions = sorted({n.attr for n in ast.walk(tree) if isinstance(n, ast.Attribute) and n.attr in ("remote_version", "local_version")})
    if versions:
        ctx.disagree("publickey-branch-reads-identification-string", {}, "no use of remote_version/local_version", versions)
    ctx.dist("source-facts-checked")


# ------------------------------------------------------------------------------------------ client path
def signature_variants(K, data, family, key=None):
    """(blob algorithm name bytes, body, flags, label) — every pairing of a name with a body"""
    out = []
    if family == "rsa":
        bodies = [(a, K.rsa_body(data, a)) for a in RSA_NAMES] + [("other-data", K.rsa_body(b"not" + data, "rsa-sha2-256"))]
        # a valid signature with octets PREPENDED / APPENDED inside the signature string, or with its leading octet
        # dropped: the field as received is not a signature of the key's size
        for a in RSA_NAMES:
            good = K.rsa_body(data, a)
            bodies += [("junk1+" + a, b"\x5a" + good), ("junk8+" + a, b"\xa5" * 8 + good), ("junk300+" + a, os.urandom(300) + good),
                       ("zero1+" + a, b"\x00" + good), (a + "+junk1", good + b"\x00")]
        names = [n.encode() for n in RSA_NAMES] + [(n + SUFFIX).encode() for n in RSA_NAMES] + \
                [b"", b"ssh-dss", b"rsa-sha2-512\xff", b"ecdsa-sha2-nistp256", b"RSA-SHA2-512", b"rsa-sha2-512 "]
        for (made, body), name in itertools.product(bodies, names):
            out.append((name, body, K.rsa_flags(data, body), "%s-body/%r" % (made, name.decode("latin-1"))))
    else:
        good = K.fixed_body(key, data)
        bad = K.fixed_body(key, b"not" + data)
        per_hash = []
        if hasattr(key, "ecdsa_curve"):
            own = {256: "sha256", 384: "sha384", 521: "sha512"}[int(key.ecdsa_curve.nist_name[5:])]
            for hname in ("sha256", "sha384", "sha512"):
                per_hash.append((hname, K.ecdsa_body(key, data, hname), "0001" if hname == own else "0000"))
        names = [b"ecdsa-sha2-nistp256", b"ecdsa-sha2-nistp384", b"ecdsa-sha2-nistp521", b"ssh-ed25519", b"ssh-rsa",
                 b"rsa-sha2-512", b"ecdsa-sha2-nistp256" + SUFFIX.encode(), b"ssh-ed25519" + SUFFIX.encode(), b"",
                 b"ssh-ed25519\xc3"]
        for name in names:
            out.append((name, good, "0001", "good-body/%r" % name.decode("latin-1")))
            out.append((name, bad, "0000", "other-data/%r" % name.decode("latin-1")))
            for hname, body, flags in per_hash:
                out.append((name, body, flags, "%s-body/%r" % (hname, name.decode("latin-1"))))
    return out


def client_path(ctx, K):
    import paramiko
    from paramiko.message import Message
    from paramiko.transport import Transport

    H = b"\x11" * 32
    plans = []  # (disabled, server list, host key blob, sig variants family, key)
    rsa_subsets = [list(c) for r in range(4) for c in itertools.combinations(RSA_NAMES, r)]
    for dis in rsa_subsets:
        for neg in RSA_NAMES + [n + SUFFIX for n in RSA_NAMES]:
            blob = K.cert["rsa"] if neg.endswith(SUFFIX) else K.rsa.asbytes()
            plans.append((dis, [neg], blob, "rsa", None))
    # an EMPTY host-key blob (RFC 4462's "null host key" has no place in a non-GSS exchange): never accepted
    for neg in ["rsa-sha2-512", "ssh-rsa", "rsa-sha2-256" + SUFFIX]:
        plans.append(([], [neg], b"", "rsa", None))
    plans.append(([], ["ssh-ed25519"], b"", "fixed", K.ed))
    plans.append(([], ["ecdsa-sha2-nistp256"], b"", "fixed", K.ec["ecdsa-sha2-nistp256"]))
    # a disabled cert name, a server that offers several, a server that offers nothing we enable
    plans.append((["rsa-sha2-512" + SUFFIX], ["rsa-sha2-512" + SUFFIX, "ssh-rsa"], K.rsa.asbytes(), "rsa", None))
    plans.append((["rsa-sha2-512", "rsa-sha2-256"], ["rsa-sha2-512", "rsa-sha2-256", "ssh-rsa"], K.rsa.asbytes(), "rsa", None))
    plans.append((["ssh-rsa"], ["ssh-rsa"], K.rsa.asbytes(), "rsa", None))
    for dis in ([], ["ecdsa-sha2-nistp384"], ["ssh-ed25519"]):
        for kname, key in list(K.ec.items()) + [("ssh-ed25519", K.ed)]:
            for neg in list(K.ec) + ["ssh-ed25519", "ecdsa-sha2-nistp256" + SUFFIX, "ssh-ed25519" + SUFFIX, "rsa-sha2-512"]:
                blob = key.asbytes()
                if neg.endswith(SUFFIX) and base_name(neg) == kname and kname in K.cert:
                    blob = K.cert[kname]
                plans.append((dis, [neg], blob, "fixed", key))
    a, b = socket.socketpair()
    reqs, cases = [], []
    try:
        for dis, sl, blob, fam, key in plans:
            variants = signature_variants(K, H, fam, key)
            t = paramiko.Transport(a, disabled_algorithms={"keys": list(dis)})
            negotiated = None
            try:
                t._parse_kex_init(Message(kexinit_payload(t, sl)))
                negotiated = t.host_key_type
            except Exception as e:
                if status_of(e) != "ssh":
                    ctx.disagree("negotiation-raised", {"disabled": dis, "server": sl}, "ssh", status_of(e))
            for name, body, flags, label in variants:
                sig = s_(name) + s_(body)
                if negotiated is None:
                    impl = "none ssh"
                    parse, ident = "ok", b""
                else:
                    parse, ident, _k = parse_outcome(Transport, negotiated, blob)
                    t.H = H
                    t.host_key = None
                    try:
                        t._verify_key(blob, sig)
                        st = "ok"
                    except Exception as e:
                        st = status_of(e)
                    # the rekey situation: the same host key is already on record — the verdict must not change
                    if _k is not None:
                        t.host_key = _k
                        try:
                            t._verify_key(blob, sig)
                            st2 = "ok"
                        except Exception as e:
                            st2 = status_of(e)
                        if st2 != st:
                            if st2 == "ok":
                                ctx.fail("signature-not-checked-for-known-host-key",
                                         {"negotiated": negotiated, "blob_algorithm": name.decode("latin-1"), "signature": label},
                                         "_verify_key with the same host key already recorded: %s, fresh: %s" % (st2, st))
                            else:
                                ctx.disagree("verify_key-depends-on-recorded-host-key", {"negotiated": negotiated}, st, st2)
                        if st != "ok":
                            t.host_key = None
                    if st == "ok" and _k is not None and (t.host_key is None or t.host_key.asbytes() != _k.asbytes()):
                        ctx.fail("host-key-not-recorded", {"negotiated": negotiated}, "host_key attribute not set")
                    impl = "%s %s" % (hx(negotiated.encode()), st)
                    # ---- oracle: an accepted signature names the negotiated algorithm, which is enabled
                    if st == "ok" and (not blob or _k is None):
                        ctx.fail("host-key-signature-not-verified:empty-or-unparsed-host-key",
                                 {"negotiated": negotiated, "host_key_blob": blob.hex(), "signature": label},
                                 "_verify_key returned normally for a host key blob that is empty / does not parse")
                    elif st == "ok":
                        want = base_name(negotiated).encode()
                        if not key_own_ok(_k, base_name(negotiated)):
                            ctx.fail("key-of-another-algorithm-accepted:kex",
                                     {"negotiated": negotiated, "key": _k.get_name(), "blob_algorithm": name.decode("latin-1"),
                                      "disabled": dis, "signature": label},
                                     "_verify_key accepted a %s host key and its signature under the negotiated %r"
                                     % (_k.get_name(), negotiated))
                        if name != want or base_name(negotiated) in dis or negotiated in dis:
                            ctx.fail("sig-algo-mismatch-accepted:kex",
                                     {"negotiated": negotiated, "blob_algorithm": name.decode("latin-1"),
                                      "disabled": dis, "signature": label},
                                     "_verify_key accepted a signature whose blob names %r while %r was negotiated"
                                     % (name.decode("latin-1"), negotiated))
                reqs.append("kex %s %s %s %s %s %s" % (names_tok(dis), names_tok(sl), parse, hx(ident), flags, hx(sig)))
                cases.append(({"disabled": dis, "server": sl, "signature": label}, impl))
                ctx.case(("kex", tuple(dis), tuple(sl), name, flags, fam, blob[:40]), name != base_name(sl[0]).encode())
                ctx.dist("kex:%s:%s" % (fam, impl.split(" ")[1].split(":")[0]))
    finally:
        a.close()
        b.close()
    model = ctx.driver("C07", reqs)
    if model is not None:
        for (case, impl), m, r in zip(cases, model, reqs):
            if m != impl:
                ctx.disagree("client-kex-verify", dict(case, request=r[:300]), m, impl)
    ctx.sample({"client-cases": len(reqs), "example": reqs[17][:300], "impl": cases[17][1]})


# ------------------------------------------------------------------------------------------ server path
def session_blob(sid, user, algorithm, keyblob):
    return s_(sid) + b"\x32" + s_(user) + s_(b"ssh-connection") + s_(b"publickey") + b"\x01" + s_(algorithm) + s_(keyblob)


def server_path(ctx, K):
    import paramiko
    from paramiko.auth_handler import AuthHandler
    from paramiko.common import AUTH_FAILED, AUTH_SUCCESSFUL
    from paramiko.message import Message
    from paramiko.transport import Transport

    class Srv(paramiko.ServerInterface):
        ok = True

        def check_auth_publickey(self, username, key):
            return AUTH_SUCCESSFUL if Srv.ok else AUTH_FAILED

        def get_allowed_auths(self, username):
            return "publickey"

    sid = b"\x22" * 32
    user = b"alice"
    rsa_subsets = [list(c) for r in range(4) for c in itertools.combinations(RSA_NAMES, r)]
    plans = []  # (disabled, declared, keyblob, family, key)
    for dis in rsa_subsets:
        for decl in RSA_NAMES + [n + SUFFIX for n in RSA_NAMES]:
            plans.append((dis, decl, K.cert["rsa"] if decl.endswith(SUFFIX) else K.rsa.asbytes(), "rsa", None))
    for dis in ([], ["ecdsa-sha2-nistp384"], ["ssh-ed25519"]):
        for kname, key in list(K.ec.items()) + [("ssh-ed25519", K.ed)]:
            for decl in list(K.ec) + ["ssh-ed25519", "ecdsa-sha2-nistp256" + SUFFIX, "ssh-ed25519" + SUFFIX, "rsa-sha2-256", "ssh-dss"]:
                blob = key.asbytes()
                if decl.endswith(SUFFIX) and base_name(decl) == kname and kname in K.cert:
                    blob = K.cert[kname]
                plans.append((dis, decl, blob, "fixed", key))
    a, b = socket.socketpair()
    reqs, cases = [], []
    try:
        for dis, decl, keyblob, fam, key in plans:
            data = session_blob(sid, user, decl.encode(), keyblob)
            variants = signature_variants(K, data, fam, key)
            extra = [(None, None, "0000", "no-signature", True), (variants[0][0], variants[0][1], variants[0][2], "callback-refuses", False)]
            parse, ident, _k = parse_outcome(Transport, decl, keyblob)
            for name, body, flags, label, cb in [(v[0], v[1], v[2], v[3], True) for v in variants] + extra:
                t = paramiko.Transport(a, disabled_algorithms={"pubkeys": list(dis)})
                t.server_mode = True
                t.server_object = Srv()
                Srv.ok = cb
                t.session_id = sid
                t.remote_version = BANNERS[len(reqs) % len(BANNERS)]
                sent = []
                t._send_message = lambda m, sent=sent: sent.append(m.asbytes()[0])
                ah = AuthHandler(t)
                t.auth_handler = ah
                m = Message()
                m.add_string(user)
                m.add_string(b"ssh-connection")
                m.add_string(b"publickey")
                m.add_boolean(name is not None)
                m.add_string(decl.encode())
                m.add_string(keyblob)
                sig = None
                if name is not None:
                    sig = s_(name) + s_(body)
                    m.add_string(sig)
                m.rewind()
                try:
                    ah._parse_userauth_request(m)
                    kinds = {52: "success", 51: "failure", 60: "pkok", 1: "disconnect"}
                    impl = "+".join(kinds.get(x, str(x)) for x in sent) or "nothing"
                except Exception as e:
                    impl = "raised:" + exc_site(e)
                if ("success" in impl) != bool(ah.authenticated):
                    ctx.fail("auth-flag-inconsistent", {"declared": decl}, "sent %s authenticated=%s" % (impl, ah.authenticated))
                # ---- oracle
                if "success" in impl and _k is not None and not key_own_ok(_k, base_name(decl)):
                    ctx.fail("key-of-another-algorithm-accepted:auth",
                             {"declared": decl, "key": _k.get_name(), "disabled": dis, "signature": label,
                              "blob_algorithm": None if name is None else name.decode("latin-1")},
                             "publickey auth succeeded with a %s key and signature under the declared %r" % (_k.get_name(), decl))
                if "success" in impl:
                    want = base_name(decl).encode()
                    if name is None or name != want or base_name(decl) in dis:
                        ctx.fail("sig-algo-mismatch-accepted:auth",
                                 {"declared": decl, "blob_algorithm": None if name is None else name.decode("latin-1"),
                                  "disabled": dis, "signature": label},
                                 "publickey auth succeeded with a signature blob naming %r while %r was declared"
                                 % (None if name is None else name.decode("latin-1"), decl))
                reqs.append("auth %s %s %s %s %s %d %s" % (names_tok(dis), hx(decl.encode()), parse, hx(ident), flags,
                                                          1 if cb else 0, "none" if sig is None else hx(sig)))
                cases.append(({"disabled": dis, "declared": decl, "signature": label}, impl))
                ctx.case(("auth", tuple(dis), decl, name, flags, cb, keyblob[:40], t.remote_version), name is not None and name != base_name(decl).encode())
                ctx.dist("auth:%s:%s" % (fam, impl.split(":")[0]))
    finally:
        a.close()
        b.close()
    model = ctx.driver("C07", reqs)
    if model is not None:
        for (case, impl), m, r in zip(cases, model, reqs):
            if m != impl:
                ctx.disagree("server-publickey-auth", dict(case, request=r[:300]), m, impl)


def server_banner_matrix(ctx, K):
    """every client identification string x declared RSA algorithm x algorithm named (and used) by the signature x
    {nothing disabled, ssh-rsa disabled}: the real publickey branch, verdict independent of the banner."""
    import paramiko
    from paramiko.auth_handler import AuthHandler
    from paramiko.common import AUTH_SUCCESSFUL
    from paramiko.message import Message
    from paramiko.transport import Transport

    class Srv(paramiko.ServerInterface):
        def check_auth_publickey(self, username, key):
            return AUTH_SUCCESSFUL

        def get_allowed_auths(self, username):
            return "publickey"

    sid, user, kb = b"\x44" * 32, b"alice", K.rsa.asbytes()
    kinds = {52: "success", 51: "failure", 60: "pkok", 1: "disconnect"}
    a, b = socket.socketpair()
    reqs, cases = [], []
    try:
        for banner, decl, signed_as, dis in itertools.product(BANNERS, RSA_NAMES, RSA_NAMES, ([], ["ssh-rsa"], ["ssh-rsa", "rsa-sha2-256"])):
            data = session_blob(sid, user, decl.encode(), kb)
            body = K.rsa_body(data, signed_as)
            sig = s_(signed_as.encode()) + s_(body)
            t = paramiko.Transport(a, disabled_algorithms={"pubkeys": list(dis)})
            t.server_mode, t.server_object, t.session_id, t.remote_version = True, Srv(), sid, banner
            sent = []
            t._send_message = lambda m, sent=sent: sent.append(m.asbytes()[0])
            ah = AuthHandler(t)
            t.auth_handler = ah
            m = Message()
            for f in (user, b"ssh-connection", b"publickey"):
                m.add_string(f)
            m.add_boolean(True)
            m.add_string(decl.encode())
            m.add_string(kb)
            m.add_string(sig)
            m.rewind()
            try:
                ah._parse_userauth_request(m)
                impl = "+".join(kinds.get(x, str(x)) for x in sent) or "nothing"
            except Exception as e:
                impl = "raised:" + exc_site(e)
            case = {"client_banner": banner, "declared": decl, "signature_names_and_uses": signed_as, "disabled": dis}
            if "success" in impl and (signed_as != decl or decl in dis):
                ctx.fail("sig-algo-mismatch-accepted:auth:by-client-banner", case,
                         "a client announcing %r authenticated with a %s signature under a declared %s" % (banner, signed_as, decl))
            parse, ident, _k = parse_outcome(Transport, decl, kb)
            reqs.append("auth %s %s %s %s %s 1 %s" % (names_tok(dis), hx(decl.encode()), parse, hx(ident), K.rsa_flags(data, body), hx(sig)))
            cases.append((case, impl))
            ctx.case(("auth-banner", banner, decl, signed_as, tuple(dis)), signed_as != decl)
            ctx.dist("auth-banner:%s" % impl)
    finally:
        a.close()
        b.close()
    model = ctx.driver("C07", reqs)
    if model is not None:
        for (case, impl), mo, r in zip(cases, model, reqs):
            if mo != impl:
                ctx.disagree("server-publickey-auth-by-banner", dict(case, request=r[:200]), mo, impl)


def server_sequences(ctx, K):
    """several publickey requests on ONE connection (one real AuthHandler): an unsigned query naming algorithm A
    (answered PK_OK when A is enabled), then a signed request naming algorithm B for the same user and key — all
    pairs A, B over all disabled subsets; also a failed signed attempt first, and a query for another key first.
    A raw scripted client is required: paramiko's own client never sends the query."""
    import paramiko
    from paramiko.auth_handler import AuthHandler
    from paramiko.common import AUTH_SUCCESSFUL
    from paramiko.message import Message
    from paramiko.transport import Transport

    class Srv(paramiko.ServerInterface):
        def check_auth_publickey(self, username, key):
            return AUTH_SUCCESSFUL

        def get_allowed_auths(self, username):
            return "publickey"

    sid = b"\x33" * 32
    user = b"alice"
    names6 = RSA_NAMES + [n + SUFFIX for n in RSA_NAMES]
    rsa_subsets = [list(c) for r in range(4) for c in itertools.combinations(RSA_NAMES, r)]
    kinds = {52: "success", 51: "failure", 60: "pkok", 1: "disconnect"}

    def keyblob_of(name):
        return K.cert["rsa"] if name.endswith(SUFFIX) else K.rsa.asbytes()

    def request(decl, keyblob, sig):
        m = Message()
        m.add_string(user)
        m.add_string(b"ssh-connection")
        m.add_string(b"publickey")
        m.add_boolean(sig is not None)
        m.add_string(decl.encode())
        m.add_string(keyblob)
        if sig is not None:
            m.add_string(sig)
        m.rewind()
        return m

    def signed(decl, keyblob, blob_name=None, hash_name=None):
        data = session_blob(sid, user, decl.encode(), keyblob)
        body = K.rsa_body(data, hash_name or base_name(decl))
        name = (blob_name if blob_name is not None else base_name(decl)).encode()
        return s_(name) + s_(body), K.rsa_flags(data, body)

    plans = []  # (disabled, [(declared, keyblob, sig, flags, label)])
    for dis in rsa_subsets:
        for A, B in itertools.product(names6, names6):
            kb = keyblob_of(B)
            if keyblob_of(A) != kb:
                continue  # the sequence is about ONE key (plain with plain, cert with cert)
            sg, fl = signed(B, kb)
            plans.append((dis, [(A, kb, None, "0000", "query"), (B, kb, sg, fl, "signed")]))
        for B in RSA_NAMES:
            kb = keyblob_of(B)
            bad, flb = signed(B, kb, blob_name="ssh-dss")
            good, flg = signed(B, kb)
            plans.append((dis, [(B, kb, bad, flb, "bad-signed"), (B, kb, good, flg, "signed")]))
            other = K.ec["ecdsa-sha2-nistp256"].asbytes()
            plans.append((dis, [("rsa-sha2-512", kb, None, "0000", "query"),
                                ("rsa-sha2-512", kb, None, "0000", "query"), (B, kb, good, flg, "signed")]))
            down, fld = signed(B, kb, blob_name="ssh-rsa", hash_name="ssh-rsa")
            plans.append((dis, [("rsa-sha2-512", kb, None, "0000", "query"), (B, kb, down, fld, "sha1-signed")]))
            del other
    a, b = socket.socketpair()
    reqs, cases = [], []
    try:
        for dis, seq in plans:
            t = paramiko.Transport(a, disabled_algorithms={"pubkeys": list(dis)})
            t.server_mode = True
            t.server_object = Srv()
            t.session_id = sid
            sent = []
            t._send_message = lambda m, sent=sent: sent.append(m.asbytes()[0])
            ah = AuthHandler(t)
            t.auth_handler = ah
            outs = []
            parse, ident, _k = parse_outcome(Transport, seq[-1][0], seq[-1][1])
            for decl, kb, sg, fl, label in seq:
                n0 = len(sent)
                try:
                    ah._parse_userauth_request(request(decl, kb, sg))
                    out = "+".join(kinds.get(x, str(x)) for x in sent[n0:]) or "nothing"
                except Exception as e:
                    out = "raised:" + exc_site(e)
                outs.append(out)
                # ---- oracle: success only for a request whose OWN declared algorithm is enabled and named by its blob
                if "success" in out:
                    if sg is None or base_name(decl) in dis or blob_algo(sg) != base_name(decl).encode():
                        ctx.fail("sig-algo-mismatch-accepted:auth-after-query",
                                 {"disabled": dis, "sequence": [(x[0], x[4]) for x in seq], "accepted": decl},
                                 "request %r (%s) authenticated after %r although %r is %s"
                                 % (decl, label, [(x[0], x[4]) for x in seq[:len(outs) - 1]], base_name(decl),
                                    "disabled" if base_name(decl) in dis else "not what the blob names"))
                if "disconnect" in out or "success" in out:
                    break
            impl = "+".join(outs)
            reqs.append("authseq %s 1 %s %s %s" % (names_tok(dis), parse, hx(ident), " ".join(
                "%s %s %s" % (hx(d.encode()), fl, "none" if sg is None else hx(sg)) for d, kb, sg, fl, label in seq)))
            cases.append(({"disabled": dis, "sequence": [(x[0], x[4]) for x in seq]}, impl))
            ctx.case(("authseq", tuple(dis), tuple((x[0], x[4]) for x in seq)), True)
            ctx.dist("authseq:" + impl)
    finally:
        a.close()
        b.close()
    model = ctx.driver("C07", reqs)
    if model is not None:
        for (case, impl), m, r in zip(cases, model, reqs):
            if m != impl:
                ctx.disagree("server-publickey-sequence", dict(case, request=r[:200]), m, impl)


# ------------------------------------------------------------------------------------------ end to end
def downgrading(key, forced):
    """the same private key, but every signature is made with `forced` whatever algorithm is asked for"""
    import copy

    k = copy.copy(key)
    orig = key.sign_ssh_data
    k.sign_ssh_data = lambda data, algorithm=None: orig(data, forced)
    return k


def e2e(ctx, K):
    import paramiko
    from paramiko.common import AUTH_SUCCESSFUL

    class Srv(paramiko.ServerInterface):
        def check_auth_publickey(self, username, key):
            return AUTH_SUCCESSFUL

        def get_allowed_auths(self, username):
            return "publickey"

    L.quiet_logging()
    # --- kex: the server signs with SHA-1 although rsa-sha2-* was negotiated
    for negotiated, forced, cdis in [("rsa-sha2-512", "ssh-rsa", None), ("rsa-sha2-512", "ssh-rsa", ["ssh-rsa"]),
                                     ("rsa-sha2-256", "ssh-rsa", ["ssh-rsa"]), ("rsa-sha2-512", "rsa-sha2-256", None),
                                     ("rsa-sha2-512", "rsa-sha2-512", None)]:
        e = L.E2E("c25519", downgrading(K.rsa, forced), key_algo=negotiated)
        if cdis:
            e.tc.disabled_algorithms = {"keys": cdis}
        try:
            err = e.handshake(timeout=60)
            honest = forced == negotiated
            ctx.case(("e2e-kex", negotiated, forced, tuple(cdis or [])), not honest)
            ctx.dist("e2e-kex:%s-signed-as-%s:%s" % (negotiated, forced, "aborted" if err else "completed"))
            if honest and err is not None:
                ctx.disagree("e2e-honest-kex-failed", {"negotiated": negotiated}, "completes", repr(err))
            if not honest and (err is None or 21 in e.mitm.seen["c2s"]):
                ctx.fail("sig-algo-mismatch-accepted:kex", {"negotiated": negotiated, "blob_algorithm": forced,
                                                           "disabled": cdis, "level": "end-to-end"},
                         "client completed a key exchange whose host-key signature was made with %s" % forced)
        finally:
            e.close()
    # --- kex: a P-384 key and signature under a negotiated nistp256
    e = L.E2E("c25519", K.ec["ecdsa-sha2-nistp256"], key_algo="ecdsa-sha2-nistp256")
    e.ts.server_key_dict["ecdsa-sha2-nistp256"] = K.ec["ecdsa-sha2-nistp384"]
    try:
        err = e.handshake(timeout=60)
        ctx.case(("e2e-kex", "nistp256", "p384-key"), True)
        ctx.dist("e2e-kex:nistp256-with-p384-key:%s" % ("aborted" if err else "completed"))
        if err is None:
            ctx.fail("sig-algo-mismatch-accepted:kex", {"negotiated": "ecdsa-sha2-nistp256", "blob_algorithm":
                                                       "ecdsa-sha2-nistp384", "level": "end-to-end"},
                     "client accepted a nistp384 key and signature under a negotiated ecdsa-sha2-nistp256")
    finally:
        e.close()
    # --- kex: a P-384 host key whose signature is LABELLED nistp256 and made with SHA-256 (what the label asks for)
    import copy
    from paramiko.message import Message as _Msg

    for cdis in (None, ["ecdsa-sha2-nistp384"]):
        p384 = copy.copy(K.ec["ecdsa-sha2-nistp384"])
        p384.sign_ssh_data = lambda data, algorithm=None: _Msg(
            s_(b"ecdsa-sha2-nistp256") + s_(K.ecdsa_body(K.ec["ecdsa-sha2-nistp384"], data, "sha256")))
        e = L.E2E("c25519", K.ec["ecdsa-sha2-nistp256"], key_algo="ecdsa-sha2-nistp256")
        e.ts.server_key_dict["ecdsa-sha2-nistp256"] = p384
        if cdis:
            e.tc.disabled_algorithms = {"keys": cdis}
        try:
            err = e.handshake(timeout=60)
            ctx.case(("e2e-kex", "nistp256", "p384-key-relabelled", tuple(cdis or [])), True)
            ctx.dist("e2e-kex:nistp256-with-relabelled-p384-signature:%s" % ("aborted" if err else "completed"))
            if err is None:
                ctx.fail("key-of-another-algorithm-accepted:kex",
                         {"negotiated": "ecdsa-sha2-nistp256", "key": "ecdsa-sha2-nistp384", "blob_algorithm":
                          "ecdsa-sha2-nistp256", "disabled": cdis, "level": "end-to-end"},
                         "client accepted a nistp384 host key whose SHA-256 signature is labelled ecdsa-sha2-nistp256")
        finally:
            e.close()
    # --- auth: the client declares rsa-sha2-512 and signs with SHA-1
    for forced, sdis in [("ssh-rsa", None), ("ssh-rsa", ["ssh-rsa"]), ("rsa-sha2-256", None), ("rsa-sha2-512", None)]:
        e = L.E2E("c25519", K.ed)
        if sdis:
            e.ts.disabled_algorithms = {"pubkeys": sdis}
        try:
            import threading

            ev = threading.Event()
            e.ts.start_server(event=ev, server=Srv())
            e.tc.start_client(timeout=60)
            try:
                e.tc.auth_publickey("alice", downgrading(K.rsa, forced))
                res = "authenticated"
            except paramiko.AuthenticationException:
                res = "refused"
            except Exception as ex:
                res = "error:" + type(ex).__name__
            honest = forced == "rsa-sha2-512"
            ctx.case(("e2e-auth", forced, tuple(sdis or [])), not honest)
            ctx.dist("e2e-auth:declared-rsa-sha2-512-signed-%s:%s" % (forced, res))
            if honest and res != "authenticated":
                ctx.disagree("e2e-honest-auth-failed", {"forced": forced}, "authenticated", res)
            if not honest and (res == "authenticated" or e.ts.is_authenticated()):
                ctx.fail("sig-algo-mismatch-accepted:auth", {"declared": "rsa-sha2-512", "blob_algorithm": forced,
                                                            "disabled": sdis, "level": "end-to-end"},
                         "server authenticated a client whose signature was made with %s" % forced)
        finally:
            e.close()


def e2e_raw_client(ctx, K):
    """end to end with a RAW scripted client (real transports, real server AuthHandler inside Transport.run):
    service request, an unsigned publickey query naming an enabled algorithm, then a signed request for the same
    key naming (and signed with) another algorithm."""
    import queue
    import threading
    import paramiko
    from paramiko.common import AUTH_SUCCESSFUL
    from paramiko.message import Message
    from pv.core import InfraError

    class Srv(paramiko.ServerInterface):
        def check_auth_publickey(self, username, key):
            return AUTH_SUCCESSFUL

        def get_allowed_auths(self, username):
            return "publickey"

    class Raw:
        def __init__(self):
            self.q = queue.Queue()
            self._handler_table = {t: (lambda m, t=t: self.q.put(t)) for t in range(5, 80)}

        def abort(self):
            self.q.put(None)

    def msg(user, decl, keyblob, sig):
        m = Message()
        m.add_byte(b"\x32")
        m.add_string(user)
        m.add_string(b"ssh-connection")
        m.add_string(b"publickey")
        m.add_boolean(sig is not None)
        m.add_string(decl.encode())
        m.add_string(keyblob)
        if sig is not None:
            m.add_string(sig)
        return m

    kb = K.rsa.asbytes()
    for sdis, query, decl in [(["ssh-rsa"], "rsa-sha2-512", "ssh-rsa"), (["rsa-sha2-256"], "rsa-sha2-512", "rsa-sha2-256"),
                              (["ssh-rsa", "rsa-sha2-256"], "rsa-sha2-512", "rsa-sha2-256"), (["ssh-rsa"], "rsa-sha2-256", "rsa-sha2-512"),
                              ([], "rsa-sha2-512", "ssh-rsa")]:
        e = L.E2E("c25519", K.ed)
        e.ts.disabled_algorithms = {"pubkeys": list(sdis)}
        case = {"server_disabled_pubkeys": sdis, "query": query, "signed_request": decl, "level": "end-to-end raw client"}
        try:
            e.ts.start_server(event=threading.Event(), server=Srv())
            e.tc.start_client(timeout=60)
            raw = Raw()
            e.tc.auth_handler = raw
            m = Message()
            m.add_byte(b"\x05")
            m.add_string(b"ssh-userauth")
            e.tc._send_message(m)
            seen = []

            def wait_for(types):
                while True:
                    try:
                        t = raw.q.get(timeout=60)
                    except queue.Empty:
                        raise InfraError("C07: no reply from the server within 60 s")
                    seen.append(t)
                    if t is None or t in types:
                        return t

            if wait_for({6}) != 6:
                ctx.disagree("raw-client-service-request", case, "SERVICE_ACCEPT", repr(seen))
                continue
            e.tc._send_message(msg(b"alice", query, kb, None))
            r1 = wait_for({60, 51, 1})
            data = session_blob(e.tc.session_id, b"alice", decl.encode(), kb)
            sig = s_(base_name(decl).encode()) + s_(K.rsa_body(data, base_name(decl)))
            r2 = None
            if r1 == 60:
                e.tc._send_message(msg(b"alice", decl, kb, sig))
                r2 = wait_for({52, 51, 1})
            authed = e.ts.is_authenticated() or r2 == 52
            ctx.case(("e2e-raw", tuple(sdis), query, decl), True)
            ctx.dist("e2e-raw:query-%s-then-%s:%s" % (query, decl, {52: "authenticated", 51: "failure", 1: "disconnect", None: "closed"}.get(r2, r2)))
            enabled = base_name(decl) not in sdis
            if authed and not enabled:
                ctx.fail("sig-algo-mismatch-accepted:auth-after-query", case,
                         "server authenticated a request declaring and signed with the disabled %r after answering PK_OK to a query for %r"
                         % (decl, query))
            if enabled and r1 == 60 and not authed:
                ctx.disagree("raw-client-honest-sequence-refused", case, "authenticated", repr(seen))
        finally:
            e.close()


def run(ctx):
    ctx.rule = ("EXHAUSTIVE over: 8 disabled subsets of {ssh-rsa, rsa-sha2-256, rsa-sha2-512} x 6 negotiated/declared RSA "
                "names (plain + cert, cert blobs from the bundled certificates) x 12 blob algorithm names (the 3 RSA names, "
                "their cert forms, empty, foreign, non-UTF-8, case/space variants) x 4 signature bodies (made with SHA-1, "
                "SHA-256, SHA-512, over other data) on BOTH real paths (_parse_kex_init + _verify_key; "
                "_parse_userauth_request); ECDSA P-256/384/521 and Ed25519 keys x 8-9 negotiated/declared names x 10 blob "
                "names x bodies (the key's own signature, over other data, and made with SHA-256/384/512 whatever the curve) x 3 "
                "disabled sets — accept only if declared = label = the key's OWN algorithm; RSA bodies also with octets "
                "prepended/appended inside the signature string; request SEQUENCES on one real AuthHandler (unsigned query naming A, "
                "then signed request naming B, all 18 same-key pairs x 8 disabled subsets; failed attempt then good one; "
                "two queries then signed; SHA-1-signed after a query); the client's identification string as a dimension (12 "
                "banners incl. OpenSSH 6.6/7.2/7.4/7.7/7.8/8.9, PuTTY, dropbear x declared x signed-as x 3 disabled sets, and "
                "rotated through the whole matrix and through a raw scripted client end to end; plus no-signature and callback-refuses requests, seeded "
                "disabled sets for preferred_keys/pubkeys, replace() strings. non-trivial = blob name differs from the "
                "negotiated/declared base name")
    ctx.exhaustive = True
    ctx.trust("cryptography RSA PKCS1v15 / ECDSA, nacl Ed25519: the library's verdict is a parameter of the model",
              "key-blob parsing by the key classes (C35/C36) is a parameter of the model")
    ctx.build()
    K = Keys()
    source_facts(ctx)
    tables(ctx)
    client_path(ctx, K)
    server_path(ctx, K)
    server_banner_matrix(ctx, K)
    server_sequences(ctx, K)
    e2e(ctx, K)
    e2e_raw_client(ctx, K)


META = {
    "claimed": True,
    "level": ("FULL (after the fix). Proved in Lean for every algorithm table, key, signature blob and every verdict of "
              "the crypto library: Transport._verify_key returns normally only if the blob's algorithm name equals the "
              "negotiated host-key algorithm with its cert suffix stripped; with the client's negotiation in front, the "
              "negotiated name is in preferred_keys, not disabled and offered by the server; for paramiko's own table "
              "the name carried by an accepted signature is one of the seven defaults and not disabled; for RSA the "
              "hash handed to the library is the negotiated algorithm's; ECDSA/Ed25519 keys are accepted only under "
              "their own name. Server: publickey auth succeeds only with a signature whose blob names the declared "
              "algorithm (cert stripped), which is in preferred_pubkeys (default and not disabled), after the callback "
              "accepted the key; this holds for any SEQUENCE of requests on one connection (session_success: queries "
              "answered PK_OK, failed attempts and signed requests in any order never widen what is accepted). "
              "A witness theorem shows the unrepaired logic accepted rsa-sha2-512/ssh-rsa. Tied to "
              "the real _parse_kex_init+_verify_key and _parse_userauth_request by an exhaustive differential run."),
    "note": ("Parameters (trusted): the crypto library's verify verdict, key-blob parsing by the key classes, the "
             "server's check_auth_publickey callback. The client-side choice of the DECLARED algorithm "
             "(_finalize_pubkey_algorithm / server-sig-algs) is not part of this property. Trusted: Lean kernel + 3 "
             "axioms, harness."),
    "technique": "Lean 4 proof (decision logic, all tables) + exhaustive differential correspondence on both real verify paths",
}
