"""C05 — Algorithm negotiation picks the client's first mutually supported algorithm.

Model: lean/PV/Model/Negotiate.lean; theorems: lean/PV/Props/C05.lean; driver: lean/Driver/C05.lean;
tables regenerated from the source: lean/PV/Generated/C05.lean.

Correspondence: the real Transport._send_kex_init and Transport._parse_kex_init on socket-less transports (both
roles), configured through the public knobs (disabled_algorithms, SecurityOptions, add_server_key, strict_kex, a
modulus pack or none) — each fed the KEXINIT the other one really produced, for two rounds (initial kex + rekey) —
and a separate stream where a real transport is fed a hand-built KEXINIT with unknown names, empty lists, duplicates
and marker pseudo-algorithms in odd positions.  Compared with the Lean model: new _preferred_kex, the eight
advertised lists in wire form, the agreed tuple / exception class, _remote_ext_info, agreed_on_strict_kex.
Oracle (model-independent, own KEXINIT parser): on BOTH real objects the agreed tuple equals first-common of the
lists actually on the wire (markers removed), IncompatiblePeer iff some category has no common name, nothing
selected or advertised that the local side disabled, no marker ever selected.
"""
from pv import lib_kdf
from pv.core import exc_site

CATS = ("kex", "keys", "ciphers", "macs", "compression")
MARKERS = ["ext-info-c", "ext-info-s", "kex-strict-c-v00@openssh.com", "kex-strict-s-v00@openssh.com",
           "ext-info-", "kex-strict-", "kex-strict-x-v00@openssh.com", "ext-info-c2"]
UNKNOWN = ["foo", "none@example.org", "aes128-ctr ", "x" * 70, "sntrup761x25519-sha512@openssh.com",
           "chacha20-poly1305@openssh.com", "umac-64@openssh.com", "ssh-dss", "zlib@example", "-", "~", "EXT-INFO-C",
           "curve25519-sha256", "ext_info_c", "élève"]
CERT = "-cert-v01@openssh.com"
# names SecurityOptions must refuse; also offered by hostile peers (all are members of UNKNOWN or plausible peers' lists)
REFUSED_POOL = ["foo", "sntrup761x25519-sha512@openssh.com", "chacha20-poly1305@openssh.com", "umac-64@openssh.com",
                "ssh-dss", "zlib@example", "curve25519-sha256"]
SETTER = {"kex": "kex", "keys": "key_types", "ciphers": "ciphers", "macs": "digests", "compression": "compression"}
PREF_ATTR = {"kex": "_preferred_kex", "keys": "_preferred_keys", "ciphers": "_preferred_ciphers",
             "macs": "_preferred_macs", "compression": "_preferred_compression"}
INFO = {}  # category -> table keys of the tree under test (filled by run)


def is_marker(n):
    return n.startswith("ext-info-") or n.startswith("kex-strict-")


def cfg_tok(names):
    return "~" if not names else ",".join(names).encode("utf-8").hex()


def wire_tok(names):
    s = ",".join(names).encode("utf-8")
    return s.hex() if s else "-"


def un_wire(tok):
    return (b"" if tok == "-" else bytes.fromhex(tok)).decode("utf-8").split(",")


def un_name(tok):
    return (b"" if tok == "-" else bytes.fromhex(tok)).decode("utf-8")


class Side:
    """harness-side description of one transport's negotiation-relevant configuration"""

    def __init__(self, server):
        self.server = server
        self.pref = {c: None for c in CATS}  # None = class default
        self.dis = {}
        self.server_keys = []  # names in insertion order
        self.moduli = False
        self.strict = True
        self.agreed_strict = False
        self.initial_done = False
        self.monkey_kex = None  # _preferred_kex assigned directly (may hold unknown names)
        self.refused = []  # [(category, tuple)] assignments that SecurityOptions must refuse (ValueError, caught)

    def tokens(self, T, pref_kex=None):
        d = {"kex": T._preferred_kex, "keys": T._preferred_keys, "ciphers": T._preferred_ciphers,
             "macs": T._preferred_macs, "compression": T._preferred_compression}
        p = {c: list(self.pref[c] if self.pref[c] is not None else d[c]) for c in CATS}
        if self.monkey_kex is not None:
            p["kex"] = list(self.monkey_kex)
        if pref_kex is not None:
            p["kex"] = list(pref_kex)
        return " ".join(["s" if self.server else "c", "1" if self.moduli else "0", "1" if self.strict else "0",
                         "1" if self.agreed_strict else "0", "1" if self.initial_done else "0"]
                        + [cfg_tok(p[c]) for c in CATS]
                        + [cfg_tok(list(self.dis.get(c, []))) for c in CATS]
                        + [cfg_tok(self.server_keys)])

    def describe(self):
        return {"server": self.server, "pref": {c: v for c, v in self.pref.items() if v is not None},
                "disabled": self.dis, "server_keys": self.server_keys, "moduli": self.moduli, "strict": self.strict,
                "monkey_kex": self.monkey_kex, "refused_assignments": self.refused}

    def current(self, T, c):
        d = {"kex": T._preferred_kex, "keys": T._preferred_keys, "ciphers": T._preferred_ciphers,
             "macs": T._preferred_macs, "compression": T._preferred_compression}
        return list(self.pref[c] if self.pref[c] is not None else d[c])

    def add_refused(self, rng, T, c, bogus):
        x = self.current(T, c)
        x.insert(0 if rng.random() < 0.7 else rng.randrange(len(x) + 1), bogus)
        self.refused.append((c, x))

    def refused_names(self, c):
        return {n for cc, x in self.refused if cc == c for n in x if n not in INFO.get(c, ())}


def rand_subset(rng, names, keep_prob):
    return [n for n in names if rng.random() < keep_prob]


def gen_side(rng, T, server, hostkeys):
    info = {"kex": list(T._kex_info), "keys": list(T._key_info), "ciphers": list(T._cipher_info),
            "macs": list(T._mac_info), "compression": list(T._compression_info)}
    s = Side(server)
    wild = rng.random() < 0.3  # most configurations stay close to the defaults so that agreement is the common case
    for c in CATS:
        r = rng.random()
        if r < (0.45 if wild else 0.7) or (c == "compression" and not wild and r < 0.9):
            continue  # class default
        names = list(info[c])
        if c == "kex" and rng.random() < 0.7:
            names = [n for n in names if not n.startswith("gss-")]
        if c == "keys" and rng.random() < 0.8:
            names = [n for n in names if not n.endswith(CERT)]
        sub = rand_subset(rng, names, rng.choice([0.3, 0.6, 0.9, 1.0] if wild else [0.7, 0.9, 1.0]))
        rng.shuffle(sub)
        if rng.random() < 0.03 and wild:
            sub = []
        s.pref[c] = sub
    if rng.random() < 0.8:
        for c in CATS:
            if rng.random() < (0.55 if wild else 0.4):
                pool = list(info[c])
                sub = rand_subset(rng, pool, rng.choice([0.1, 0.1, 0.3, 0.6, 0.95] if wild else [0.1, 0.2, 0.3]))
                if rng.random() < 0.15:
                    sub.append(rng.choice(UNKNOWN + MARKERS))
                rng.shuffle(sub)
                s.dis[c] = sub
    if rng.random() < 0.25:  # gex first / early: the group-exchange rule matters
        cur = list(s.pref["kex"] if s.pref["kex"] is not None else T._preferred_kex)
        gex = [n for n in info["kex"] if n.startswith("diffie-hellman-group-exchange-sha")]
        rng.shuffle(gex)
        gex = gex[: rng.randrange(1, 3)]
        cur = [n for n in cur if n not in gex]
        pos = rng.choice([0, 0, 1, 2])
        s.pref["kex"] = cur[:pos] + gex + cur[pos:]
    s.moduli = rng.random() < 0.5
    s.strict = rng.random() < 0.8
    if server:
        kinds = [k for k in hostkeys if rng.random() < 0.6] or [rng.choice(list(hostkeys))]
        rng.shuffle(kinds)
        for k in kinds:
            names = [hostkeys[k].get_name()]
            if k == "rsa":
                names += ["rsa-sha2-256", "rsa-sha2-512"]
            for n in names:
                if n not in s.server_keys:
                    s.server_keys.append(n)
        s._real_keys = kinds
        s._extra_keys = []
        if rng.random() < 0.25:  # a server holding key types this test tree has no key file for (incl. certificates)
            for n in rand_subset(rng, info["keys"], 0.2):
                if n not in s.server_keys:
                    s.server_keys.append(n)
                    s._extra_keys.append(n)
    if rng.random() < 0.02:
        s.monkey_kex = list(s.pref["kex"] if s.pref["kex"] is not None else T._preferred_kex)
        s.monkey_kex.insert(rng.randrange(len(s.monkey_kex) + 1), rng.choice(UNKNOWN[:4]))
    elif rng.random() < 0.2:  # "try an optional algorithm, catch ValueError, carry on"
        for _ in range(rng.choice([1, 1, 2])):
            s.add_refused(rng, T, rng.choice(CATS), rng.choice(REFUSED_POOL))
    return s


def build_real(paramiko, s, hostkeys, sock=None, pack=None, dis_dict=None):
    if dis_dict is None:
        dis_dict = {c: list(v) for c, v in s.dis.items()}
    kw = dict(disabled_algorithms=dis_dict, strict_kex=s.strict)
    if sock is None:
        t = lib_kdf.bare_transport(paramiko, server_mode=s.server, **kw)
    else:  # a real transport over a (loop) socket; start_server()/start_client() set the role
        t = paramiko.Transport(sock, **kw)
    opts = t.get_security_options()
    if s.pref["kex"] is not None:
        opts.kex = tuple(s.pref["kex"])
    if s.pref["keys"] is not None:
        opts.key_types = tuple(s.pref["keys"])
    if s.pref["ciphers"] is not None:
        opts.ciphers = tuple(s.pref["ciphers"])
    if s.pref["macs"] is not None:
        opts.digests = tuple(s.pref["macs"])
    if s.pref["compression"] is not None:
        opts.compression = tuple(s.pref["compression"])
    if s.monkey_kex is not None:
        t._preferred_kex = tuple(s.monkey_kex)
    t._pv_refusal_missing = []
    for c, x in s.refused:
        try:
            setattr(opts, SETTER[c], tuple(x))
        except ValueError:
            continue
        t._pv_refusal_missing.append((c, x))
    if s.server:
        for k in s._real_keys:
            t.add_server_key(hostkeys[k])
        for n in s._extra_keys:
            t.server_key_dict[n] = hostkeys["ed25519"]
        assert list(t.server_key_dict.keys()) == s.server_keys
    # instance attribute: the class-level pack (shared by every transport in the process) stays untouched
    t._modulus_pack = (pack if pack is not None else object()) if s.moduli else None
    return t


def end_to_end(ctx, paramiko, c, s, hostkeys, pack, kex_names):
    """A real handshake between two configured transports over tests._loop.LoopSocket; what each side's
    _parse_kex_init agreed on (captured when it returns) vs first-common of the KEXINITs that were on the wire."""
    import threading
    from tests._loop import LoopSocket
    from pv.core import InfraError

    socks, sockc = LoopSocket(), LoopSocket()
    sockc.link(socks)
    tc = build_real(paramiko, c, hostkeys, sock=sockc, pack=pack)
    ts = build_real(paramiko, s, hostkeys, sock=socks, pack=pack)
    rec = {}

    def wrap(t, role):
        orig = t._parse_kex_init

        def w(m):
            remote = b"\x14" + m.asbytes()  # the peer's KEXINIT exactly as it arrived
            try:
                orig(m)
            except Exception as e:
                rec[role] = ("err", type(e).__name__, t.local_kex_init, remote)
                raise
            rec[role] = ("ok", [kex_names.get(type(t.kex_engine), "?"), t.host_key_type, t.local_cipher,
                                t.remote_cipher, t.local_mac, t.remote_mac, t.local_compression,
                                t.remote_compression], t.local_kex_init, remote)

        t._parse_kex_init = w

    wrap(tc, "c")
    wrap(ts, "s")
    evc, evs = threading.Event(), threading.Event()
    case = {"client": c.describe(), "server": s.describe(), "end_to_end": True}
    try:
        ts.start_server(event=evs, server=paramiko.ServerInterface())
        tc.start_client(event=evc)
        if not (evc.wait(90) and evs.wait(90)):
            raise InfraError("end-to-end handshake did not finish within 90 s: %r" % (case,))
        active = (tc.is_active(), ts.is_active())
        excs = (tc.get_exception(), ts.get_exception())
    finally:
        tc.close()
        ts.close()
    # a side that refuses closes the connection, possibly before the other one has parsed anything: either
    # side's record holds both KEXINITs (its own and the peer's as received)
    own = {}
    if "c" in rec and rec["c"][2]:
        own["c"], own["s"] = own_parse_kexinit(rec["c"][2]), own_parse_kexinit(rec["c"][3])
    if "s" in rec and rec["s"][2]:
        own["s"], own["c"] = own_parse_kexinit(rec["s"][2]), own_parse_kexinit(rec["s"][3])
    if "c" not in own or "s" not in own:
        ctx.fail("end-to-end:no-kexinit-exchanged", case, "records %r exceptions %r" % (rec, excs))
        return
    spec = spec_tuple(own["c"], own["s"])
    case.update(client_kexinit=own["c"], server_kexinit=own["s"])
    ctx.case(("e2e", repr(own["c"]), repr(own["s"])), True)
    compatible = all(x is not None for x in spec)
    ctx.dist("end-to-end:" + ("agreed" if compatible else "incompatible"))
    if compatible:
        for role, srv, side in (("c", False, c), ("s", True, s)):
            r = rec.get(role)
            if r is None:
                continue  # the peer gave up first (reported for the peer)
            if r[0] != "ok":
                ctx.fail(classify(case, srv, side, None, spec, "incompatible-but-common-exists"), case,
                         "%s raised %s during a real handshake; first-common = %r" % (role, r[1], spec))
            elif canon_view(srv, r[1]) != spec:
                i = next(k for k in range(8) if canon_view(srv, r[1])[k] != spec[k])
                ctx.fail(classify(case, srv, side, i, spec, "not-first-common"), case,
                         "%s agreed %r in a real handshake, first-common = %r" % (role, canon_view(srv, r[1]), spec))
        if all(r in rec and rec[r][0] == "ok" for r in "cs") and not all(active):
            ctx.fail("end-to-end:handshake-failed-after-agreement", case, "active=%r exceptions=%r" % (active, excs))
    else:
        if any(v[0] == "ok" for v in rec.values()) or all(active):
            ctx.fail("no-common-algorithm-but-agreed:end-to-end", case, "records %r active %r" % (
                {r: v[:2] for r, v in rec.items()}, active))


def own_parse_kexinit(data):
    """independent KEXINIT parser: bytes (incl. the type byte) -> eight name lists"""
    assert data[0] == 20
    pos = 17
    out = []
    for _ in range(8):
        n = int.from_bytes(data[pos:pos + 4], "big")
        pos += 4
        txt = data[pos:pos + n].decode("utf-8")
        out.append(txt.split(",") if txt else [])  # RFC 4251: the empty name-list has no names
        pos += n
    return out


def build_kexinit(paramiko, lists, rng):
    m = paramiko.Message()
    m.add_bytes(rng.randbytes(16))
    for l in lists:
        m.add_string(",".join(l).encode("utf-8"))
    m.add_string(b"")
    m.add_string(b"")
    m.add_boolean(False)
    m.add_int(0)
    return m.asbytes()


def real_send(t):
    """-> ('ok', pref_kex', [8 lists]) | ('err', kind) | ('raise', site, repr)"""
    n0 = len(t.packetizer.sent)
    try:
        t._send_kex_init()
    except ValueError as e:
        return ("err", "valueError", exc_site(e))
    except Exception as e:
        return ("raise", exc_site(e), repr(e))
    data = t.packetizer.sent[-1]
    assert len(t.packetizer.sent) == n0 + 1
    return ("ok", list(t._preferred_kex), own_parse_kexinit(data), data)


def real_parse(paramiko, t, payload, seqno, kex_names):
    m = paramiko.Message(payload)
    m.seqno = seqno
    try:
        t._parse_kex_init(m)
    except paramiko.ssh_exception.IncompatiblePeer:
        return ("err", "incompatible")
    except paramiko.ssh_exception.MessageOrderError:
        return ("err", "messageOrder")
    except KeyError as e:
        return ("err", "keyError")
    except Exception as e:
        return ("raise", exc_site(e), repr(e))
    kex = kex_names.get(type(t.kex_engine), "?" + type(t.kex_engine).__name__)
    return ("ok", bool(t.agreed_on_strict_kex),
            [kex, t.host_key_type, t.local_cipher, t.remote_cipher, t.local_mac, t.remote_mac,
             t.local_compression, t.remote_compression], t._remote_ext_info)


def show_send(r):
    if r[0] == "ok":
        return "ok " + cfg_tok(r[1]) + " " + " ".join(wire_tok(l) for l in r[2])
    if r[0] == "err":
        return "err " + r[1]
    return "raise " + r[1]


def show_parse(r):
    if r[0] == "ok":
        return "ok %d %s %s" % (1 if r[1] else 0, " ".join(wire_tok([x]) for x in r[2]),
                                "none" if r[3] is None else wire_tok([r[3]]))
    if r[0] == "err":
        return "err " + r[1]
    return "raise " + r[1]


def first_common(client, server):
    for x in client:
        if x in server:
            return x
    return None


def spec_tuple(client_lists, server_lists):
    """RFC 4253 section 7.1 on the lists as they are on the wire; order: kex, hostkey, c2s enc, s2c enc, c2s mac,
    s2c mac, c2s comp, s2c comp"""
    out = []
    for i in range(8):
        c, s = client_lists[i], server_lists[i]
        if i == 0:
            c = [x for x in c if not is_marker(x)]
            s = [x for x in s if not is_marker(x)]
        out.append(first_common(c, s))
    return out


def canon_view(role_server, got):
    """agreed list as stored (kex, hostkey, local/remote cipher, mac, comp) -> wire order (c2s before s2c)"""
    kex, hk, lc, rc, lm, rm, lz, rz = got
    if role_server:  # a server's local = s2c
        return [kex, hk, rc, lc, rm, lm, rz, lz]
    return [kex, hk, lc, rc, lm, rm, lz, rz]


CAT_OF = ["kex", "keys", "ciphers", "ciphers", "macs", "macs", "compression", "compression"]
LABEL = ["kex", "hostkey", "cipher-c2s", "cipher-s2c", "mac-c2s", "mac-s2c", "comp-c2s", "comp-s2c"]


def oracle_one(ctx, case, role_server, side, res, spec, own_lists):
    """the property on one real object.  `spec` = first-common tuple of the lists on the wire."""
    role = "server" if role_server else "client"
    if res[0] == "raise":
        ctx.fail("negotiation-raises:" + res[1], case, res[2])
        return
    if res[0] == "err" and res[1] == "keyError" and side.monkey_kex is None:
        ctx.fail("kex-outside-table-agreed" + (":refused-name" if side.refused_names("kex") else ""), case,
                 "%s: the agreed kex is not a key of _kex_info (KeyError) although its preferences were only ever set "
                 "through SecurityOptions; refused: %r" % (role, sorted(side.refused_names("kex"))))
        return
    if res[0] == "err" and res[1] in ("messageOrder", "keyError"):
        return  # strict-kex ordering is C09's subject; keyError only with monkeypatched tables
    if side.monkey_kex is None:  # nothing outside the tables (or refused by SecurityOptions) is ever offered
        for i in range(8):
            table = INFO[CAT_OF[i]]
            for n in own_lists[i]:
                ok = n in table or (i == 0 and is_marker(n)) or \
                    (i == 1 and n.endswith(CERT) and n[:-len(CERT)] in table)
                if not ok:
                    sig = "refused-name-advertised:" if n in side.refused_names(CAT_OF[i]) else \
                        "name-outside-table-advertised:"
                    ctx.fail(sig + CAT_OF[i], case, "%s advertises %r" % (role, n))
                    break
    want_fail = any(x is None for x in spec)
    if res[0] == "err":
        if not want_fail:
            # which category did this side refuse?
            ctx.fail(classify(case, role_server, side, None, spec, "incompatible-but-common-exists"), case,
                     "%s raised IncompatiblePeer although every category has a common algorithm: %r" % (role, spec))
        return
    view = canon_view(role_server, res[2])
    if want_fail:
        ctx.fail("no-common-algorithm-but-agreed:" + role, case,
                 "%s agreed %r, but first-common = %r" % (role, view, spec))
        return
    for i in range(8):
        if view[i] != spec[i]:
            ctx.fail(classify(case, role_server, side, i, spec, "not-first-common"), case,
                     "%s %s: agreed %r, first-common of the advertised lists is %r" % (role, LABEL[i], view[i], spec[i]))
    for i in range(8):
        if view[i] in side.dis.get(CAT_OF[i], []):
            ctx.fail("disabled-algorithm-selected:%s%s" % (CAT_OF[i], ":cert-variant" if view[i].endswith(CERT) else ""),
                     case, "%s selected %r which its disabled_algorithms[%r] lists" % (role, view[i], CAT_OF[i]))
        if is_marker(view[i]):
            ctx.fail("marker-selected:" + LABEL[i], case, "%s selected pseudo-algorithm %r" % (role, view[i]))
        table = INFO[CAT_OF[i]]
        if side.monkey_kex is None and not (view[i] in table or
                                            (i == 1 and view[i].endswith(CERT) and view[i][:-len(CERT)] in table)):
            sig = "refused-name-agreed:" if view[i] in side.refused_names(CAT_OF[i]) else "name-outside-table-agreed:"
            ctx.fail(sig + CAT_OF[i], case, "%s agreed on %r which is not in its %s table" % (role, view[i], CAT_OF[i]))
    for i in range(8):
        for n in own_lists[i]:
            # (a marker pseudo-algorithm is not an algorithm: strict_kex / ext-info are not governed by disabled_algorithms)
            if n in side.dis.get(CAT_OF[i], []) and n != "" and not (i == 0 and is_marker(n)):
                ctx.fail("disabled-algorithm-advertised:%s%s" % (CAT_OF[i], ":cert-variant" if n.endswith(CERT) else ""),
                         case, "%s advertises %r which its disabled_algorithms[%r] lists" % (role, n, CAT_OF[i]))
                return


def classify(case, role_server, side, i, spec, what):
    """semantic signature of a disagreement with the RFC rule"""
    role = "server" if role_server else "client"
    if role_server and not side.moduli and spec[0] is not None and \
            spec[0].startswith("diffie-hellman-group-exchange-sha") and (i in (0, None)):
        return "kex-advertised-not-accepted:group-exchange-without-moduli"
    return "%s:%s:%s" % (what, LABEL[i] if i is not None else "any", role)


def run(ctx):
    import paramiko
    from tests._util import _support

    T = paramiko.Transport
    rng = ctx.rng
    ctx.rule = ("pairs of (client, server) configurations: preference lists = class default or a random subset/order set "
                "through SecurityOptions, disabled_algorithms = random subsets (plus unknown/marker names), server host "
                "keys = random subset of rsa/ecdsa/ed25519 (+ names without a key file, incl. certificates), modulus pack "
                "present or not, strict_kex on/off; both real transports exchange their real KEXINITs, twice (initial + "
                "rekey). Second stream: one real transport vs a hand-built KEXINIT (unknown names, empty lists, "
                "duplicates, markers anywhere, any seqno). distinct = distinct (configs, KEXINIT lists); non-trivial = "
                "at least one side deviates from the defaults and every category was evaluated")
    ctx.trust("Message.add_list/get_list = Wire.joinComma/splitComma (tied by the C39 check)",
              "UTF-8 decoding of names (model compares the encoded bytes)")
    ctx.assume("preference lists only hold names of the *_info tables (SecurityOptions enforces it; direct assignment of "
               "_preferred_* with foreign names is outside the property — modelled, compared, not judged)",
               "GSS-API key exchange (gss_kex=True) is not exercised: no GSS library in the sandbox")
    ctx.write_generated("C05", lib_kdf.gen_c05(T))
    ctx.build()

    hostkeys = {"rsa": paramiko.RSAKey.from_private_key_file(_support("rsa.key")),
                "ecdsa": paramiko.ECDSAKey.from_private_key_file(_support("ecdsa-256.key")),
                "ed25519": paramiko.Ed25519Key.from_private_key_file(_support("ed25519.key"))}
    kex_names = {cls: name for name, cls in T._kex_info.items()}
    info = {"kex": list(T._kex_info), "keys": list(T._key_info), "ciphers": list(T._cipher_info),
            "macs": list(T._mac_info), "compression": list(T._compression_info)}
    INFO.clear()
    INFO.update(info)

    # ------------------------------------------------------------------ SecurityOptions assignments (accepted and refused)
    n_set = 4000 if ctx.thorough else 400
    set_cases, set_reqs = [], []
    for i in range(n_set):
        side = gen_side(rng, T, rng.random() < 0.5, hostkeys)
        side.monkey_kex, side.refused = None, []
        c = CATS[i % 5]
        x = rand_subset(rng, info[c], rng.choice([0.2, 0.6, 1.0]))
        rng.shuffle(x)
        if i % 2:
            for _ in range(rng.choice([1, 1, 2])):
                x.insert(rng.randrange(len(x) + 1), rng.choice(UNKNOWN + MARKERS + REFUSED_POOL))
        set_cases.append((side, c, x))
        set_reqs.append("set %s %s %s" % (side.tokens(T), c, cfg_tok(x)))
    model_set = ctx.driver("C05", set_reqs)
    for i, (side, c, x) in enumerate(set_cases):
        t = build_real(paramiko, side, hostkeys)
        before = {cc: list(getattr(t, PREF_ATTR[cc])) for cc in CATS}
        case = {"side": side.describe(), "category": c, "assigned": x}
        try:
            setattr(t.get_security_options(), SETTER[c], tuple(x))
            raised = False
        except ValueError:
            raised = True
        except Exception as e:
            ctx.fail("setter-raises:" + exc_site(e), case, repr(e))
            continue
        after = {cc: list(getattr(t, PREF_ATTR[cc])) for cc in CATS}
        impl = ("raised " if raised else "ok ") + " ".join(cfg_tok(after[cc]) for cc in CATS)
        ctx.case(("set", c, repr(x), repr(before)), True)
        ctx.dist("setter:%s:%s" % (c, "refused" if raised else "accepted"))
        if model_set is not None and model_set[i] != impl:
            ctx.disagree("SecurityOptions.%s = ..." % SETTER[c], case, model_set[i], impl)
        bad = [n for n in x if n not in info[c]]
        if raised != bool(bad):
            ctx.fail("setter-validation:" + c, case, "raised=%r but names outside the table: %r" % (raised, bad))
        if raised and after != before:
            ctx.fail("setter-half-updated:" + c, case,
                     "ValueError was raised but the transport changed: %r -> %r" % (before[c], after[c]))
        if not raised and (after[c] != x or any(after[cc] != before[cc] for cc in CATS if cc != c)):
            ctx.fail("setter-wrong-state:" + c, case, "after an accepted assignment: %r" % (after,))

    n_pairs = 30000 if ctx.thorough else 1500
    n_arb = 30000 if ctx.thorough else 1500

    # ------------------------------------------------------------------ build all cases, round-1 sends
    pairs = []
    for i in range(n_pairs):
        c, s = gen_side(rng, T, False, hostkeys), gen_side(rng, T, True, hostkeys)
        if i < 40:  # the corner the design probes found: moduli-less server, client prefers group exchange
            c, s = Side(False), Side(True)
            s.server_keys, s._real_keys, s._extra_keys = ["ssh-ed25519"], ["ed25519"], []
            s.moduli = i % 4 == 3
            gex = ["diffie-hellman-group-exchange-sha256", "diffie-hellman-group-exchange-sha1"][: 1 + i % 2]
            rest = [n for n in T._preferred_kex if n not in gex]
            c.pref["kex"] = (gex + rest) if i % 3 else rest[:2] + gex + rest[2:]
            if i % 5 == 0:
                s.dis["kex"] = rest[: i % 7]
        elif i % 10 == 0 and c.monkey_kex is None and s.monkey_kex is None:
            # both peers tried the same optional algorithm first and were refused: it must stay out of the negotiation
            cat, bogus = CATS[(i // 10) % 5], rng.choice(REFUSED_POOL)
            c.add_refused(rng, T, cat, bogus)
            s.add_refused(rng, T, cat, bogus)
        pairs.append((c, s))
    arb = []
    for i in range(n_arb):
        side = gen_side(rng, T, rng.random() < 0.5, hostkeys)
        lists = []
        for j in range(8):
            pool = list(info[CAT_OF[j]])
            r = rng.random()
            l = rand_subset(rng, pool, rng.choice([0.2, 0.5, 0.9]) if rng.random() < 0.3 else rng.choice([0.9, 1.0]))
            rng.shuffle(l)
            for _ in range(rng.choice([0, 0, 1, 2, 3])):
                l.insert(rng.randrange(len(l) + 1), rng.choice(UNKNOWN))
            if r < 0.02:
                l = []
            if r > 0.9 and l:
                l.insert(rng.randrange(len(l) + 1), rng.choice(l))  # duplicate
            if j == 0 or rng.random() < 0.1:  # markers: always possible in kex, sometimes (meaningless) elsewhere
                for _ in range(rng.choice([0, 1, 1, 2, 3])):
                    l.insert(rng.randrange(len(l) + 1), rng.choice(MARKERS))
            # a peer that offers exactly the name this side tried and was refused
            for n in sorted(side.refused_names(CAT_OF[j])):
                if rng.random() < 0.7:
                    l.insert(0 if rng.random() < 0.7 else rng.randrange(len(l) + 1), n)
            lists.append(l)
        seqno = 0 if rng.random() < 0.8 else rng.randrange(1, 5)
        side.initial_done = rng.random() < 0.3
        side.agreed_strict = rng.random() < 0.15
        arb.append((side, lists, seqno))

    def built(side):
        t = build_real(paramiko, side, hostkeys)
        for cat, x in t._pv_refusal_missing:
            ctx.fail("setter-validation:" + cat, {"side": side.describe(), "assigned": x},
                     "an assignment holding a name outside the table did not raise ValueError")
        return t

    reals, send_reqs = [], []
    for c, s in pairs:
        tc, ts = built(c), built(s)
        reals.append((tc, ts))
        send_reqs += ["send " + c.tokens(T), "send " + s.tokens(T)]
    arb_reals = []
    for side, lists, seqno in arb:
        t = built(side)
        t.initial_kex_done = side.initial_done
        t.agreed_on_strict_kex = side.agreed_strict
        arb_reals.append(t)
        send_reqs.append("send " + side.tokens(T))
    model_send = ctx.driver("C05", send_reqs)

    def do_sends(sides_and_reals, model, base, label):
        """real sends; compares with the model; returns [(real result, model pref_kex' or None)]"""
        out = []
        for k, (side, t) in enumerate(sides_and_reals):
            r = real_send(t)
            mp = None
            if model is not None:
                if model[base + k] != show_send(r):
                    ctx.disagree("_send_kex_init (%s)" % label, side.describe(), model[base + k], show_send(r))
                if model[base + k].startswith("ok "):
                    tok = model[base + k].split(" ")[1]
                    mp = [] if tok == "~" else bytes.fromhex(tok).decode("utf-8").split(",")
            if r[0] == "raise":
                ctx.fail("negotiation-raises:" + r[1], side.describe(), r[2])
            out.append((r, mp))
        return out

    flat = []
    for (c, s), (tc, ts) in zip(pairs, reals):
        flat += [(c, tc), (s, ts)]
    sent = do_sends(flat + [(a[0], t) for a, t in zip(arb, arb_reals)], model_send, 0, "round 1")

    # ------------------------------------------------------------------ round-1 parses
    parse_reqs, plan = [], []
    for i, (c, s) in enumerate(pairs):
        (rc, mc), (rs, ms) = sent[2 * i], sent[2 * i + 1]
        if rc[0] != "ok" or rs[0] != "ok":
            ctx.dist("pair:send-failed")
            plan.append(None)
            continue
        plan.append(len(parse_reqs))
        parse_reqs.append("parse %s %s 0" % (c.tokens(T, mc if mc is not None else rc[1]),
                                              " ".join(wire_tok(l) for l in rs[2])))
        parse_reqs.append("parse %s %s 0" % (s.tokens(T, ms if ms is not None else rs[1]),
                                              " ".join(wire_tok(l) for l in rc[2])))
    arb_plan = []
    for j, (side, lists, seqno) in enumerate(arb):
        r, mp = sent[2 * len(pairs) + j]
        if r[0] != "ok":
            arb_plan.append(None)
            continue
        arb_plan.append(len(parse_reqs))
        parse_reqs.append("parse %s %s %d" % (side.tokens(T, mp if mp is not None else r[1]),
                                               " ".join(wire_tok(l) for l in lists), seqno))
    n_parse = len(parse_reqs)
    spec_reqs = []
    for i in range(0, len(pairs), 7):
        rc, rs = sent[2 * i][0], sent[2 * i + 1][0]
        if rc[0] == "ok" and rs[0] == "ok":
            k = rng.randrange(8)
            spec_reqs.append(("first %s %s" % (cfg_tok(rc[2][k]), cfg_tok(rs[2][k])), rc[2][k], rs[2][k]))
    model_parse = ctx.driver("C05", parse_reqs + [q[0] for q in spec_reqs])
    if model_parse is not None:  # spec validation: Lean firstCommon vs the harness's first_common
        for k, (q, cl, sl) in enumerate(spec_reqs):
            want = first_common(cl, sl)
            want = "none" if want is None else wire_tok([want])
            if model_parse[n_parse + k] != want:
                ctx.disagree("Lean spec firstCommon vs harness first_common", q, model_parse[n_parse + k], want)
            ctx.dist("spec-validation")

    round2 = []
    for i, (c, s) in enumerate(pairs):
        if plan[i] is None:
            continue
        tc, ts = reals[i]
        (rc, mc), (rs, ms) = sent[2 * i], sent[2 * i + 1]
        case = {"client": c.describe(), "server": s.describe(), "round": 1,
                "client_kexinit": rc[2], "server_kexinit": rs[2]}
        pc = real_parse(paramiko, tc, rs[3][1:], 0, kex_names)
        ps = real_parse(paramiko, ts, rc[3][1:], 0, kex_names)
        spec = spec_tuple(rc[2], rs[2])
        nontrivial = bool(c.dis or s.dis or any(v is not None for v in c.pref.values())
                          or any(v is not None for v in s.pref.values()))
        ctx.case(("pair", repr(rc[2]), repr(rs[2]), repr(c.dis), repr(s.dis)), nontrivial)
        ctx.dist("pair:" + ("incompatible" if any(x is None for x in spec) else "agreed"))
        if not s.moduli and any(n.startswith("diffie-hellman-group-exchange") for n in
                                (s.pref["kex"] if s.pref["kex"] is not None else T._preferred_kex)):
            ctx.dist("pair:server-without-moduli-has-gex-preferred")
        if i % 300 == 0:
            ctx.sample({"client": c.describe(), "server": s.describe(), "client_result": show_parse(pc),
                        "server_result": show_parse(ps), "spec": spec})
        if model_parse is not None:
            if model_parse[plan[i]] != show_parse(pc):
                ctx.disagree("_parse_kex_init (client, round 1)", case, model_parse[plan[i]], show_parse(pc))
            if model_parse[plan[i] + 1] != show_parse(ps):
                ctx.disagree("_parse_kex_init (server, round 1)", case, model_parse[plan[i] + 1], show_parse(ps))
        oracle_one(ctx, case, False, c, pc, spec, rc[2])
        oracle_one(ctx, case, True, s, ps, spec, rs[2])
        if pc[0] == "ok" and ps[0] == "ok":
            if canon_view(False, pc[2]) != canon_view(True, ps[2]):
                ctx.fail(classify(case, True, s, 0 if pc[2][0] != ps[2][0] else None, spec, "peers-disagree"), case,
                         "client %r server %r" % (pc[2], ps[2]))
            if i % 3 == 0:
                round2.append((i, pc[1], ps[1]))
        elif (pc[0] == "err") != (ps[0] == "err"):
            ctx.fail(classify(case, True, s, None, spec, "one-peer-incompatible"), case,
                     "client %s server %s" % (show_parse(pc), show_parse(ps)))

    for j, (side, lists, seqno) in enumerate(arb):
        if arb_plan[j] is None:
            continue
        t = arb_reals[j]
        r = sent[2 * len(pairs) + j][0]
        payload = build_kexinit(paramiko, lists, rng)
        res = real_parse(paramiko, t, payload, seqno, kex_names)
        case = {"side": side.describe(), "own_kexinit": r[2], "peer_kexinit": lists, "seqno": seqno,
                "initial_kex_done": side.initial_done, "agreed_strict_before": side.agreed_strict}
        wire_lists = [(",".join(l).split(",") if ",".join(l) else []) for l in lists]
        spec = spec_tuple(wire_lists, r[2]) if side.server else spec_tuple(r[2], wire_lists)
        ctx.case(("arb", repr(r[2]), repr(lists), seqno, side.server), True)
        ctx.dist("arb:%s:%s" % ("server" if side.server else "client",
                                res[1] if res[0] == "err" else ("agreed" if res[0] == "ok" else "raise")))
        if any(is_marker(n) for n in lists[0][:-1]):
            ctx.dist("arb:marker-not-last")
        if j % 300 == 0:
            ctx.sample(dict(case, result=show_parse(res), spec=spec))
        if model_parse is not None and model_parse[arb_plan[j]] != show_parse(res):
            ctx.disagree("_parse_kex_init (hand-built peer KEXINIT)", case, model_parse[arb_plan[j]], show_parse(res))
        oracle_one(ctx, case, side.server, side, res, spec, r[2])

    # ------------------------------------------------------------------ round 2 (rekey): send + parse again
    send2, sides2 = [], []
    for i, strict_c, strict_s in round2:
        c, s = pairs[i]
        tc, ts = reals[i]
        for side, t, st, pk in ((c, tc, strict_c, sent[2 * i]), (s, ts, strict_s, sent[2 * i + 1])):
            side.initial_done, side.agreed_strict = True, st
            t.initial_kex_done = True
            side._pk = pk[1] if pk[1] is not None else pk[0][1]
            send2.append("send " + side.tokens(T, side._pk))
            sides2.append((side, t))
    model_send2 = ctx.driver("C05", send2) if send2 else []
    sent2 = do_sends(sides2, model_send2, 0, "round 2")
    parse2, plan2 = [], []
    for k, (i, _a, _b) in enumerate(round2):
        c, s = pairs[i]
        (rc, mc), (rs, ms) = sent2[2 * k], sent2[2 * k + 1]
        if rc[0] != "ok" or rs[0] != "ok":
            plan2.append(None)
            continue
        plan2.append(len(parse2))
        seq = rng.choice([0, 3, 17])  # after the initial kex the sequence number is irrelevant
        parse2.append("parse %s %s %d" % (c.tokens(T, mc if mc is not None else rc[1]),
                                           " ".join(wire_tok(l) for l in rs[2]), seq))
        parse2.append("parse %s %s %d" % (s.tokens(T, ms if ms is not None else rs[1]),
                                           " ".join(wire_tok(l) for l in rc[2]), seq))
    model_parse2 = ctx.driver("C05", parse2) if parse2 else []
    for k, (i, _a, _b) in enumerate(round2):
        if plan2[k] is None:
            continue
        c, s = pairs[i]
        tc, ts = reals[i]
        rc, rs = sent2[2 * k][0], sent2[2 * k + 1][0]
        seq = int(parse2[plan2[k]].rsplit(" ", 1)[1])
        case = {"client": c.describe(), "server": s.describe(), "round": 2,
                "client_kexinit": rc[2], "server_kexinit": rs[2]}
        pc = real_parse(paramiko, tc, rs[3][1:], seq, kex_names)
        ps = real_parse(paramiko, ts, rc[3][1:], seq, kex_names)
        spec = spec_tuple(rc[2], rs[2])
        ctx.case(("pair2", repr(rc[2]), repr(rs[2])), True)
        ctx.dist("rekey-pair:" + ("incompatible" if any(x is None for x in spec) else "agreed"))
        if model_parse2 is not None:
            if model_parse2[plan2[k]] != show_parse(pc):
                ctx.disagree("_parse_kex_init (client, round 2)", case, model_parse2[plan2[k]], show_parse(pc))
            if model_parse2[plan2[k] + 1] != show_parse(ps):
                ctx.disagree("_parse_kex_init (server, round 2)", case, model_parse2[plan2[k] + 1], show_parse(ps))
        oracle_one(ctx, case, False, c, pc, spec, rc[2])
        oracle_one(ctx, case, True, s, ps, spec, rs[2])
        if pc[0] == "ok" and ps[0] == "ok" and canon_view(False, pc[2]) != canon_view(True, ps[2]):
            ctx.fail(classify(case, True, s, 0 if pc[2][0] != ps[2][0] else None, spec, "peers-disagree"), case,
                     "client %r server %r" % (pc[2], ps[2]))


    # ------------------------------------------------------------------ (h) histories on ONE transport object
    # reads of preferred_* / get_security_options(), changes of disabled_algorithms (re-assignment, in-place mutation,
    # mutation of the dict the constructor was given), SecurityOptions assignments (accepted / refused) — then a
    # negotiation, more of the same, and a re-negotiation.  The model gets only the state AT negotiation time.
    import copy
    PROP = {"kex": "preferred_kex", "keys": "preferred_keys", "ciphers": "preferred_ciphers",
            "macs": "preferred_macs", "compression": "preferred_compression"}
    n_hist = 6000 if ctx.thorough else 500

    def expected_read(side, c):
        pref = side.current(T, c)
        dis = side.dis.get(c, [])
        out = [x for x in pref if x not in dis]
        if c == "keys":
            out = out + [x + CERT for x in out if x + CERT not in dis]
        return out

    def do_ops(side, t, st, n_ops, log):
        for _ in range(n_ops):
            r = rng.random()
            c = rng.choice(CATS)
            if r < 0.35:  # read
                if rng.random() < 0.5:
                    got = list(getattr(t, PROP[c]))
                    want = expected_read(side, c)
                    log.append(("read preferred_" + c,))
                    if got != want:
                        bad = [x for x in got if x in side.dis.get(c, [])]
                        ctx.fail(("read-shows-disabled:" if bad else "read-not-current:") + c,
                                 {"side": side.describe(), "history": list(log)},
                                 "t.%s = %r, current preferences minus currently disabled = %r" % (PROP[c], got, want))
                else:
                    getattr(t.get_security_options(), SETTER[c])
                    log.append(("read security_options." + SETTER[c],))
            elif r < 0.75:  # change disabled_algorithms[c]
                pool = info[c]
                cur = side.current(T, c)
                new = rand_subset(rng, pool, rng.choice([0.1, 0.2, 0.4]))
                if cur and rng.random() < 0.6:  # aim at what would otherwise be chosen: the head of the list
                    new = list(dict.fromkeys(cur[: rng.choice([1, 1, 2, 3])] + new))
                if rng.random() < 0.1:
                    new = []
                how = rng.choice(["reassign", "inplace", "ctor"] if st["aliased"] else ["reassign", "inplace"])
                if how == "reassign":
                    d = {k: list(v) for k, v in side.dis.items()}
                    d[c] = list(new)
                    t.disabled_algorithms = d
                    st["aliased"] = False
                elif how == "inplace":
                    if c in t.disabled_algorithms and rng.random() < 0.5:
                        t.disabled_algorithms[c][:] = list(new)  # mutate the list object itself
                    else:
                        t.disabled_algorithms[c] = list(new)
                else:
                    st["ctor"][c] = list(new)  # the caller's own dict, which the transport keeps by reference
                side.dis[c] = list(new)
                log.append(("disabled[%s] %s" % (c, how), list(new)))
            else:  # SecurityOptions assignment
                x = rand_subset(rng, info[c], rng.choice([0.5, 0.9, 1.0]))
                rng.shuffle(x)
                refuse = rng.random() < 0.3
                if refuse:
                    x.insert(rng.randrange(len(x) + 1), rng.choice(REFUSED_POOL))
                try:
                    setattr(t.get_security_options(), SETTER[c], tuple(x))
                    if refuse:
                        ctx.fail("setter-validation:" + c, {"side": side.describe(), "assigned": x}, "no ValueError")
                    side.pref[c] = list(x)
                except ValueError:
                    if refuse:
                        side.refused.append((c, list(x)))
                    else:
                        ctx.fail("setter-validation:" + c, {"side": side.describe(), "assigned": x}, "ValueError")
                log.append(("set %s%s" % (c, " (refused)" if refuse else ""), list(x)))

    hist = []
    for i in range(n_hist):
        side = gen_side(rng, T, rng.random() < 0.5, hostkeys)
        side.monkey_kex, side.refused = None, []
        if i % 4 == 0:
            side.dis = {}
        ctor = {c: list(v) for c, v in side.dis.items()}
        t = build_real(paramiko, side, hostkeys, dis_dict=ctor)
        st = {"aliased": t.disabled_algorithms is ctor, "ctor": ctor}
        log, rounds = [], []
        for rnd in (1, 2):
            if rnd == 1 and i % 5 == 0:
                for c in CATS:  # inspect first, configure afterwards
                    getattr(t, PROP[c])
                log.append(("read all preferred_*",))
            do_ops(side, t, st, rng.choice([1, 2, 3, 5]) if rnd == 1 else rng.choice([1, 2, 3]), log)
            if rnd == 2:
                side.initial_done = True
                t.initial_kex_done = True
                side.agreed_strict = bool(t.agreed_on_strict_kex)
            snap = copy.deepcopy(side)
            r = real_send(t)
            if r[0] == "ok":
                side.pref["kex"] = list(t._preferred_kex)  # a moduli-less server dropped group exchange
            # the peer: mostly everything in table order, so that whatever we offer first is what gets agreed
            lists = []
            for j in range(8):
                l = list(info[CAT_OF[j]])
                if j == 1:
                    l = [n for n in l if not n.endswith(CERT)] + [n for n in l if n.endswith(CERT)]
                if rng.random() < 0.3:
                    rng.shuffle(l)
                if rng.random() < 0.2:
                    l = rand_subset(rng, l, 0.7)
                if j == 0 and rng.random() < 0.5:
                    l.insert(rng.randrange(len(l) + 1), "kex-strict-%s-v00@openssh.com" % ("c" if side.server else "s"))
                lists.append(l)
            res = None
            if r[0] == "ok":
                res = real_parse(paramiko, t, build_kexinit(paramiko, lists, rng), 0, kex_names)
            rounds.append((snap, r, lists, res, list(log)))
        hist.append(rounds)

    reqs = []
    for rounds in hist:
        for snap, r, lists, res, _log in rounds:
            reqs.append("send " + snap.tokens(T))
    model_hs = ctx.driver("C05", reqs)
    preqs, pidx, k = [], {}, 0
    for hi, rounds in enumerate(hist):
        for ri, (snap, r, lists, res, _log) in enumerate(rounds):
            if model_hs is not None and model_hs[k] != show_send(r):
                ctx.disagree("_send_kex_init after a history (round %d)" % (ri + 1),
                             {"side": snap.describe(), "history": _log}, model_hs[k], show_send(r))
            if r[0] == "ok":
                mp = r[1]
                if model_hs is not None and model_hs[k].startswith("ok "):
                    tok = model_hs[k].split(" ")[1]
                    mp = [] if tok == "~" else bytes.fromhex(tok).decode("utf-8").split(",")
                pidx[(hi, ri)] = len(preqs)
                preqs.append("parse %s %s 0" % (snap.tokens(T, mp), " ".join(wire_tok(l) for l in lists)))
            k += 1
    model_hp = ctx.driver("C05", preqs) if preqs else []
    for hi, rounds in enumerate(hist):
        for ri, (snap, r, lists, res, _log) in enumerate(rounds):
            case = {"side": snap.describe(), "history": _log, "round": ri + 1, "peer_kexinit": lists,
                    "own_kexinit": r[2] if r[0] == "ok" else None}
            if r[0] != "ok":
                if r[0] == "raise":
                    ctx.fail("negotiation-raises:" + r[1], case, r[2])
                continue
            ctx.case(("hist", repr(_log), repr(lists), ri), True)
            ctx.dist("history:round%d:%s" % (ri + 1, res[1] if res[0] == "err" else res[0]))
            if hi % 120 == 0 and ri == 1:
                ctx.sample(dict(case, result=show_parse(res)))
            # nothing disabled NOW may be offered, whatever the outcome of the negotiation
            for j in range(8):
                now = snap.dis.get(CAT_OF[j], [])
                bad = [n for n in r[2][j] if n in now and not (j == 0 and is_marker(n))]
                if bad:
                    ctx.fail("disabled-algorithm-advertised:%s:after-history" % CAT_OF[j], case,
                             "KEXINIT of round %d offers %r, disabled at that time: %r" % (ri + 1, bad, now))
                    break
            if model_hp is not None and model_hp[pidx[(hi, ri)]] != show_parse(res):
                ctx.disagree("_parse_kex_init after a history (round %d)" % (ri + 1), case,
                             model_hp[pidx[(hi, ri)]], show_parse(res))
            wire_lists = [(",".join(l).split(",") if ",".join(l) else []) for l in lists]
            spec = spec_tuple(wire_lists, r[2]) if snap.server else spec_tuple(r[2], wire_lists)
            oracle_one(ctx, case, snap.server, snap, res, spec, r[2])

    # ------------------------------------------------------------------ (e) real handshakes with random configurations
    import logging
    from paramiko.primes import ModulusPack
    from paramiko.kex_group14 import KexGroup14
    lg = logging.getLogger("paramiko")  # refused handshakes are expected here: keep their tracebacks off stderr
    lg.addHandler(logging.NullHandler())
    lg.propagate = False
    pack = ModulusPack()
    pack.pack = {2048: [(KexGroup14.G, KexGroup14.P)]}
    n_e2e = 60 if ctx.thorough else 7
    for i in range(n_e2e):
        c, s = gen_side(rng, T, False, hostkeys), gen_side(rng, T, True, hostkeys)
        if i == 0:  # moduli-less server, client prefers group exchange
            c, s = Side(False), Side(True)
            s._real_keys = ["ed25519"]
            gex = ["diffie-hellman-group-exchange-sha256"]
            c.pref["kex"] = gex + [n for n in T._preferred_kex if n not in gex]
        for side in (c, s):  # only what can really run here: no GSS kex, no host key names without a key
            side.monkey_kex = None
            if side.pref["kex"] is not None:
                side.pref["kex"] = [n for n in side.pref["kex"] if not n.startswith("gss-")]
        s._extra_keys = []
        s.server_keys = []
        for k in s._real_keys:
            for n in [hostkeys[k].get_name()] + (["rsa-sha2-256", "rsa-sha2-512"] if k == "rsa" else []):
                if n not in s.server_keys:
                    s.server_keys.append(n)
        end_to_end(ctx, paramiko, c, s, hostkeys, pack, kex_names)


META = {
    "claimed": True,
    "level": ("Proved in Lean for every configuration whose preference lists hold table names (the invariant "
              "SecurityOptions enforces; proved preserved by the kex setter and by _send_kex_init, decided for the class "
              "defaults) and for EVERY peer KEXINIT (unknown names, empty lists, duplicates, markers anywhere): after its "
              "own _send_kex_init a transport of either role agrees, in all eight categories, on the first name of the "
              "client's list that the server's list contains, or raises IncompatiblePeer — exactly when some category has "
              "no common name (follows_rfc, incompatible_iff); two paramiko peers exchanging KEXINITs over the wire "
              "compute the same tuple or both fail (peers_agree); the advertised lists are the accepted lists incl. a "
              "moduli-less server (advertised_eq_accepted, send_idempotent); with no well-formedness assumption at all: "
              "no agreed or advertised name is locally disabled (cert variants included), the agreed kex is never a "
              "marker and is a name the peer listed. All five SecurityOptions setters are modelled incl. the RAISING "
              "assignment (state after a refused assignment = state before; setPref_raise/ok/wf) and the invariant is "
              "proved for every history of assignments (wf_after_setters), hence only table names are ever advertised or "
              "agreed, never a refused name (agreed_in_tables, advertised_in_tables). "
              "Histories on one transport (reads of preferred_*, disabled_algorithms re-assigned / mutated, assignments, "
              "then negotiation and re-negotiation) are modelled: reads are no-ops, the offered lists are a pure function "
              "of the preferences and disabled sets at that moment, equal final configurations negotiate identically, and "
              "nothing disabled at negotiation time is offered or agreed (reads_are_noops, preferred_pure, "
              "history_independent, history_never_disabled). "
              "Tables/preference tuples are regenerated from transport.py each run. "
              "Tied by differential runs of the real _send_kex_init/_parse_kex_init (both roles, two rounds, plus "
              "hand-built hostile KEXINITs, peers that offer exactly the name the local side was refused), of every "
              "SecurityOptions setter with accepted and refused tuples, of operation histories on one transport object "
              "(reads, disabled_algorithms re-assignment / in-place mutation / mutation of the constructor's dict, "
              "assignments, negotiate, more operations, re-negotiate), and real handshakes with random "
              "configurations. Two defects found and fixed (857cd48, 6da136d)."),
    "note": ("Trusted: Lean kernel + 3 standard axioms; the harness (generators, own KEXINIT parser, first-common oracle); "
             "Message.add_list/get_list = joinComma/splitComma (C39); UTF-8 decoding of names. The strict-kex sequence "
             "check inside _parse_kex_init is modelled and compared but is C09's subject (theorems assume seqno = 0 or "
             "a rekey). GSS-API kex (gss_kex=True) only enters through the generated tables (no GSS library here). "
             "Directly assigning _preferred_* with names outside the tables is outside the property (modelled: "
             "ValueError/KeyError branches are compared, not judged)."),
    "technique": "Lean 4 proof (list filter/find algebra, case analysis over the negotiation pipeline) + differential correspondence",
}
