"""C22 — Channel EOF and CLOSE are sent at most once and end data transmission.

Model: lean/PV/Model/ChanWindow.lean; theorems: lean/PV/Props/C22.lean (≤1 EOF, ≤1 CLOSE, peer CLOSE answered
and channel released, dead channel sends nothing, no reservation after EOF, C22_partial / C22_witness for
data after EOF/CLOSE); driver: lean/Driver/C22.lean.

Correspondence: a real Channel on the deterministic rig (pv/lib_chan.py): every interleaving (exhaustive when
≤ 400, else sampled) of a writer program {send, send_stderr, sendall}, a closer program {close, shutdown_write,
shutdown_write+close} and a transport-thread program {peer CLOSE, peer EOF, EOF+CLOSE, window adjust} at
lock-region granularity — the wire write after `Channel._send` released the lock is its own step (gate at
_send_user_message) — then a post-phase of further operations; plus random schedules.  Every step is compared
with the model.
Oracle (model-independent, on the recorded wire): #EOF ≤ 1, #CLOSE ≤ 1; a processed peer CLOSE ⇒ our CLOSE is
on the wire and the channel left the transport's map; after closed+EOF no operation adds a message and send
raises; DATA after EOF/CLOSE is reported — with the known-finding signature only if the writing thread was
already holding that reservation when EOF was decided.
The Lean witness schedule is replayed on the real code on every run.
"""
import itertools

from pv import lib_chan
from pv.props import c19

WITNESS = ["send 0 5 0", "close 1", "emit 1", "emit 1", "emit 0"]

WRITERS = {
    "send": ["send 0 5 0"],
    "send_stderr": ["send 0 5 1"],
    "sendall": ["sendall 0 6000 0"],
    "two_sends": ["send 0 5 0", "send 0 7 1"],
}
CLOSERS = {
    "close": ["close 1"],
    "shutdown_write": ["shutw 1"],
    "shutdown_write+close": ["shutw 1", "close 1"],
}
PEERS = {
    "none": [],
    "peer_close": ["pclose 2"],
    "peer_eof": ["peof"],
    "peer_eof+close": ["peof", "pclose 2"],
    "adjust": ["adjust 100"],
    "request_failed": ["reqfail 2"],
    # the peer repeats its CHANNEL_OPEN_CONFIRMATION for the channel (real _parse_channel_open_success →
    # _set_remote_channel), alone and followed by its CLOSE
    "dup_confirmation": ["psucc"],
    "dup_confirmation+peer_close": ["psucc", "pclose 2"],
}


class Exec:
    """one execution: three logical threads with programs (lists of calls); `advance(t)` runs thread t's next
    atomic region"""

    def __init__(self, progs, peer_win, peer_max=4096):
        self.rig = lib_chan.Rig(32768, peer_win, peer_max, 3, stmt_gates=True)
        self.progs = [list(p) for p in progs]
        self.reqs = ["init 32768 %d %d 3 0" % (peer_win, peer_max)]
        self.impl = [self.rig.view()]
        self.racers = {}          # thread -> data token it held when EOF was decided
        self.adj_holders = {}     # thread -> WINDOW_ADJUST token it held when the channel was closed
        self.pclose_done = False
        self.post_growth = None
        # unread data above the ack threshold (in_window//10 = 3276) sits in the buffer when the closes happen
        self.do("feed 4000")

    def unfinished(self):
        if getattr(self, "deadlock", None):
            return []
        out = []
        for t, lt in enumerate(self.rig.threads):
            if lt.state != "idle" or self.progs[t]:
                out.append(t)
        return out

    def do(self, op):
        c = self.rig.chan
        before = c.eof_sent
        closed_before = c.closed
        adj_now = {t: lt.info for t, lt in enumerate(self.rig.threads) if lt.state == "hold" and lt.info[0] not in "dx"}
        was_linked = self.rig.linked
        holders = {t: lt.info for t, lt in enumerate(self.rig.threads)
                   if lt.state == "hold" and lt.info[0] in "dx"}
        if getattr(self, "deadlock", None):
            return
        try:
            self.rig.do(op)
        except lib_chan.RigDeadlock as e:
            self.deadlock = "%s at %r" % (e, op)
            self.reqs.append(op)
            self.impl.append("*")
            return
        if not before and c.eof_sent:
            self.racers = holders
        if not closed_before and c.closed:
            self.adj_holders = adj_now
        if op.startswith("pclose") and self.rig.linked is False and not was_linked:
            pass    # the transport no longer dispatches to a channel it has dropped (transport loss before)
        elif op.startswith("pclose"):
            self.pclose_done = True
        if op == "psucc":               # same ids, same sizes: no model counterpart (nothing may change)
            self.reqs.append("nop")
            self.impl.append("*")
            return
        if op.startswith("shut2"):      # shutdown(2) = shutdown(0) then shutdown(1): two model actions
            self.reqs.append("shutr")
            self.impl.append("*")
            op = "shutw " + op.split()[1]
        self.reqs.append(op)
        self.impl.append("*" if op.startswith("gate") or any(lt.state == "stmtgate" for lt in self.rig.threads)
                         else self.rig.view())

    def advance(self, t):
        lt = self.rig.threads[t]
        if lt.state == "idle":
            op = self.progs[t].pop(0)
            if op.split()[0] in ("peof", "adjust", "unlink", "shutr"):
                self.do(op)
            else:
                self.do(op)
        elif lt.state == "hold":
            self.do("emit %d" % t)
        elif lt.state == "loophead":
            self.do("iter %d" % t)
        elif lt.state == "waiting":
            self.do("wake %d 0" % t)
        elif lt.state == "gotbytes":
            self.do("check %d" % t)
        elif lt.state == "stmtgate":
            self.do("gate %d" % t)

    def blocked(self, t):
        """a waiting thread whose wake-up would change nothing (window still closed, channel open)"""
        lt = self.rig.threads[t]
        c = self.rig.chan
        return lt.state == "waiting" and c.out_window_size == 0 and not c.closed and not c.eof_sent

    def post_phase(self):
        c = self.rig.chan
        if not (c.closed and c.eof_sent):
            return
        for lt in self.rig.threads:
            if lt.state != "idle":
                return
        n0 = len(self.rig.wire)
        results = []
        # a repeated OPEN_CONFIRMATION for the dead channel must not make it closable again
        self.do("psucc")
        # reading what is left in the buffers of the dead channel must not produce a WINDOW_ADJUST
        for err in (0, 1):
            if len(c.in_stderr_buffer if err else c.in_buffer) > 0:
                self.do("recv 2 100000 %d" % err)
                guard = 0
                while self.rig.threads[2].state != "idle" and guard < 5:
                    self.advance(2)
                    guard += 1
        for op in ("send 0 3 0", "send 1 3 1", "sendall 0 10 0"):
            self.do(op)
            t = int(op.split()[1])
            guard = 0
            while self.rig.threads[t].state != "idle" and guard < 10:
                self.advance(t)
                guard += 1
            results.append(self.rig.threads[t].result)
        for op in ("close 1", "shutw 0"):
            self.do(op)
        self.post_growth = (len(self.rig.wire) - n0, results)


def judge(ctx, ex, case):
    wire, by = ex.rig.wire, ex.rig.wire_by
    ne, nc = wire.count("E"), wire.count("C")
    if ne > 1:
        ctx.fail("eof-sent-twice", case, repr(wire))
    if nc > 1:
        ctx.fail("close-sent-twice", case, repr(wire))
    all_idle = all(lt.state == "idle" for lt in ex.rig.threads)
    write_failed = any(r.startswith("efail") for r in ex.reqs)   # a CLOSE whose wire write raised is not on the wire
    if ex.pclose_done and all_idle and not write_failed:
        if nc != 1:
            ctx.fail("peer-close-not-answered", case, repr(wire))
        if ex.rig.linked:
            ctx.fail("channel-not-released-after-both-closes", case, repr(wire))
    ended = False
    for tok, t in zip(wire, by):
        if tok in ("E", "C"):
            ended = True
        elif ended and tok[0] in "dx":
            if ex.racers.get(t) == tok:
                ctx.fail("data-after-close:reserved-before-close", case,
                         "wire %r: thread %d had reserved %s under the lock before EOF was decided and wrote it "
                         "after EOF/CLOSE" % (wire, t, tok))
                ctx.dist("known-race-reproduced")
            else:
                ctx.fail("data-after-close:not-reserved-before", case, "wire %r thread %d %s" % (wire, t, tok))
    closed_out = False
    for tok, t in zip(wire, by):
        if tok == "C":
            closed_out = True
        elif closed_out and tok[0] not in "dx":
            if ex.adj_holders.get(t) == tok:
                continue        # decided before the close (an ack computed, an EOF decided), written by its thread after
            ctx.fail("message-after-close:" + ("window-adjust" if tok[0] == "a" else tok), case,
                     "wire %r: thread %d wrote %s after the channel's CLOSE" % (wire, t, tok))
            break
    if ex.post_growth is not None:
        grew, results = ex.post_growth
        if grew:
            ctx.fail("operation-on-dead-channel-sent-a-message", case, repr(wire[-grew:]))
        if any(r != "C" for r in results):
            ctx.fail("send-on-closed-channel-did-not-raise", case, repr(results))
    excs = [lt.result for lt in ex.rig.threads if lt.result.startswith(("EXC:", "E:"))]
    for e in excs[:1]:
        ctx.fail("unexpected-exception:" + e.split(":")[1], case, e)
    pp = ex.rig.protocol_problem()
    if pp is not None:
        ctx.fail(pp[0], case, pp[1])
    elif getattr(ex, "deadlock", None):
        ctx.fail("deadlock:real-code-blocked-under-the-schedule", case, ex.deadlock)


def run_order(progs, order, peer_win):
    ex = Exec(progs, peer_win)
    try:
        for t in order:
            ex.advance(t)
        # finish everything that can finish (deterministic order), then the post-phase
        for _ in range(40):
            todo = [t for t in ex.unfinished() if not ex.blocked(t)]
            if not todo:
                break
            ex.advance(todo[0])
        ex.post_phase()
    finally:
        ex.rig.teardown()
    return ex


def interleavings(progs, peer_win, cap, rng):
    """all maximal thread orders (by re-execution), or `cap` random ones when there are more"""
    leaves = []
    stack = [[]]
    budget = cap * 6
    while stack and len(leaves) <= cap and budget > 0:
        prefix = stack.pop()
        budget -= 1
        ex = Exec(progs, peer_win)
        try:
            for t in prefix:
                ex.advance(t)
            todo = [t for t in ex.unfinished() if not ex.blocked(t)]
        finally:
            ex.rig.teardown()
        if not todo:
            leaves.append(prefix)
        else:
            for t in todo:
                stack.append(prefix + [t])
    if stack:  # too many: sample instead
        leaves = []
        for _ in range(cap):
            ex = Exec(progs, peer_win)
            order = []
            try:
                for _ in range(60):
                    todo = [t for t in ex.unfinished() if not ex.blocked(t)]
                    if not todo:
                        break
                    t = rng.choice(todo)
                    order.append(t)
                    ex.advance(t)
            finally:
                ex.rig.teardown()
            leaves.append(order)
        return leaves, False
    return leaves, True


def dispatch_facts():
    """From the AST of Transport.run: the statement after `chan = self._channels.get(chanid)` is an `if` whose test is
    exactly `chan is not None` and whose body calls `self._channel_handler_table[ptype](chan, m)` — i.e. every
    message for a registered channel reaches its handler, whatever state the channel is in."""
    import ast
    import inspect
    import textwrap
    from paramiko.transport import Transport
    tree = ast.parse(textwrap.dedent(inspect.getsource(Transport.run)))
    guard, calls = "?", False
    for node in ast.walk(tree):
        for field in ("body", "orelse", "finalbody"):
            block = getattr(node, field, None)
            if not isinstance(block, list):
                continue
            for i, st in enumerate(block[:-1]):
                if isinstance(st, ast.Assign) and ast.unparse(st.value) == "self._channels.get(chanid)":
                    nxt = block[i + 1]
                    if isinstance(nxt, ast.If):
                        guard = ast.unparse(nxt.test)
                        calls = any(ast.unparse(x) == "self._channel_handler_table[ptype](chan, m)"
                                    for b in nxt.body for x in ast.walk(b) if isinstance(x, ast.Call))
    return guard, calls


def real_dispatch_release(ctx, rng):
    """Both CLOSEs exchanged through the REAL Transport.run() dispatch of two connected Transports, judged on the
    side that closed FIRST while the application still holds the Channel object (the map is weak): the channel
    must leave Transport._channels on both sides."""
    from pv import lib_net
    failed = False
    for first, with_data in (("client", False), ("server", False), ("client", True), ("server", True)):
        if failed:
            break       # one concrete failing exchange is enough (each further one costs a full wait)
        tc = ts = None
        try:
            tc, ts, _sc, _ss, _srv = lib_net.make_pair()
            cchan = tc.open_session(timeout=60)
            schan = ts.accept(60)
            cid, sid = cchan.get_id(), schan.get_id()
            if with_data:
                # stream traffic still in flight towards the side that closes first
                (schan if first == "client" else cchan).send(b"late data " * 50)
            closer, other = (cchan, schan) if first == "client" else (schan, cchan)
            closer.close()
            # the other side answers the CLOSE by itself (_handle_close); hold both objects strongly meanwhile
            gone_c = lib_net.wait_until(lambda: tc._channels.get(cid) is None, 25)
            gone_s = lib_net.wait_until(lambda: ts._channels.get(sid) is None, 25 if gone_c else 2)
            case = {"scenario": "real run() dispatch: %s closes first%s, application keeps the Channel object"
                                % (first, ", data in flight" if with_data else ""),
                    "client_channel_released": bool(gone_c), "server_channel_released": bool(gone_s),
                    "closer_closed": closer.closed, "other_closed": other.closed,
                    "transports_active": [tc.active, ts.active]}
            ctx.case(("real-dispatch", first, with_data), True)
            ctx.dist("real-dispatch-close-exchanges")
            if tc.active and ts.active and not (gone_c and gone_s):
                side = "client" if not gone_c else "server"
                ctx.fail("channel-not-released-after-both-closes:real-dispatch:%s"
                         % ("closed-first-side" if side == first else "answering-side"), case,
                         "the %s's channel is still in Transport._channels 25 s after both CLOSEs were sent "
                         "(closed=%r on the closing side)" % (side, closer.closed))
                failed = True
        except Exception as e:  # noqa — a set-up problem of this side scenario must never fail the check
            ctx.dist("real-dispatch-scenario-skipped:" + type(e).__name__)
        finally:
            for t in (tc, ts):
                try:
                    if t is not None:
                        t.close()
                except Exception:  # noqa
                    pass


def run(ctx):
    import logging
    logging.getLogger("paramiko").addHandler(logging.NullHandler())
    logging.getLogger("paramiko").propagate = False
    ctx.rule = ("interleavings at lock-region granularity of a writer {send, send_stderr, sendall 6000 bytes over a "
                "4096 packet limit, two sends}, a closer {close, shutdown_write, shutdown_write+close} and the "
                "transport thread {nothing, peer CLOSE, peer EOF, EOF+CLOSE, window adjust, failed request}, window "
                "plenty or zero; exhaustive per combination when ≤ cap, else sampled; followed by sends/close/"
                "shutdown on the dead channel; plus random schedules with closes. distinct = distinct (programs, "
                "window, order); non-trivial = a close-like region ran while another thread was mid-call")
    ctx.trust("threading.Lock/Condition semantics (see C19)")
    # ---- (T) lock-region table generated from the AST of channel.py: which EOF/CLOSE decision sites hold self.lock
    import paramiko.channel as chmod
    from pv import lib_chanlock
    sites, notifies = lib_chanlock.channel_tables(chmod.Channel)
    ctx.write_generated("ChanLock", lib_chanlock.lean_tables_for(chmod.Channel))
    ctx.extra["decision_sites"] = ["%s:%s:%s" % (x["caller"], x["target"], "locked" if x["eff"] else "UNLOCKED")
                                   for x in sites if x["caller"] != "__init__"]
    guard, calls = dispatch_facts()
    ctx.write_generated("C22", (
        "/- GENERATED from the AST of paramiko/transport.py (Transport.run, channel dispatch) by pv/props/c22.py — do not edit. -/\n"
        "namespace PV.Generated.C22\n"
        "/-- the test of the `if` that follows `chan = self._channels.get(chanid)` -/\n"
        "def dispatchGuard : String := \"%s\"\n"
        "/-- … and its body calls `self._channel_handler_table[ptype](chan, m)` -/\n"
        "def dispatchCallsHandler : Bool := %s\n"
        "end PV.Generated.C22\n" % (guard.replace('"', "'"), "true" if calls else "false")))
    ctx.build(extra_modules=["PV.Model.ChanDriver"])
    rng = ctx.rng
    batches = []
    real_dispatch_release(ctx, rng)

    # ---- the Lean witness, replayed on the real code
    rig = lib_chan.Rig(32768, 32768, 32768, 2)
    reqs, impl = ["init 32768 32768 32768 2 0"], [rig.view()]
    try:
        for op in WITNESS:
            rig.do(op)
            reqs.append(op)
            impl.append(rig.view())
        wire = list(rig.wire)
    finally:
        rig.teardown()
    case = {"witness": WITNESS, "wire": wire}
    ctx.case(("witness",), True)
    if wire == ["E", "C", "d5"]:
        ctx.fail("data-after-close:reserved-before-close", case,
                 "wire [EOF, CLOSE, DATA(5)]: send() reserved under the lock, close() wrote EOF and CLOSE, then the "
                 "sender wrote its DATA")
    else:
        ctx.disagree("C22_witness-replay", case, "E,C,d5", ",".join(wire))
    batches.append((case, reqs, impl))

    # ---- interleavings
    cap = 400 if ctx.thorough else 26
    exhaustive_all = True
    for (wn, w), (cn, c), (pn, p) in itertools.product(WRITERS.items(), CLOSERS.items(), PEERS.items()):
        for peer_win in (32768, 0):
            if peer_win == 0 and (wn == "two_sends" or pn in ("peer_eof", "request_failed")) and not ctx.thorough:
                continue
            progs = [w, c, p]
            orders, complete = interleavings(progs, peer_win, cap, rng)
            exhaustive_all = exhaustive_all and complete
            ctx.dist("combinations")
            ctx.dist("combinations-exhaustive" if complete else "combinations-sampled")
            for order in orders:
                ex = run_order(progs, order, peer_win)
                case = {"writer": wn, "closer": cn, "peer": pn, "peer_window": peer_win, "order": order,
                        "schedule": ex.reqs[1:], "wire": ex.rig.wire}
                ctx.case((wn, cn, pn, peer_win, tuple(order)), True)
                ctx.dist("schedules")
                judge(ctx, ex, case)
                batches.append((case, ex.reqs, ex.impl))
                if len(batches) % 500 == 0:
                    ctx.sample(case)
    ctx.extra["interleavings_exhaustive_per_combination"] = bool(exhaustive_all)

    # ---- pairs of EOF/CLOSE deciders at statement granularity (gate between the flag check and the flag write of
    #      _send_eof / _close_internal, taken whenever the thread does not hold the channel lock)
    deciders = ["shutw", "shut2", "close", "pclose", "reqfail"]
    for a, b in itertools.product(deciders, deciders):
        for third in (([], ["shutw 0"], ["close 0"], ["psucc"]) if ctx.thorough else ([], ["close 0"], ["psucc"])):
            progs = [list(third), ["%s 1" % a], ["%s 2" % b]]
            orders, complete = interleavings(progs, 32768, 400 if ctx.thorough else 40, rng)
            for order in orders:
                ex = run_order(progs, order, 32768)
                case = {"deciders": [a, b] + third, "order": order, "schedule": ex.reqs[1:], "wire": ex.rig.wire}
                ctx.case(("pair", a, b, tuple(third), tuple(order)), True)
                ctx.dist("decider-pair-schedules")
                if any(r.startswith("gate") for r in ex.reqs):
                    ctx.dist("statement-gate-taken-outside-the-lock")
                judge(ctx, ex, case)
                batches.append((case, ex.reqs, ex.impl))

    # ---- random schedules with closes
    for i in range(3000 if ctx.thorough else 300):
        nthr = rng.choice([2, 3])
        in_win, peer_win, peer_max = c19.pick_sizes(rng)
        rig = lib_chan.Rig(in_win, peer_win, peer_max, nthr)
        reqs, impl = ["init %d %d %d %d 0" % (in_win, peer_win, peer_max, nthr)], [rig.view()]
        ex = Exec.__new__(Exec)
        ex.rig, ex.reqs, ex.impl, ex.racers, ex.pclose_done, ex.post_growth = rig, reqs, impl, {}, False, None
        ex.adj_holders = {}
        ex.progs = [[] for _ in range(nthr)]
        try:
            for op in c19.gen_schedule(rng, rig, nthr, rng.randrange(10, 40), in_win, peer_max, allow_close=True,
                                       allow_sendall=True):
                ex.do(op)
            for _ in range(60):
                todo = [t for t in ex.unfinished() if not ex.blocked(t)]
                if not todo:
                    break
                ex.advance(todo[0])
        finally:
            rig.teardown()
        case = {"random": True, "in_window": in_win, "peer_window": peer_win, "peer_max_packet": peer_max,
                "threads": nthr, "schedule": reqs[1:], "wire": rig.wire[:80]}
        ctx.case((in_win, peer_win, peer_max, tuple(reqs)), "E" in rig.wire or "C" in rig.wire)
        ctx.dist("random-schedules")
        judge(ctx, ex, case)
        batches.append((case, reqs, impl))
    c19.compare(ctx, "C22", batches)


META = {
    "claimed": True,
    "level": ("Proved in Lean for every schedule: at most one EOF and one CLOSE exist (written or held), EOF iff eof_sent "
              "(eof_close_at_most_once); a peer CLOSE on an open channel leaves the handler holding [EOF?, CLOSE], "
              "closes and releases the channel, on a closed one sends nothing and releases it "
              "(peer_close_answered_and_released, released_implies_closed); the lock regions treated as atomic are the "
              "ones in the source: decision_sites_locked (table generated from the AST of channel.py on every run: every "
              "call of _send_eof/_close_internal/_set_closed and every write of eof_sent/closed is under self.lock), "
              "decided_once_if_all_locked / eof_decided_once_at_statement_level (statement-granular check-then-set "
              "model), unlocked_site_double_emit_witness; once closed with EOF out no action of any "
              "thread creates a message and send raises (dead_channel_sends_nothing, send_on_closed_raises); nothing "
              "is reserved after EOF is decided (no_reservation_after_eof). PARTIAL for 'no data after EOF/CLOSE': "
              "C22_partial proves it for schedules in which EOF was not decided while a writer held a reservation; "
              "C22_witness is the proved counter-example wire [EOF, CLOSE, DATA] (kept as a known finding)."),
    "note": ("The third clause of the property is FALSE of the code under concurrency: Channel._send releases the "
             "channel lock before _send_user_message (deliberately, to avoid a deadlock during re-keying), so a "
             "reservation made before close() is written after EOF/CLOSE. The check reproduces it deterministically "
             "on every run (gate at _send_user_message) and reports only that exact pattern as the known finding; "
             "data after EOF/CLOSE from a thread that had no reservation at that moment is a VIOLATION."),
    "technique": "Lean 4 proof (counting and race-freedom invariants over the interleaving semantics) + exhaustive/"
                 "sampled lock-region interleavings on the real Channel under a deterministic scheduler",
}
