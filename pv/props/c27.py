"""C27 — Remote SFTP files behave like local Python binary files.

Model: lean/PV/Model/SftpFile.lean (SFTPFile + server handle) on lean/PV/Model/BufFile.lean; spec:
lean/PV/Model/PyFile.lean; theorems: lean/PV/Props/C27.lean; driver: lean/Driver/C27.lean.
Every run: (1) correspondence — real SFTPClient/SFTPFile against a real SFTPServer over a loopback,
backed by a temp dir, vs the model (return values, exception kinds, final file bytes, _pos/_realpos/
_rbuffer/_wbuffer); (2) spec validation — the Lean PyFile spec vs real local files (unbuffered FileIO and
default buffering; outside append modes, programs on which those two disagree are outside the spec; in append
modes the unbuffered file = the OS semantics is the reference); (3) oracle — real SFTPFile
vs real local file, step by step and final contents.  A divergence is "known" iff the model run fired a
listed defect tag at or before the diverging step; an untagged divergence is a VIOLATION.
"""
import os

from pv import core
from pv.core import hx
from pv import lib_sftpfile as L


def request_line(p, dflt, maxreq_default, tz):
    return "prog %sb %d %d %d %d %d %s %s" % (
        p["mode"], p["bufsize"], dflt, p["maxreq"] or maxreq_default, 1 if tz else 0,
        0 if p.get("srv_unbuffered") else 1,
        "absent" if p["init"] is None else hx(p["init"]), " ".join(L.op_token(o) for o in p["ops"]))


def state_line(f):
    return "pos=%d realpos=%d rbuf=%s wbuf=%s closed=%d" % (
        f._pos, f._realpos, hx(f._rbuffer), hx(f._wbuffer.getvalue()), 1 if f._closed else 0)


def run_case(ctx, loop, p, reply, req, witness_tag=None):
    """Returns the set of tags to which an oracle divergence was attributed (empty if none)."""
    name = loop.fresh(p["init"])
    try:
        o1, t1, f1 = L.run_remote(loop, name, p["mode"] + "b", p["bufsize"], p["pipelined"], p["ops"], p["maxreq"],
                                  p.get("srv_unbuffered", False))
        st = state_line(f1) if f1 is not None else ""
        if f1 is not None:
            f1._closed = True  # keep __del__ quiet (a failed close() leaves the file open)
        oa, ta, fa = L.run_local(loop, name, p["mode"], p["ops"], 0)
        ca = loop.content(loop.ref, name)
        if fa is not None:
            fa.close()
        # second local run with default buffering, on a pristine copy
        if p["init"] is None:
            try:
                os.remove(os.path.join(loop.ref, name))
            except OSError:
                pass
        else:
            with open(os.path.join(loop.ref, name), "wb") as g:
                g.write(p["init"])
        ob, tb, fb = L.run_local(loop, name, p["mode"], p["ops"], -1)
        if fb is not None:
            fb.close()
        cb = loop.content(loop.ref, name)
        c1 = loop.content(loop.root, name)
    finally:
        loop.drop(name)
    case = {"program": req, "pipelined": p["pipelined"]}
    for t, o in zip(t1, p["ops"]):
        if t.startswith("X:"):
            ctx.fail("unexpected-exception:" + t[2:], case, "op %s raised %s" % (L.op_token(o), t))
    differ = (oa, ta, ca) != (ob, tb, cb)
    # The reference is the UNBUFFERED local file (FileIO = the OS semantics, which is also what PyFile specifies).
    # In append modes CPython's buffered objects keep their own position across O_APPEND writes and get it wrong
    # (tell() past EOF, reads that continue where the last read stopped), so there the buffered run is only
    # counted; in the other modes a disagreement between the two local flavours puts the program outside the spec.
    ambiguous = differ and "a" not in p["mode"]
    if differ:
        ctx.dist("local-flavours-differ:" + ("append-mode(reference = unbuffered)" if "a" in p["mode"] else "other(skipped)"))
    ctx.dist("mode:" + p["mode"])
    ctx.dist("buffering:" + ("unbuffered" if p["bufsize"] <= 0 else "line" if p["bufsize"] == 1 else "sized"))
    ctx.dist("pipelined" if p["pipelined"] else "not-pipelined")
    ctx.dist("generator:" + (p.get("targeted") or ("disciplined" if p.get("disciplined") else "hostile")))
    ctx.dist("server-file:" + ("unbuffered" if p.get("srv_unbuffered") else "buffered(StubSFTPServer default)"))
    if reply is None:
        return set()
    parts = [x.strip() for x in reply.split(";")]
    if len(parts) != 8:
        ctx.disagree("driver reply malformed", case, reply, "")
        return set()
    mo, mtoks, so, stoks, tags, mcont, scont, mstate = parts
    mtoks, stoks, tags = mtoks.split(), stoks.split(), tags.split()
    # ---- (1) correspondence model vs real SFTPFile (stop at the first unmodelled step)
    unmod = mtoks.index("U") if "U" in mtoks else None
    if unmod is not None:
        ctx.dist("unmodelled:server-readahead-after-truncate")
    upto = len(mtoks) if unmod is None else unmod
    impl = (o1, t1[:upto]) + ((hx(c1) if c1 is not None else "absent", st) if unmod is None and o1 == "ok" else ())
    model = (mo, mtoks[:upto]) + ((mcont, mstate) if unmod is None and mo == "ok" else ())
    if o1 != "ok" and mo == "E":
        impl, model = ("E",), ("E",)
    predicted = impl == model
    if not predicted:
        ctx.disagree("SFTPFile vs model", case, repr(model), repr(impl))
    # ---- (2) spec validation PyFile vs real local files
    if not ambiguous:
        spec = (so, stoks, scont)
        local = (oa, ta, hx(ca) if ca is not None else "absent")
        if spec != local:
            ctx.disagree("PyFile spec vs real local file", case, repr(spec), repr(local))
    ctx.case(req, nontrivial=(o1 == "ok" and any(not t.startswith("E") for t in t1)))
    if ambiguous or unmod is not None:
        return set()
    # ---- (3) oracle: real SFTPFile vs real local file
    div = None
    if L.erase(o1) != L.erase(oa):
        div = ("open", 0)
    else:
        for j, (a, b) in enumerate(zip(t1, ta)):
            if L.erase(a) != L.erase(b):
                div = (p["ops"][j][0], j + 1)
                break
        if div is None and c1 != ca:
            div = ("final-contents", len(tags))
    for a, b in zip(t1, ta):
        if a == "ok" and b.startswith("n:"):
            ctx.fail("tag:returns_none", case, "SFTPFile returned None, the local file returned %s" % b[2:])
            break
    fired = set()
    for ts in tags:
        if ts != "-":
            fired.update(ts.split(","))
    if not (fired - EXCLUSION_TAGS):
        ctx.dist("no-trigger-fired(covered by refines_partial)")
        if p.get("targeted"):
            ctx.dist("no-trigger-fired:" + p["targeted"])
    if div is None:
        return set()
    sticky = set()
    for ts in tags[: div[1] + 1]:
        if ts != "-":
            sticky.update(ts.split(","))
    sticky -= EXCLUSION_TAGS  # modelling exclusions explain nothing about the real code
    detail = "first divergence at %s (step %d): SFTPFile %s, local file %s; tags %s" % (
        div[0], div[1], (t1 + ["-"])[div[1] - 1][:80] if div[1] else o1, (ta + ["-"])[div[1] - 1][:80] if div[1] else oa,
        sorted(sticky))
    if div[0] == "final-contents":
        detail = "final contents differ: remote %s local %s; tags %s" % (hx(c1 or b"")[:120], hx(ca or b"")[:120], sorted(sticky))
    where = ("append-mode:" if "a" in p["mode"] else "") + div[0]
    if not predicted:
        # the model does not reproduce this run, so its tags explain nothing here
        ctx.fail("unpredicted-divergence:" + where, case, detail + " (model disagrees with the real SFTPFile on this program)")
        return set()
    if not sticky:
        ctx.fail("untagged-divergence:" + where, case, detail)
    for t in sticky:
        ctx.fail("tag:" + t, case, detail)
    ctx.dist("divergent")
    return sticky


# programs that once exposed a defect which has since been repaired in /repo (model = repaired code)
REGRESSIONS = [
    # SFTPHandle.write advanced its cached offset after an append-mode write although the OS had moved the
    # position to EOF: the next READ at the cached offset skipped the seek and returned EOF
    {"mode": "a+", "bufsize": 0, "pipelined": False, "init": b"0123456789", "maxreq": None,
     "ops": [("s", 0, 0), ("r", 3), ("w", b"XX"), ("s", 5, 0), ("r", 4), ("c",)]},
    {"mode": "a+", "bufsize": 0, "pipelined": True, "init": b"0123456789abcdef", "maxreq": 4,
     "ops": [("s", 2, 0), ("r", 3), ("w", b"Y"), ("r", None), ("s", 6, 0), ("l", None), ("c",)]},
]


# triggers that mark a limit of the MODEL (not a defect): never reported as findings
EXCLUSION_TAGS = {"unmodelled_server_readahead"}


def parse_witness(line):
    """`witness <tag> <mode> <bufsize> <init|absent> <ops…>` (printed by the driver) → program dict"""
    w = line.split()
    ops = []
    for tok in w[5:]:
        k = tok.split(":")
        if k[0] in ("r", "l", "L"):
            ops.append((k[0], None if k[1] == "N" else int(k[1])))
        elif k[0] == "w":
            ops.append(("w", core.unhx(k[1])))
        elif k[0] == "s":
            ops.append(("s", int(k[1]), int(k[2])))
        elif k[0] == "T":
            ops.append(("T", int(k[1])))
        else:
            ops.append((k[0],))
    return w[1], {"mode": w[2].replace("b", ""), "bufsize": int(w[3]), "pipelined": False,
                  "init": None if w[4] == "absent" else core.unhx(w[4]), "maxreq": None, "ops": ops}


def run(ctx):
    from paramiko.sftp_file import SFTPFile

    ctx.rule = ("random programs (1-40 ops of read/readline/readlines/write/seek/tell/flush/truncate/close, closed "
                "at the end) in modes r r+ w w+ a a+ x wx w+x (+b), bufsize in {-1,0,1,2..65536}, pipelined or not, "
                "MAX_REQUEST_SIZE patched to 1..1000 on some files to exercise request splitting, existing or absent "
                "files of LF/CR/NUL/0xff/letters, in-range, past-EOF and negative seeks. distinct = distinct request "
                "lines; non-trivial = the file opened and at least one call succeeded")
    ctx.trust("tests/_stub_sftp.py StubSFTPServer + CPython file objects on the server side",
              "PyFile spec adequacy: validated against real local files (FileIO and default buffering) on every run")
    ctx.assume("truncate() after close() is not generated (server answer to an invalid handle is C30's subject)",
               "after a truncate, reads through a server handle that already served a READ are not modelled "
               "(CPython BufferedRandom read-ahead on the server may be stale); such runs are compared up to that point",
               "prefetch/readv (C28), pipelined-write error collection (C29), >100 outstanding pipelined writes (C30) not exercised",
               "whence outside {0,1,2} and offsets >= 2**63 are not generated")
    ctx.build()
    dflt = SFTPFile._DEFAULT_BUFSIZE
    maxreq = SFTPFile.MAX_REQUEST_SIZE
    tz = L.probe_truncate_zeroes()
    ctx.extra["server_truncate_zeroes"] = tz
    rng = ctx.rng
    n = 8000 if ctx.thorough else 600
    progs = []
    for i in range(n):
        p = L.gen_program(rng, big=(i % 40 == 39))
        progs.append(p)
    wit = ctx.driver("C27", ["witnesses", "legacy"])
    witnesses, legacy = [], []
    if wit is not None:
        for line in wit[0].split(" || "):
            if line.strip():
                witnesses.append(parse_witness(line.strip()))
        for line in wit[1].split(" || "):  # former witnesses of repaired defects: ordinary programs now
            if line.strip():
                legacy.append(parse_witness(line.strip())[1])
    allp = [w[1] for w in witnesses] + REGRESSIONS + legacy + progs
    reqs = [request_line(p, dflt, maxreq, tz) for p in allp]
    replies = ctx.driver("C27", reqs)
    loop = L.Loop()
    try:
        for i, p in enumerate(allp):
            tagset = run_case(ctx, loop, p, replies[i] if replies is not None else None, reqs[i])
            if i < len(witnesses):
                want = witnesses[i][0]
                if want in ("returns_none", "truncate_in_append_mode"):
                    # returns_none is reported by its own rule; after truncate in append mode CPython's own
                    # buffered file object shows the same stale position as paramiko (raw FileIO does not), so
                    # this witness is reference-ambiguous on real files and only the Lean theorem speaks about it
                    continue
                if want == "truncate_zeroes_file" and not tz:
                    continue
                if want not in tagset:
                    ctx.disagree("witness no longer reproduces on the real code", {"tag": want, "program": reqs[i]},
                                 "divergence tagged " + want, "tags %s" % sorted(tagset))
            elif i % 100 == 0:
                ctx.sample({"request": reqs[i][:300], "reply": (replies[i] if replies else "")[:300]})
    finally:
        loop.close()


META = {
    "claimed": True,
    "level": ("PARTIAL (hypothesis: no defect trigger fires). The Lean model reproduces the current SFTPFile/BufferedFile/"
              "SFTPHandle behaviour exactly and every departure from the local-file spec PyFile carries a defect tag. "
              "Proved: refines_partial — for EVERY request-size limit, buffer size/buffering mode (unbuffered, line, "
              "sized), file content, EVERY mode (append included) and EVERY program of read/readline/readlines/write/"
              "seek/tell/flush/truncate/close calls, if no trigger fires along the run then each call returns what "
              "the local file returns (modulo returns_none and the exception class) and the server file equals the "
              "local file (exactly once closed, up to the unflushed write buffer before) — by a simulation relation "
              "(step_refines; rel_init: freshly opened files are related for any mode string/buffer size; "
              "closed_contents_equal). The read side composes generic theorems about BufferedFile over any lawful "
              "stream (PV/Model/ReadGeneric.lean: results are a function of the pending bytes only, with _pos/_realpos "
              "bookkeeping) with the SFTP instance (READ requests capped at MAX_REQUEST_SIZE, handle offset cache). "
              "One machine-checked *_witness theorem per remaining tag, and legacy_*_witness theorems showing that "
              "the former witnesses of the three repaired data-corrupting defects now refine the spec. Every run: "
              "byte-exact correspondence of the model with a real SFTPClient/SFTPFile against a real SFTPServer over "
              "a loopback (return values, exception kinds, final file bytes, _pos/_realpos/_rbuffer/_wbuffer; modes "
              "r r+ w w+ a a+ x wx w+x, bufsize -1..65536, pipelined or not, MAX_REQUEST_SIZE patched down to force "
              "request splitting; 30% disciplined, 15% targeted \"seek around the read-ahead window with a pending write\" and 10% targeted "
              "\"a+ read-ahead, append, read again without seeking\" programs "
              "= inside the theorem's hypothesis, 45% hostile), "
              "validation of the PyFile spec against real local files, and the oracle real-SFTPFile-vs-real-local-"
              "file; a divergence is known iff the model reproduces the run and fired a listed tag at or before it, "
              "anything else is a VIOLATION; every witness is replayed on the real code."),
    "note": ("Remaining triggers (= hypotheses of refines_partial, all listed as known findings, API conventions): "
             "tell with buffered writes, negative seek accepted, flush/tell/seek on a closed file, truncate on a "
             "read-only file, truncate in append mode (stale _size), readlines(hint) rounding, readline(0) on an "
             "unreadable/closed file, mode 'x' without 'w'; plus returns_none (erased in the comparison) and ONE "
             "modelling exclusion that is not a finding: truncate through a server handle that already served a READ "
             "(CPython BufferedRandom read-ahead inside StubSFTPServer may be stale; such runs are compared up to that "
             "point). Excluded from generation: truncate after close (C30), whence outside 0/1/2, offsets >= 2**63, "
             "prefetch/readv (C28), >100 outstanding pipelined writes (C29/C30). Local reference = the unbuffered "
             "FileIO object (OS semantics = what PyFile specifies), cross-checked against the default-buffered object: "
             "outside append modes a disagreement between the two puts the program outside the spec (skipped, counted); "
             "in append modes CPython's buffered objects mis-track the position after O_APPEND writes, so the unbuffered "
             "file alone is the reference there (read after an append returns nothing). Exceptions compare as 'raises'. Trusted: "
             "Lean kernel + 3 axioms, harness/generators, tests/_stub_sftp.py, CPython file objects. Fixed in /repo "
             "through this check: fdf7955 (server append-mode offset cache), e29ecb5 (write after read-ahead), c5093b5 "
             "(read with unflushed write buffer), 8eeb0a7 (truncate ignores buffers); truncate_zeroes_file repaired "
             "by 280deaf (C31)."),
    "technique": "Lean 4 proof (simulation/refinement to a local-file spec; generic stream lemmas) + differential correspondence + spec validation",
}
